"""C08 - results are collected exactly once under concurrent writers."""

import ast

from .. import AnalysisError
from ..callgraph import LOCK_WRAPPERS
from ..cfg import ALL_KINDS, NORMAL_KINDS, iter_own
from ..lib import always_followed_by, dominated_by, guard_forms, inline_locals, inlined_expr, iteration_paths, key_of, only_return, render, unlocked_writers
from ..report import describe, rule

P = "C08"

describe(
    P,
    "Decides the lock discipline the exactly-once collection rests on: every function that opens a results file for writing or "
    "deletes it runs only inside a hold of a results-file lock (lock-context analysis over all callers, callbacks included); "
    "the lock wrapper acquires before calling and releases on every exit; moving a node file reads, appends to the "
    "consolidated file and only then deletes, in one hold, the delete being unreachable if the append raised; an append to "
    "a deleted node file re-creates the header; the rows returned to the submitter round are exactly the rows moved, from "
    "every node file, unfiltered; locks nest only consolidated -> node; and every completion path collects before it reads "
    "the final results."
    " Every row written by a compute-node job object goes to that batch's node file (never straight to the consolidated file); the collections returned by the submitter's collection loop are bound once, outside the loop.",
    [
        "Allow-list: ResultsAggregator.clear_results_for_resubmission / clear_unsuccessful_results rewrite the consolidated file without the "
        "lock - they run only from resubmit-jobs, which holds the submitter role on a complete submission (C13.1): no runner or collector exists then",
        "filelock.SoftFileLock exclusion; POSIX append / unlink; shared-filesystem visibility",
        "the two results-file locks are not distinguished per instance (lock class 'results'); C08.6 pins the only nesting",
    ],
    "that interleavings cannot lose or duplicate a row given the lock (trusted library); CSV integrity for job names containing the delimiter; a row truncated by a node kill.",
)

RA = "ResultsAggregator"


def node_rows_go_to_node_file(ctx, r, rid):
    """Every row written from a compute-node job object goes to that batch's node file (never directly to the
    consolidated file: the collector reports only rows it moved, so a row written elsewhere is never reported as newly
    completed and its job stays 'submitted' for ever)."""
    ap = ctx.fn(f"{RA}.append", rid)
    n = 0
    for f in ctx.ix.functions.values():
        for s in ctx.cg.sites_in(f):
            if not s.calls_short(ctx.ix, f"{RA}.append"):
                continue
            n += 1
            out = ctx.arg_for(s, ap, "output_dir")
            b = ctx.arg_for(s, ap, "batch_id")
            # one writer per batch: on a multi-node batch every node runs the queue, only the manager node records
            for node in ctx.nodes_of(f, s.node):
                forms = guard_forms(ctx, f, node)
                okm = any(p and fm in ("<AsyncCliCommand._is_manager_node>", "self._is_manager_node") for fm, p in forms)
                r.check(okm, f"{f.short}: only the manager node of a batch records the result", key_of(f, "result recorded by every node of the batch"), s.loc,
                        f"`{ctx.src(s.node)[:60]}` is reachable without `self._is_manager_node`: on a multi-node batch every node appends the row, so the job has several rows in the consolidated results "
                        "and is reported as newly completed more than once", "No row is lost, duplicated")
            ok = out is not None and ctx.src(out) == "self._output" and b is not None and ctx.src(b) == "self._batch_id"
            r.check(ok, f"{f.short}: the row goes to this batch's node file of this output directory", key_of(f, "append target"), s.loc,
                    f"`{ctx.src(s.node)}` writes the row to {'the consolidated file (no batch_id)' if b is None or ctx.src(b) == 'None' else 'batch ' + ctx.src(b)} of {ctx.src(out) if out is not None else None}: "
                    "the collector reports only rows it moved out of results_batch_<id>.csv, so this result is never reported as newly completed (the job stays submitted, its dependents are never released or canceled)",
                    "reported as newly completed to exactly one submitter round")
    if n < 2:
        raise AnalysisError(rid, f"only {n} ResultsAggregator.append call sites found (expected the completion and the cancel site)")
    # inside append(): the consolidated file is chosen only for `batch_id is None` - never by truthiness (batch 0, "0")
    for nd in ctx.cfg(ap).nodes:
        if nd.kind == "stmt" and isinstance(nd.ast, (ast.Assign, ast.Expr, ast.Return)):
            for c in [x for x in ast.walk(nd.ast) if isinstance(x, ast.Call)]:
                s9 = ctx.cg.site_of(ap, c)
                if s9 is not None and s9.calls_short(ctx.ix, f"{RA}.load") and not s9.calls_short(ctx.ix, f"{RA}.load_node_results"):
                    forms = {(f.replace(" ", ""), p) for f, p in guard_forms(ctx, ap, nd)}
                    okn = ("batch_idisNone", True) in forms and all("batch_id" not in f or f == "batch_idisNone" for f, p in forms)
                    r.check(okn, "append() writes to the consolidated file only when no batch id was given (`is None`)", key_of(ap, "consolidated target chosen by truthiness"), ap.loc(c),
                            f"ResultsAggregator.append picks the consolidated file under {sorted(forms)}: a falsy batch id (batch 0 parsed as an int, an empty string) sends a node's rows straight into "
                            "processed_results.csv - the collector reports only rows it moved out of a node file, so those results are reported to no round", "reported as newly completed to exactly one submitter round")
    # the flag itself: stored from the constructor argument, which every construction site computes by *calling* the interface's am_i_manager()
    from ..lib import attr_stores, inlined_expr

    ACC = "AsyncCliCommand"
    init = ctx.fn(f"{ACC}.__init__", rid)
    for f2, node, attr, t, kind in attr_stores(ctx, {"_is_manager_node"}):
        if f2.cls is not None and f2.cls.name == ACC:
            stt = ctx.stmt_of(f2, node)
            okst = f2 is init and isinstance(getattr(stt, "value", None), ast.Name) and stt.value.id in init.params
            r.check(okst, "_is_manager_node is the constructor argument", key_of(f2, "writes _is_manager_node"), f2.loc(node), f"`{ctx.src(stt)[:60]}` rebinds the manager-node flag", "No row is lost, duplicated")
            pname = stt.value.id if okst else None
            m = 0
            for g in ctx.ix.functions.values():
                for s2 in ctx.cg.sites_in(g):
                    if not (s2.constructs or "").endswith(ACC) or pname is None:
                        continue
                    m += 1
                    v = ctx.arg_for(s2, init, pname)
                    e = inlined_expr(ctx, g, v) if v is not None else None
                    okv = isinstance(e, ast.Call) and isinstance(e.func, ast.Attribute) and e.func.attr == "am_i_manager" and not e.args
                    r.check(okv, f"{g.short}: the flag is the result of am_i_manager()", key_of(g, "manager-node flag source"), s2.loc,
                            f"{g.short} passes `{ctx.src(e) if e is not None else None}` as {pname}: not the *result* of the interface's am_i_manager() - a bound method or a constant is truthy on every node, so every "
                            "node of a multi-node batch records every job and each row appears once per node in the consolidated results", "No row is lost, duplicated")
            if pname is not None and m < 1:
                raise AnalysisError(rid, "no construction site of AsyncCliCommand found")
    manager_election(ctx, r, rid)



def manager_election(ctx, r, rid, single_node=True):
    """Exactly one node of a multi-node batch is the manager: SLURM numbers the nodes of an allocation 0..N-1 in SLURM_NODEID (SLURM_LOCALID
    and SLURM_PROCID number *tasks*; the first task on every node has local id 0).  SlurmManager.am_i_manager must compare SLURM_NODEID with
    "0" and must not default to "0" when the variable is unset.  (The variable's meaning is SLURM's contract, taken as an assumption.)"""
    fn = ctx.fn("SlurmManager.am_i_manager", rid)
    ret = only_return(ctx, fn)
    txt = ctx.src(ret).replace("'", '"').replace(" ", "") if ret is not None else ""
    reads = [c for c in ast.walk(ret) if isinstance(c, (ast.Call, ast.Subscript))] if ret is not None else []
    var = None
    for c in reads:
        if isinstance(c, ast.Call) and ctx.src(c.func) in ("os.environ.get", "os.getenv") and c.args and isinstance(c.args[0], ast.Constant):
            var = (c.args[0].value, c.args[1].value if len(c.args) > 1 and isinstance(c.args[1], ast.Constant) else None)
        if isinstance(c, ast.Subscript) and ctx.src(c.value) == "os.environ" and isinstance(c.slice, ast.Constant):
            var = (c.slice.value, "<KeyError>")
    ok = var is not None and var[0] == "SLURM_NODEID" and var[1] not in ("0", 0) and isinstance(ret, ast.Compare) and len(ret.ops) == 1 and isinstance(ret.ops[0], ast.Eq) and ('=="0"' in txt or '"0"==' in txt)
    r.check(ok, "the manager node is the one whose SLURM_NODEID is 0", key_of(fn, "manager election"), fn.loc(fn.node),
            f"SlurmManager.am_i_manager decides by `{ctx.src(ret) if ret is not None else None}`: not `SLURM_NODEID == \"0\"` - with a task-level variable (SLURM_LOCALID, SLURM_PROCID) or a \"0\" default every node of a "
            "multi-node batch elects itself: each job's result is recorded once per node and run-multi-node-job starts the user's command on every node", "never starts a job's command more than once")


    # the single-node siblings: local mode and the fake HPC have one node, which is the manager whatever the environment says
    for cname in (("LocalManager", "FakeManager") if single_node else ()):
        m = ctx.fn(f"{cname}.am_i_manager", rid)
        rv = only_return(ctx, m)
        r.check(isinstance(rv, ast.Constant) and rv.value is True, f"{cname}.am_i_manager() is True", key_of(m, "single-node manager election"), m.loc(m.node),
                f"{cname}.am_i_manager returns `{ctx.src(rv) if rv is not None else None}` instead of True: a single-node run can decide it is not the manager (from a SLURM variable inherited from an enclosing "
                "allocation, say), and then no job records its result - the run completes with every job missing", "every job ... exactly one entry ... no missing jobs")


def rows_newline_terminated(ctx, r, rid):
    """Every function of ResultsAggregator that writes rows leaves the file newline-terminated, so the next append
    starts a new row: per-row `write(text); write("\\n")`, a joined text that ends in "\\n", or the csv writer.
    A text built with "\\n".join(...) and written without a trailing newline glues the next row onto the last one."""
    cl = ctx.cls(RA, rid)
    n = 0
    for m in cl.methods.values():
        for c in iter_own(m.node):
            if not (isinstance(c, ast.Call) and isinstance(c.func, ast.Attribute) and c.func.attr == "write" and len(c.args) == 1):
                continue
            a = c.args[0]
            for nd in ctx.nodes_of(m, c):
                a2 = inline_locals(ctx, m, a, nd)
            txt = ctx.src(a2).replace('"', "'")
            if not (isinstance(a2, ast.Call) and isinstance(a2.func, ast.Attribute) and a2.func.attr == "join" and txt.startswith("'\\n'.join(")):
                continue
            n += 1
            r.bad(key_of(m, "rows written without a final newline"), m.loc(c),
                  f"`{ctx.src(c)}` writes rows joined by newlines but no newline after the last one: the next append (a later collection round, a node's next result) continues that line - one result's last "
                  "field and the next result's name are glued together, the later job has no row (it is reported missing) and the earlier one carries a corrupted HPC job id",
                  "No row is lost, duplicated, truncated or attributed to another job, and the consolidated file always parses")
    # per-row idiom: a write of a row text is followed by write("\n") in the same block
    for m in cl.methods.values():
        for st in iter_own(m.node):
            if isinstance(st, ast.Expr) and isinstance(st.value, ast.Call) and isinstance(st.value.func, ast.Attribute) and st.value.func.attr == "write" and st.value.args:
                a = st.value.args[0]
                if isinstance(a, ast.Constant):
                    continue
                par = ctx.parents(m).get(id(st))
                blk = next((getattr(par, f) for f in ("body", "orelse") if isinstance(getattr(par, f, None), list) and st in getattr(par, f)), [])
                i = blk.index(st) if st in blk else -1
                nxt = blk[i + 1] if 0 <= i < len(blk) - 1 else None
                ends_nl = isinstance(a, ast.BinOp) and isinstance(a.op, ast.Add) and isinstance(a.right, ast.Constant) and str(a.right.value).endswith("\n")
                follows = isinstance(nxt, ast.Expr) and isinstance(nxt.value, ast.Call) and isinstance(nxt.value.func, ast.Attribute) and nxt.value.func.attr == "write" and nxt.value.args and isinstance(nxt.value.args[0], ast.Constant) and nxt.value.args[0].value == "\n"
                joined = isinstance(a, ast.Call) and isinstance(a.func, ast.Attribute) and a.func.attr == "join" and ctx.src(a.func.value).replace('"', "'") == "'\\n'"
                if joined:
                    continue   # reported above
                n += 1
                r.check(ends_nl or follows, f"{m.short}: the row written is terminated by a newline", key_of(m, "row without newline"), m.loc(st), f"`{ctx.src(st)}` is not followed by a newline write")
    if n < 3:
        raise AnalysisError(rid, f"only {n} row writes recognised in ResultsAggregator")

@rule(P, "C08.1", "T7", "every write / delete of a results file happens inside a results-lock hold", min_obligations=5)
def c08_1(ctx, r):
    cl = ctx.cls(RA, "C08.1")
    viol, W = unlocked_writers(ctx, "RESULT_WRITE", cl, "results")
    allow = {
        f"{RA}.clear_results_for_resubmission": "resubmit-jobs only: role held on a complete submission, no concurrent runner/collector",
        f"{RA}.clear_unsuccessful_results": "same as clear_results_for_resubmission (no caller in the tree)",
    }
    direct = [f for f in cl.methods.values() if any("RESULT_WRITE" in ctx.site_effects(s2) and "OWN_HOLD" not in ctx.site_effects(s2) for s2 in ctx.cg.sites_in(f))]
    if len(direct) < 3:
        raise AnalysisError("C08.1", f"only {len(direct)} direct writers of the results file recognised")
    for f, outside in viol:
        if f.short in allow:
            # the allow-listed writers must be reachable only from resubmit-jobs
            callers = {s.fn.short for s in ctx.callers_of(f)}
            ok = callers <= {"resubmit_jobs._reset_results"}
            r.check(ok, f"{f.short}: allow-listed unlocked rewrite, called only from resubmit-jobs", key_of(f, "unlocked rewrite callers"), f.loc(),
                    f"{f.short} rewrites the results file without the lock and is now called from {sorted(callers)}: a concurrent append is lost", "No row is lost", reason=allow[f.short])
            continue
        r.bad(key_of(f, "RESULT_WRITE without results lock"), f.loc(),
              f"{f.short} writes / deletes a results file without holding its lock (called from {sorted({s.fn.short for s in outside}) or ['(public API)']}): an append racing with move-and-delete is lost or the file is corrupted",
              "No row is lost, duplicated, truncated")
    for f in direct:
        if f.short == f"{RA}._write_results":
            continue
        r.check(ctx.is_locked_only(f, "results"), f"{f.short}: only under a results lock", key_of(f, "locked-only"), f.loc(),
                f"{f.short} opens/deletes the results file and has a caller that does not hold the lock", "No row is lost, duplicated, truncated")
    # nobody outside the class touches results files
    for fn in ctx.ix.all_functions():
        if fn.cls is cl or fn.module.name.startswith("jade.extensions.demo"):
            continue
        for s in ctx.cg.sites_in(fn):
            if s.external in ("open", "os.remove", "os.unlink") and s.node.args and ("PROCESSED_RESULTS_FILENAME" in ctx.src(s.node.args[0]) or "results_batch" in ctx.src(s.node.args[0])):
                r.bad(key_of(fn, "raw results file access"), s.loc, f"{fn.short} opens/removes a results file directly, bypassing ResultsAggregator's lock")


@rule(P, "C08.1b", "T7", "a locked function runs on the instance whose lock is held (no call on another aggregator without its lock)", min_obligations=5)
def c08_1b(ctx, r):
    cl = ctx.cls(RA, "C08.1b")
    targets = [f for f in cl.methods.values() if ("RESULT_WRITE" in ctx.direct_effects(f) or f.name in ("_move_results", "_get_results", "_process_results")) and f.name.startswith("_") and f.name != "__init__"]
    for f in targets:
        for s in ctx.callers_of(f):
            if s.how == "callback":
                r.ok(f"{f.short}: invoked as a callback bound to the instance that passed it", at=s.loc)
                continue
            me = s.fn.params[0] if s.fn.params and s.fn.kind in ("method", "property") else None
            if s.via_wrapper and f.qual in s.wrapped:
                w = s.node.func
                arg = next((a for a in s.node.args if isinstance(a, ast.Attribute) and a.attr == f.name), None)
                ok = isinstance(w, ast.Attribute) and isinstance(w.value, ast.Name) and w.value.id == me and arg is not None and isinstance(arg.value, ast.Name) and arg.value.id == me
                r.check(ok, f"{s.fn.short}: self._do_action_under_lock(self.{f.name}, ...) - lock and function of the same instance", key_of(s.fn, f"wrapper/instance mismatch for {f.name}"), s.loc,
                        f"{f.name} is run under the lock of one aggregator on the file of another")
            elif f.qual in s.callees:
                recv = s.node.func.value if isinstance(s.node.func, ast.Attribute) else None
                ok = isinstance(recv, ast.Name) and recv.id == me
                if f.name in ("_get_results",) and s.fn.short in (f"{RA}.get_results_unsafe",):
                    ok = True
                r.check(ok, f"{s.fn.short}: {f.name}() on self (whose lock the caller holds)", key_of(s.fn, f"{f.name} on another instance without its lock"), s.loc,
                        f"{s.fn.short} calls `{ctx.src(s.node.func)}()` directly on another aggregator: that file is read / written / deleted without holding its own lock "
                        "(an append racing with this call is lost)", "No row is lost, duplicated, truncated")


@rule(P, "C08.2", "L0", "the results lock wrapper acquires before calling and releases on every exit", min_obligations=3)
def c08_2(ctx, r):
    from .c10 import _check_wrapper

    w = ctx.fn(f"{RA}._do_action_under_lock", "C08.2")
    _check_wrapper(ctx, r, w, "C08.2")
    # the lock file is derived from the results file name
    init = ctx.fn(f"{RA}.__init__", "C08.2")
    ok = any(isinstance(n, ast.Assign) and ctx.src(n.targets[0]) == "self._lock_file" and "self._filename" in ctx.src(n.value) and ".lock" in ctx.src(n.value) for n in iter_own(init.node))
    r.check(ok, "one lock file per results file (<name>.lock)", key_of(init, "lock file name"), init.loc(), "the lock file is not derived from the results file name: writers of one file use different locks")
    lk = [n for n in iter_own(w.node) if isinstance(n, ast.Call) and ctx.src(n.func).endswith("SoftFileLock")]
    r.check(bool(lk) and ctx.src(lk[0].args[0]) == "self._lock_file", "the wrapper locks self._lock_file", key_of(w, "lock object"), w.loc(), "the wrapper does not lock self._lock_file")


@rule(P, "C08.3", "T2+T7", "move = read, append to the consolidated file, then delete - in one hold, the delete unreachable if the append raised", min_obligations=4)
def c08_3(ctx, r):
    cl = ctx.cls(RA, "C08.3")
    removers = []   # (function, site, kind)
    for f in cl.methods.values():
        for s in ctx.cg.sites_in(f):
            eff = ctx.site_effects(s)
            if "RESULT_DELETE" in eff or "RESULT_EMPTY" in eff:
                removers.append((f, s, "delete" if "RESULT_DELETE" in eff else "empty", "OWN_HOLD" in eff))
    if not removers:
        r.bad(key_of(cl.methods["move_results"] if "move_results" in cl.methods else next(iter(cl.methods.values())), "node file never removed"), cl.module.relpath,
              "no ResultsAggregator method deletes or empties a results file after collecting it: the same rows are collected again by every round", "reported as newly completed to exactly one submitter round")
        return
    for fn, s, kind, own in removers:
        if own:
            r.bad(key_of(fn, f"{kind} in a lock hold of its own"), s.loc,
                  f"`{ctx.src(s.node)[:70]}` {kind}s the node file in a separate hold of its lock: a runner that appends between the collector's read and this hold has its row destroyed unread "
                  "(it is neither consolidated nor reported)", "No row is lost")
            continue
        cfg = ctx.cfg(fn)
        dele = ctx.nodes_of(fn, s.node)
        fcall = [n for n in cfg.nodes for c in cfg.calls_at(n) if isinstance(c.func, ast.Name) and c.func.id in fn.params]
        read = [n for s2 in ctx.sites(fn, short=f"{RA}._get_results") for n in ctx.nodes_of(fn, s2.node)]
        if not fcall or not read:
            r.bad(key_of(fn, f"{kind} without read+append in the same function"), s.loc,
                  f"{fn.short} {kind}s the results file but does not itself read it (reads: {len(read)}) and hand the rows to the append callback (calls: {len(fcall)}): read, append and {kind} are not one locked step",
                  "No row is lost")
            continue
        for d in dele:
            r.check(dominated_by(ctx, fn, d, fcall, ALL_KINDS), "the append callback dominates the delete on all edges (incl. exceptional)", key_of(fn, "delete before/without append"), fn.loc(d.stmt),
                    "the node results file can be deleted although the rows were not (successfully) appended to the consolidated file: the rows are lost", "No row is lost")
            r.check(dominated_by(ctx, fn, d, read, ALL_KINDS), "the read dominates the delete", key_of(fn, "delete before read"), fn.loc(d.stmt), "the node file is deleted before it was read")
        dele_ids = {d.id for d in dele}
        for f in fcall:
            seen, stack = set(), [d for d, k, _ in f.succ if k == "exc"]
            while stack:
                x = stack.pop()
                if x.id in seen:
                    continue
                seen.add(x.id)
                stack.extend(d for d, k, _ in x.succ)
            r.check(not (seen & dele_ids), "a failed append cannot reach the delete (no finally/handler deletes)", key_of(fn, "delete reachable after failed append"), fn.loc(f.stmt),
                    "if appending to the consolidated file raises (quota, I/O error), the node results file is still deleted: the rows are lost", "No row is lost")
            r.check(dominated_by(ctx, fn, f, read, ALL_KINDS), "the read dominates the append", key_of(fn, "append before read"), fn.loc(f.stmt), "rows are appended before they were read")
            handlers = [n for n in cfg.nodes if n.kind == "except"]
            r.check(not handlers, f"no handler in {fn.name} can swallow a failed append", key_of(fn, "handler"), fn.loc(), f"{fn.name} catches exceptions: a failed append can fall through to the delete")
        r.check(ctx.is_locked_only(fn, "results"), f"{fn.name} runs only under the node file's lock", key_of(fn, "locked-only"), fn.loc(), f"{fn.name} is reachable without the lock")
        # one hold: every caller passes it through a single wrapper call and does nothing else with the file
        for cs in ctx.callers_of(fn):
            if cs.via_wrapper and fn.qual in cs.wrapped:
                others = [x for x in ctx.cg.sites_in(cs.fn) if x is not cs and (ctx.site_may(x) & {"RESULT_WRITE", "ACQUIRE_RESULTS"})]
                r.check(not others, f"{cs.fn.short}: read+append+{kind} happen in one hold of the node lock", key_of(cs.fn, "single hold"), cs.loc,
                        f"{cs.fn.short} touches the results file / lock again outside the wrapper call that runs {fn.name}: {[ctx.src(x.node.func) for x in others]}")
        if kind == "empty":
            # an emptied (not deleted) file still exists: the next append must re-create the header from emptiness
            ap = ctx.fn(f"{RA}._append_result", "C08.3")
            hdr_by_tell = any(isinstance(n, ast.Compare) and "tell()" in ctx.src(n) for n in iter_own(ap.node))
            r.check(hdr_by_tell, "after emptying, the next append re-creates the header (decided by file emptiness)", key_of(fn, "emptied file gets no header"), s.loc,
                    f"{fn.short} empties the node file instead of deleting it, but _append_result does not decide the header by `tell() == 0`: the first row written after a collection takes the place of the header "
                    "(one such row is silently dropped, two make the next collection raise)", "No row is lost ... and the consolidated file always parses")
    # the callback appends (mode 'a') to the consolidated file
    cb = ctx.fn(f"{RA}._append_processed_results", "C08.3")
    eff = ctx.direct_effects(cb)
    r.check("RESULT_APPEND" in eff and "RESULT_TRUNCATE" not in eff and "RESULT_DELETE" not in eff, "the callback appends to the consolidated file (mode 'a')", key_of(cb, "append mode"), cb.loc(),
            f"_append_processed_results has effects {sorted(eff)}: collected rows overwrite earlier ones", "ends up exactly once in the consolidated results")
    loops = [n for n in iter_own(cb.node) if isinstance(n, ast.For) and ctx.src(n.iter) == cb.params[-1]]
    comps = [n for n in iter_own(cb.node) if isinstance(n, (ast.ListComp, ast.GeneratorExp)) and ctx.src(n.generators[0].iter) == cb.params[-1] and not n.generators[0].ifs]
    okall = bool(comps)
    for lp in loops:
        wr = [nd for c in ast.walk(lp) if isinstance(c, ast.Call) and isinstance(c.func, ast.Attribute) and c.func.attr in ("write", "writerow", "append") for nd in ctx.nodes_of(cb, c)]
        okall = okall or (bool(wr) and not list(iteration_paths(ctx, cb, lp, avoid=wr)))
    r.check(okall, "every moved row is written, unconditionally", key_of(cb, "row loop"), cb.loc(), "_append_processed_results skips rows")
    rows_newline_terminated(ctx, r, "C08.3")


@rule(P, "C08.4", "T1", "an append to an empty (deleted) file re-creates the header", min_obligations=2)
def c08_4(ctx, r):
    fn = ctx.fn(f"{RA}._append_result", "C08.4")
    cfg = ctx.cfg(fn)
    eff = ctx.direct_effects(fn)
    r.check("RESULT_APPEND" in eff and "RESULT_TRUNCATE" not in eff, "_append_result opens in append mode", key_of(fn, "append mode"), fn.loc(), f"_append_result has effects {sorted(eff)}")
    writes = [(n, c) for n in cfg.nodes for c in cfg.calls_at(n) if isinstance(c.func, ast.Attribute) and c.func.attr == "write"]
    hdr = [(n, c) for n, c in writes if "_get_fields" in ctx.src(c)]
    if not hdr:
        r.bad(key_of(fn, "no header"), fn.loc(), "an append never writes the header: after the collector deleted the node file, the next rows have no header and the first of them is parsed as the header (a result is lost)",
              "the consolidated file always parses")
        return
    for n, c in hdr:
        forms = guard_forms(ctx, fn, n)
        import re as _re

        withs = [w for w in iter_own(fn.node) if isinstance(w, ast.With) and w.items and w.items[0].optional_vars is not None and isinstance(w.items[0].optional_vars, ast.Name)]
        fh = withs[0].items[0].optional_vars.id if withs else None
        ok = any(p and fh and f.replace(" ", "") in (f"{fh}.tell()==0", f"0=={fh}.tell()") for f, p in forms)
        other = any("getsize" in f or "exists" in f or "stat()" in f for f, p in forms)
        if not ok and other:
            raise AnalysisError("C08.4", f"header guard has an unrecognised form: {sorted(f for f, p in forms)}")
        r.check(ok, "header is written iff the file is empty (tell() == 0)", key_of(fn, "header guard"), fn.loc(c),
                f"the header is written under {sorted(('' if p else 'not ') + f for f, p in forms)}: either never (rows after a collection are lost) or on every append (rows parse as garbage)",
                "the consolidated file always parses")
    row = [(n, c) for n, c in writes if c.args and ctx.src(c.args[0]) == fn.params[-1]]
    r.check(bool(row) and all(not guard_forms(ctx, fn, n) for n, c in row), "the row itself is written unconditionally", key_of(fn, "row write"), fn.loc(), "the result row is written conditionally")


@rule(P, "C08.5", "T8", "the rows reported as newly completed are exactly the rows moved, from every node file", min_obligations=5)
def c08_5(ctx, r):
    mv = ctx.fn(f"{RA}._move_results", "C08.5")
    rets = [n for n in iter_own(mv.node) if isinstance(n, ast.Return)]
    cfg = ctx.cfg(mv)
    fcalls = [c for n in cfg.nodes for c in cfg.calls_at(n) if isinstance(c.func, ast.Name) and c.func.id in mv.params]
    ok = len(rets) == 1 and isinstance(rets[0].value, ast.Name) and fcalls and isinstance(fcalls[0].args[0], ast.Name) and fcalls[0].args[0].id == rets[0].value.id
    var = rets[0].value.id if ok else None
    if ok:
        rn = [n for n in cfg.nodes if n.kind == "stmt" and n.ast is rets[0]][0]
        ud = ctx.rd(mv).unique_def(rn, var)
        ok = ud is not None and isinstance(ud[1], ast.Call) and ctx.cg.site_of(mv, ud[1]).calls_short(ctx.ix, f"{RA}._get_results")
    r.check(ok, "_move_results returns the very list it read and appended", key_of(mv, "returned rows"), mv.loc(), "the rows returned by _move_results are not the rows read from the node file and passed to the append callback",
            "reported as newly completed to exactly one submitter round")
    # the reader hands back every row of the file (a skipped row is deleted with the node file: neither reported nor consolidated)
    gr = ctx.fn(f"{RA}._get_results", "C08.5")
    for lp in [x for x in iter_own(gr.node) if isinstance(x, ast.For)]:
        apps = [nd for c in ast.walk(lp) if isinstance(c, ast.Call) and isinstance(c.func, ast.Attribute) and c.func.attr == "append" for nd in ctx.nodes_of(gr, c)]
        if not apps:
            continue
        for end, conds, last in iteration_paths(ctx, gr, lp, avoid=apps):
            r.bad(key_of(gr, f"row skipped under {sorted(('' if p else 'not ') + f for f, p in conds)}"), gr.loc(last.stmt if last.stmt is not None else lp),
                  f"_get_results {'stops reading' if end == 'leave' else 'skips a row'} under {sorted(('' if p else 'not ') + f for f, p in conds)}: the collector appends only the rows it was given and then deletes the node "
                  "file, so the skipped result (e.g. a job killed by a signal has a negative return code) is lost for good", "No row is lost")
        r.ok("_get_results returns every row")
    pr = ctx.fn(f"{RA}._process_results", "C08.5")
    loops = [n for n in iter_own(pr.node) if isinstance(n, ast.For)]
    ok_loop = len(loops) == 1 and "_get_node_results_files()" in ctx.src(loops[0].iter) and not any(isinstance(x, (ast.If, ast.Continue, ast.Break, ast.Try)) for x in ast.walk(loops[0]))
    r.check(ok_loop, "every node file is moved, unconditionally", key_of(pr, "node file loop"), pr.loc(), "_process_results skips node files or swallows errors: rows stay uncollected or are reported without being appended")
    acc = [n for n in ast.walk(loops[0]) if isinstance(n, ast.AugAssign) and isinstance(n.op, ast.Add)] if loops else []
    okacc = len(acc) == 1 and isinstance(acc[0].value, ast.Call) and ctx.cg.site_of(pr, acc[0].value) is not None and ctx.cg.site_of(pr, acc[0].value).calls_short(ctx.ix, f"{RA}.move_results")
    rets = [n for n in iter_own(pr.node) if isinstance(n, ast.Return)]
    okret = okacc and len(rets) == 1 and ctx.src(rets[0].value) == ctx.src(acc[0].target)
    r.check(bool(okret), "the moved rows of all files are accumulated and returned", key_of(pr, "accumulate"), pr.loc(), "_process_results does not return the concatenation of the moved rows")
    if okacc:
        cb = ctx.cg.site_of(pr, acc[0].value).node.args
        r.check(len(cb) == 1 and ctx.src(cb[0]) == "self._append_processed_results", "the append callback targets the consolidated aggregator", key_of(pr, "callback"), pr.loc(), f"move_results is given `{ctx.src(cb[0]) if cb else None}`")
    gf = ctx.fn(f"{RA}._get_node_results_files", "C08.5")
    r.check('glob("results_batch_*.csv")' in ctx.src(gf.node).replace("'", '"') and "RESULTS_DIR" in ctx.src(gf.node), "node files = results/results_batch_*.csv", key_of(gf, "glob"), gf.loc(), "the set of node files changed")
    ln = ctx.fn(f"{RA}.load_node_results", "C08.5")
    r.check('results_batch_{batch_id}.csv' in ctx.src(ln.node) and "RESULTS_DIR" in ctx.src(ln.node), "runners write results/results_batch_<id>.csv (matches the collector's glob)", key_of(ln, "node file name"), ln.loc(),
            "the runner's results file name no longer matches the collector's glob: results are never collected")
    pub = ctx.fn(f"{RA}.process_results", "C08.5")
    ws = [s for s in ctx.cg.sites_in(pub) if s.via_wrapper and pr.qual in s.wrapped]
    r.check(bool(ws), "process_results holds the consolidated lock around the whole collection", key_of(pub, "wrapper"), pub.loc(), "process_results does not run _process_results under the consolidated lock")
    node_rows_go_to_node_file(ctx, r, "C08.5")
    from .c09 import returned_accumulators_persist

    returned_accumulators_persist(ctx, r, "C08.5")


@rule(P, "C08.6", "T7", "locks nest only consolidated -> node", min_obligations=2)
def c08_6(ctx, r):
    lo = ctx.locked_only()
    nests = []
    for q, locks in sorted(lo.items()):
        if "results" not in locks:
            continue
        f = ctx.ix.functions[q]
        if f.short in LOCK_WRAPPERS:
            continue
        for s in ctx.cg.sites_in(f):
            if s.how == "cha":
                continue
            if "ACQUIRE_RESULTS" in ctx.site_may(s):
                nests.append((f, s))
    for f, s in nests:
        ok = f.short == f"{RA}._process_results" and s.calls_short(ctx.ix, f"{RA}.move_results")
        if f.short == f"{RA}.move_results":
            continue  # the acquisition itself (move_results is locked-only because only _process_results calls it)
        r.check(ok, f"nested acquisition {f.short} -> {ctx.src(s.node.func)} is consolidated -> node", key_of(f, f"nested results lock via {ctx.src(s.node.func)}"), s.loc,
                f"{f.short} runs under a results lock and calls {ctx.src(s.node.func)}(), which takes a results lock: node -> consolidated (or same-file) nesting deadlocks against the collector",
                "regardless of how result writes interleave with collection")
    pr = ctx.fn(f"{RA}._process_results", "C08.6")
    okn = any(isinstance(n, ast.Assert) and ctx.src(n.test) == "not self._is_node" for f2 in (ctx.fn(f"{RA}.process_results"), ctx.fn(f"{RA}._get_node_results_files")) for n in iter_own(f2.node))
    r.check(okn, "the outer hold is the consolidated file's (asserted not a node file)", key_of(pr, "outer is consolidated"), pr.loc(), "collection is no longer asserted to run on the consolidated aggregator")
    # the receiver of move_results(...) is load_node_results_file(path) - bound to a local or written in place
    inner = [c for c in iter_own(pr.node) if isinstance(c, ast.Call) and isinstance(c.func, ast.Attribute) and c.func.attr == "move_results"
             and "load_node_results_file" in ctx.src(inlined_expr(ctx, pr, c.func.value))]
    r.check(bool(inner), "the inner hold is a node file's (load_node_results_file(path))", key_of(pr, "inner is node"), pr.loc(), "the inner aggregator is not built from a node results file")
    if not nests:
        r.bad(key_of(pr, "collection without node lock"), pr.loc(), "_process_results no longer acquires the node file's lock while moving its rows: an append racing with read-append-delete is lost", "No row is lost")


@rule(P, "C08.7", "T2", "every completion path collects before reading the final results", min_obligations=2)
def c08_7(ctx, r):
    from .c03 import collect_before_completion

    collect_before_completion(ctx, r, "C08.7")


@rule(P, "C08.8", "T8", "the results lock lies beside the file it protects, so every process on every node contends for the same lock", min_obligations=2)
def c08_8(ctx, r):
    """Writers (job runners on compute nodes) and the collector are different processes with different working directories.  They exclude each
    other only if the lock path is a function of the *complete* path of the results file: the path handed to SoftFileLock in the class's lock
    wrapper must be built from the file path in a directory-preserving way (P.parent / ..., str(P) + ".lock", ...), not from P.name alone."""
    from ..lib import inlined_expr, keeps_directory_of

    wr = ctx.fn(f"{RA}._do_action_under_lock", "C08.8")
    init = ctx.fn(f"{RA}.__init__", "C08.8")
    ctor = [c for c in iter_own(wr.node) if isinstance(c, ast.Call) and ctx.src(c.func).split(".")[-1] in ("SoftFileLock", "FileLock") and c.args]
    if len(ctor) != 1:
        raise AnalysisError("C08.8", f"{len(ctor)} file-lock constructions in {wr.short}")
    la = ctor[0].args[0]
    if not (isinstance(la, ast.Attribute) and isinstance(la.value, ast.Name) and la.value.id == wr.params[0]):
        raise AnalysisError("C08.8", f"lock path `{ctx.src(la)}` is not an attribute of the aggregator")
    r.ok(f"lock wrapper locks self.{la.attr}")
    extra = sorted(k.arg or "**" for k in ctor[0].keywords if k.arg not in ("timeout",))
    r.check(not extra and len(ctor[0].args) == 1, "the lock is built with a timeout only (it cannot expire while held)", key_of(wr, f"results lock options {extra}"), wr.loc(ctor[0]),
            f"the results lock is constructed with {extra}: with a lifetime (or a non-blocking / singleton option) a waiter may break the marker and enter while the holder is still between reading and deleting "
            "a node file - a row appended in that window is deleted with the file", "regardless of how result writes interleave with collection. No row is lost")
    fparam = init.params[1]
    stores = [n for n in iter_own(init.node) if isinstance(n, ast.Assign) and any(isinstance(t, ast.Attribute) and t.attr == la.attr and isinstance(t.value, ast.Name) and t.value.id == init.params[0] for t in n.targets)]
    others = [f.short for f in ctx.cls(RA, "C08.8").methods.values() if f is not init for n in iter_own(f.node) if isinstance(n, (ast.Assign, ast.AugAssign))
              for t in (n.targets if isinstance(n, ast.Assign) else [n.target]) if isinstance(t, ast.Attribute) and t.attr == la.attr]
    if len(stores) != 1 or others:
        raise AnalysisError("C08.8", f"self.{la.attr} is stored {len(stores)} times in __init__ and in {others}")
    fattrs = {t.attr for n in iter_own(init.node) if isinstance(n, ast.Assign) and isinstance(n.value, ast.Name) and n.value.id == fparam for t in n.targets if isinstance(t, ast.Attribute)}

    def is_path(n):
        return (isinstance(n, ast.Name) and n.id == fparam) or (isinstance(n, ast.Attribute) and isinstance(n.value, ast.Name) and n.value.id == init.params[0] and n.attr in fattrs)

    val = inlined_expr(ctx, init, stores[0].value)
    keeps, occ = keeps_directory_of(val, is_path)
    if occ == 0:
        raise AnalysisError("C08.8", f"lock path `{ctx.src(val)}` does not mention the results file `{fparam}`")
    r.check(keeps, "the lock path keeps the directory of the results file", key_of(init, "results lock location"), init.loc(stores[0]),
            f"the lock path `{ctx.src(val)}` is built from the file *name* only: it is relative to the working directory of whichever process builds it, so a job runner and the collector "
            "started from different directories (compute node vs. login node, or a recovery round run by hand) lock different files and no longer exclude each other - a row appended during "
            "read-append-delete is deleted with the node file", "regardless of how result writes interleave with collection. No row is lost")


@rule(P, "C08.9", "T3+T6", "every collected row is reported: the names handed to the round are the names of all rows moved (canceled rows included)", min_obligations=5)
def c08_9(ctx, r):
    from .c02 import c02_12

    c02_12(ctx, r)

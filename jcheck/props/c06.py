"""C06 - node and process concurrency limits are never exceeded."""

import ast

from .. import AnalysisError
from ..cfg import ALL_KINDS, NORMAL_KINDS, iter_own
from ..guards import canon
from ..lib import _single_return, attr_stores, collections_from, inlined_expr, dominated_by, guard_forms, key_of, norm, render, type_is
from ..report import describe, rule

P = "C06"
NOTFULL = "len(<JobQueue._outstanding_jobs>) < <JobQueue._queue_depth>"

describe(
    P,
    "Decides the counting discipline of the one queue class used at both levels: is_full is exactly `len(outstanding) >= "
    "depth`; submit() starts an entry only on the not-full branch; the poll loop computes its budget after completions were "
    "processed, returns when it is zero, and breaks as soon as the number started reaches the budget (`>` instead of `>=` is "
    "reported as off-by-one); an entry becomes outstanding only when its run() returned GOOD and leaves only after "
    "is_complete() was observed; the HPC-level depth is max-nodes of the configuration and the round starts from the "
    "persisted active ids and persists the outstanding ids again; the node-level depth is min(#jobs, processes-per-node or "
    "CPU count); every group-wide value read from the first group only is checked to be identical in all groups.",
    ["the scheduler's answer to the status query is current (staleness of a cached squeue answer is not modelled)"],
    "counts 'at every instant' on a real scheduler; a negative budget (outstanding > depth after max-nodes was lowered) is noted, not decided.",
)


@rule(P, "C06.1", "T13", "is_full() is exactly len(outstanding) >= depth", min_obligations=1)
def c06_1(ctx, r):
    fn = ctx.fn("JobQueue.is_full", "C06.1")
    rx = _single_return(fn)
    if rx is None:
        raise AnalysisError("C06.1", "is_full is not a single return expression")
    form, pol = norm(ctx, fn, rx)
    ok = form == NOTFULL and pol is False
    off = form == "<JobQueue._queue_depth> < len(<JobQueue._outstanding_jobs>)" and pol is True
    r.check(ok, "is_full == not (len(outstanding) < depth)", key_of(fn, f"is_full = {'' if pol else 'not '}{form}"), fn.loc(),
            f"is_full() is `{ctx.src(rx)}`" + (" - off by one: the queue accepts depth+1 entries" if off else " instead of len(self._outstanding_jobs) >= self._queue_depth"),
            "the number of this submission's batches queued or running on the HPC is at most max-nodes", form=form)
    # depth is stored once from the constructor argument
    for f2, node, attr, t, kind in attr_stores(ctx, {"_queue_depth"}):
        if f2.cls is not None and f2.cls.name == "JobQueue":
            st = ctx.stmt_of(f2, node)
            r.check(f2.name == "__init__" and isinstance(st, ast.Assign) and ctx.src(st.value) == "max_queue_depth", "depth = constructor argument, never changed", key_of(f2, "writes _queue_depth"), f2.loc(node),
                    f"{f2.short} writes JobQueue._queue_depth ({ctx.src(st)[:50]})")


@rule(P, "C06.2", "T1", "submit() starts an entry only while the queue is not full", min_obligations=1)
def c06_2(ctx, r):
    fn = ctx.fn("JobQueue.submit", "C06.2")
    for s in ctx.some_sites(fn, "C06.2", short="JobQueue._run_job"):
        for n in ctx.nodes_of(fn, s.node):
            forms = guard_forms(ctx, fn, n)
            r.check((NOTFULL, True) in forms, "_run_job only on the not-full branch", key_of(fn, "_run_job when full"), s.loc,
                    "JobQueue.submit can start an entry while the queue is full: more than max-nodes batches / processes-per-node processes run at once",
                    "at most max-nodes ... at most the configured processes-per-node", guards=sorted(("" if p else "not ") + f for f, p in forms))


@rule(P, "C06.3", "T14", "the poll loop starts at most (depth - outstanding) entries", min_obligations=5)
def c06_3(ctx, r):
    fn = ctx.fn("JobQueue.process_queue", "C06.3")
    cfg = ctx.cfg(fn)
    runs = [(s, n) for s in ctx.some_sites(fn, "C06.3", short="JobQueue._run_job") for n in ctx.nodes_of(fn, s.node)]
    chk = [n for s in ctx.sites(fn, short="JobQueue._check_completions") for n in ctx.nodes_of(fn, s.node)]
    if not chk:
        r.bad(key_of(fn, "no completion processing"), fn.loc(), "process_queue does not process completions before starting entries")
        return
    # budget definition
    budget = None
    for n in cfg.nodes:
        if n.kind == "stmt" and isinstance(n.ast, ast.Assign) and isinstance(n.ast.targets[0], ast.Name) and isinstance(n.ast.value, ast.BinOp) and isinstance(n.ast.value.op, ast.Sub):
            if render(ctx, fn, n.ast.value) == "(<JobQueue._queue_depth> - len(<JobQueue._outstanding_jobs>))":
                budget = (n.ast.targets[0].id, n)
    if budget is None:
        raise AnalysisError("C06.3", "budget `depth - len(outstanding)` not found in process_queue")
    bvar, bnode = budget
    r.check(dominated_by(ctx, fn, bnode, chk), "the budget is computed after completions were processed", key_of(fn, "budget before completions"), fn.loc(bnode.ast),
            "the budget is computed before _check_completions: finished entries still count (harmless) - or, if completions are processed afterwards, canceled entries are added after the budget was fixed")
    for s, n in runs:
        defs = ctx.rd(fn).reaching(n, bvar)
        r.check(defs == {bnode.id}, "the budget is not modified inside the loop", key_of(fn, "budget rebound"), s.loc, f"`{bvar}` is rebound before _run_job")
        forms = guard_forms(ctx, fn, n, ALL_KINDS, kill=False)  # snapshot semantics: the budget as computed
        zero = any((not p) and f in (f"{bvar} == 0",) for f, p in forms) or any(p and f in (f"0 < {bvar}",) for f, p in forms)
        r.check(zero, "no entry is started with a zero budget (early return)", key_of(fn, "zero budget"), s.loc,
                "with a full queue the loop still starts one entry (the break test comes after the start)", "at most max-nodes", guards=sorted(("" if p else "not ") + f for f, p in forms))
        # counter: list appended once after each start; break when len(list) >= budget
        brk = None
        for b in [x for x in cfg.nodes if x.kind == "stmt" and isinstance(x.ast, ast.Break)]:
            for key, pol, e in ctx.guards(fn).at(b):
                if bvar in key and ("len(" in key):
                    brk = (b, key, pol)
        if brk is None:
            r.bad(key_of(fn, "no budget break"), s.loc, "the start loop has no `break` on reaching the budget: every unblocked queued entry is started regardless of the limit", "at most max-nodes")
            continue
        b, key, pol = brk
        cnt = key.split("len(")[1].split(")")[0]
        good = key == f"len({cnt}) < {bvar}" and pol is False  # len >= budget
        off1 = key == f"{bvar} < len({cnt})" and pol is True  # len > budget
        r.check(good, "break as soon as the number started reaches the budget (>=)", key_of(fn, f"budget break {'' if pol else 'not '}{key}"), fn.loc(b.ast),
                (f"the loop breaks on `len({cnt}) > {bvar}`: one entry more than the budget is started (off by one)" if off1 else f"unrecognised budget test `{'' if pol else 'not '}{key}`"),
                "at most max-nodes ... at most the configured processes-per-node")
        if not good and not off1:
            raise AnalysisError("C06.3", f"budget break has an unrecognised form: {'' if pol else 'not '}{key}")
        # the counter list gets exactly one element per start, and the break test lies between consecutive starts
        from .c01 import _must_pass

        apps = [x for x in cfg.nodes for c in cfg.calls_at(x) if isinstance(c.func, ast.Attribute) and c.func.attr == "append" and ctx.src(c.func.value) == cnt]
        tests = [x for x in cfg.nodes if x.kind == "test" and bvar in ctx.src(x.ast) and cnt in ctx.src(x.ast)]
        r.check(len(apps) == 1 and _must_pass(ctx, fn, n, apps) and _must_pass(ctx, fn, n, tests), "one count per start, and the budget test follows every start", key_of(fn, "count per start"), s.loc,
                "a start is not counted (or the budget test is skipped) on some path: more entries than the budget are started")


@rule(P, "C06.4", "T1", "an entry is outstanding only after run() returned GOOD and until is_complete() was observed", min_obligations=4)
def c06_4(ctx, r):
    rj = ctx.fn("JobQueue._run_job", "C06.4")
    cfg = ctx.cfg(rj)
    ins = [n for n in cfg.nodes if n.kind == "stmt" and isinstance(n.ast, ast.Assign) and ctx.src(n.ast.targets[0]).startswith("self._outstanding_jobs[")]
    if not ins:
        r.bad(key_of(rj, "never outstanding"), rj.loc(), "_run_job never records the entry as outstanding: is_full() never becomes true and completions are never seen", "at most max-nodes")
    for n in ins:
        forms = guard_forms(ctx, rj, n)
        ok = any(p and f.replace(" ", "") == "call:AsyncJobInterface.run()@job==Status.GOOD" for f, p in forms)
        r.check(ok, "outstanding only if run() == Status.GOOD", key_of(rj, "outstanding guard"), rj.loc(n.ast),
                "an entry whose run() failed is counted as outstanding (a failed sbatch occupies a node slot for ever and the submission never completes) or the result of run() is ignored",
                guards=sorted(("" if p else "not ") + f for f, p in forms))
        r.check(ctx.src(n.ast.value) == "job" and ctx.src(n.ast.targets[0]) == "self._outstanding_jobs[job.name]", "stored under its own name", key_of(rj, "outstanding key"), rj.loc(n.ast), f"`{ctx.src(n.ast)}`")
    runs = [c for n in cfg.nodes for c in cfg.calls_at(n) if isinstance(c.func, ast.Attribute) and c.func.attr == "run"]
    r.check(len(runs) == 1 and not any(cfg.in_loop(n) for n in cfg.nodes_of(runs[0])), "_run_job calls run() exactly once", key_of(rj, "run once"), rj.loc(), f"_run_job calls run() {len(runs)} times / in a loop")
    cc = ctx.fn("JobQueue._check_completions", "C06.4")
    cfgc = ctx.cfg(cc)
    pops = [(n, c) for n in cfgc.nodes for c in cfgc.calls_at(n) if isinstance(c.func, ast.Attribute) and c.func.attr in ("pop", "remove", "clear", "popitem") and ctx.src(c.func.value) == "self._outstanding_jobs"]
    dels = [n for n in cfgc.nodes if n.kind == "stmt" and isinstance(n.ast, ast.Delete) and "_outstanding_jobs" in ctx.src(n.ast)]
    if not pops and not dels:
        r.bad(key_of(cc, "never leaves"), cc.loc(), "completed entries are never removed from _outstanding_jobs: the queue stays full for ever")
    for n, c in pops:
        a = c.args[0] if c.args else None
        loops = ctx.enclosing(cc, c, (ast.For,))
        ok = c.func.attr == "pop" and isinstance(a, ast.Name) and loops and isinstance(loops[0].target, ast.Name) and loops[0].target.id == a.id and isinstance(loops[0].iter, ast.Name)
        lst = loops[0].iter.id if ok else None
        r.check(ok, "only names of the completed list leave the outstanding set", key_of(cc, "outstanding removal"), cc.loc(c), f"`{ctx.src(c)}` removes entries that were not observed complete")
        if ok:
            adds = [(n2, c2) for n2 in cfgc.nodes for c2 in cfgc.calls_at(n2) if isinstance(c2.func, ast.Attribute) and c2.func.attr == "append" and ctx.src(c2.func.value) == lst]
            for n2, c2 in adds:
                forms = guard_forms(ctx, cc, n2)
                r.check(any(p and f.startswith("call:AsyncJobInterface.is_complete()@") for f, p in forms), f"{lst} holds only entries whose is_complete() was True", key_of(cc, f"{lst} guard"), cc.loc(c2),
                        "an entry is treated as complete without is_complete(): its slot is reused while it still runs", "at every instant")
    for f2, node, attr, t, kind in attr_stores(ctx, {"_outstanding_jobs"}):
        if f2.cls is not None and f2.cls.name == "JobQueue":
            r.check(f2.name in ("__init__", "_run_job", "_check_completions"), f"_outstanding_jobs written ({kind}) in {f2.short}", key_of(f2, f"{kind} _outstanding_jobs"), f2.loc(node),
                    f"{f2.short} changes the outstanding set")


@rule(P, "C06.5", "T8", "HPC level: depth = max-nodes; the round starts from the persisted active ids and persists the outstanding ids", min_obligations=6)
def c06_5(ctx, r):
    run = ctx.fn("HpcSubmitter.run", "C06.5")
    init = ctx.fn("HpcSubmitter.__init__", "C06.5")
    jq = ctx.cls("JobQueue")
    qinit = jq.methods["__init__"]
    qs = [s for s in ctx.cg.sites_in(run) if s.constructs == jq.qual]
    if len(qs) != 1:
        raise AnalysisError("C06.5", f"expected one JobQueue construction in HpcSubmitter.run, found {len(qs)}")
    s = qs[0]
    depth = ctx.arg_for(s, qinit, "max_queue_depth")
    r.check(depth is not None and ctx.src(depth) == "self._max_nodes", "queue depth = self._max_nodes", key_of(run, "queue depth"), s.loc, f"the HPC-level queue depth is `{ctx.src(depth) if depth is not None else None}`", "at most max-nodes")
    # _max_nodes <- first group's submitter_params.max_nodes, sys.maxsize when None
    stores = [(node, ctx.stmt_of(init, node)) for f2, node, attr, t, kind in attr_stores(ctx, {"_max_nodes"}) if f2 is init]
    vals = [render(ctx, init, st.value) for _, st in stores if isinstance(st, ast.Assign)]
    r.check(any(v == "<SubmitterParams.max_nodes>" for v in vals), "_max_nodes = submitter_params.max_nodes", key_of(init, "_max_nodes source"), init.loc(), f"_max_nodes is set from {vals}", "at most max-nodes")
    other = [v for v in vals if v != "<SubmitterParams.max_nodes>"]
    for (node, st), v in zip(stores, vals):
        if v != "<SubmitterParams.max_nodes>":
            forms = {f for n in ctx.nodes_of(init, st) for f, p in guard_forms(ctx, init, n) if p}
            r.check(v in ("sys.maxsize",) and "<HpcSubmitter._max_nodes> is None" in forms, "unbounded only when max_nodes is None", key_of(init, f"_max_nodes = {v}"), init.loc(node),
                    f"_max_nodes is overridden with {v} under {sorted(forms)}")
    # ... of a group taken from the cluster's persisted groups (resubmit-jobs -s replaces those, not config.json)
    for node, st in stores:
        if isinstance(st, ast.Assign) and render(ctx, init, st.value) == "<SubmitterParams.max_nodes>":
            e = st.value
            while isinstance(e, ast.Attribute):
                e = e.value
            src = None
            if isinstance(e, ast.Name):
                for n in ctx.nodes_of(init, st):
                    ud = ctx.rd(init).unique_def(n, e.id)
                    src = render(ctx, init, ud[1]) if ud and isinstance(ud[1], ast.AST) else None
            else:
                src = render(ctx, init, e)
            r.check(src is not None and "<HpcSubmitter._submission_groups>" in src, "max_nodes is read from the cluster's persisted submission groups", key_of(init, "max_nodes group source"), init.loc(node),
                    f"the group whose max_nodes bounds the queue is `{src}`, not one of self._submission_groups (built from cluster.config.submission_groups): after `resubmit-jobs -s` lowered max_nodes "
                    "the submitter still uses the value stored in config.json and exceeds the limit", "at most max-nodes")
    sg = [ctx.stmt_of(init, node) for f2, node, attr, t, kind in attr_stores(ctx, {"_submission_groups"}) if f2 is init]
    oksg = len(sg) == 1 and isinstance(sg[0], ast.Assign) and isinstance(sg[0].value, ast.Call) and ctx.src(sg[0].value.func).endswith("make_submission_group_lookup") and render(ctx, init, inlined_expr(ctx, init, sg[0].value.args[0])) == "<ClusterConfig.submission_groups>"
    r.check(oksg, "_submission_groups = lookup over ClusterConfig.submission_groups", key_of(init, "_submission_groups source"), init.loc(), f"_submission_groups is built from {[ctx.src(x.value) for x in sg if isinstance(x, ast.Assign)]}")
    for f2, node, attr, t, kind in attr_stores(ctx, {"_max_nodes"}):
        r.check(f2 is init, f"_max_nodes written in {f2.short}", key_of(f2, "writes _max_nodes"), f2.loc(node), f"{f2.short} changes HpcSubmitter._max_nodes")
    # existing jobs <- cluster.iter_hpc_job_ids()
    ex = ctx.arg_for(s, qinit, "existing_jobs")
    ok = False
    if ex is not None:
        # either form of the collection: [create_from_id(..., v) for v in iter_hpc_job_ids()] or the loop with append - bound to a local or written in the call
        for c in collections_from(ctx, run, lambda e: "Cluster.iter_hpc_job_ids" in render(ctx, run, e)):
            here = (isinstance(ex, ast.Name) and c["into"] == ex.id) or (c["form"] == "comprehension" and (ex is c["at"] or (isinstance(ex, ast.Call) and ctx.src(ex.func) in ("list", "tuple") and len(ex.args) == 1 and ex.args[0] is c["at"])))
            if here and not c["conds"] and "create_from_id" in c["elt"] and c["elt"].replace(" ", "").endswith(",_)"):
                ok = True
    r.check(ok, "the round's queue starts with every persisted active id", key_of(run, "existing jobs"), s.loc,
            "the queue is not pre-filled with all persisted hpc_job_ids: batches still running are not counted and more than max-nodes are submitted", "each round re-derives the number of active batches")
    # each carried-over batch is its own queue entry: JobQueue keys existing entries by .name, so the stand-in object built
    # from a persisted id must be named by that id (a shared name collapses all active batches into one slot)
    cfi = ctx.fn("AsyncHpcSubmitter.create_from_id", "C06.5")
    ainit = ctx.fn("AsyncHpcSubmitter.__init__", "C06.5")
    cs = [x for x in ctx.cg.sites_in(cfi) if (x.constructs or "").endswith("AsyncHpcSubmitter") or (isinstance(x.node.func, ast.Name) and x.node.func.id == "cls")]
    if len(cs) != 1:
        raise AnalysisError("C06.5", f"create_from_id: expected one constructor call, found {len(cs)}")
    nm, jid = ctx.arg_for(cs[0], ainit, "name"), ctx.arg_for(cs[0], ainit, "job_id")
    idp = [p for p in cfi.params if p not in ("cls", "self")][-1]
    r.check(nm is not None and ctx.src(nm) == idp and jid is not None and ctx.src(jid) == idp, "a carried-over batch is named and identified by its persisted id", key_of(cfi, "stand-in name / id"), cs[0].loc,
            f"create_from_id builds the stand-in with name={ctx.src(nm) if nm is not None else None}, job_id={ctx.src(jid) if jid is not None else None}: JobQueue keys existing entries by name, so several active batches "
            "collapse into one entry - the others stop counting against max-nodes and drop out of the persisted active list (completion can then be forced while they run)",
            "each round re-derives the number of active batches / at most max-nodes")
    okq0 = any(isinstance(n, ast.For) and ctx.src(n.iter) == "existing_jobs" and any(isinstance(x, ast.Assign) and ctx.src(x.targets[0]) == f"self._outstanding_jobs[{ctx.src(n.target)}.name]" and ctx.src(x.value) == ctx.src(n.target) for x in n.body) for n in iter_own(qinit.node))
    r.check(okq0, "existing entries are keyed by their own name", key_of(qinit, "existing jobs key"), qinit.loc(), "JobQueue.__init__ does not store each existing entry under its own name")
    # JobQueue.__init__ puts existing jobs into _outstanding_jobs
    okq = any(isinstance(n, ast.For) and ctx.src(n.iter) == "existing_jobs" and any(isinstance(x, ast.Assign) and ctx.src(x.targets[0]).startswith("self._outstanding_jobs[") for x in n.body) for n in iter_own(qinit.node))
    r.check(okq, "existing jobs are counted as outstanding", key_of(qinit, "existing jobs outstanding"), qinit.loc(), "JobQueue.__init__ does not store existing_jobs as outstanding")
    # completions are processed before the first hand-off of the round
    pq = [n for s2 in ctx.sites(run, short="JobQueue.process_queue") for n in ctx.nodes_of(run, s2.node)]
    sbs = [n for s2 in ctx.sites(run, short="HpcSubmitter._submit_batches") for n in ctx.nodes_of(run, s2.node)]
    r.check(bool(pq) and all(dominated_by(ctx, run, n, pq) for n in sbs), "statuses are polled before new batches are submitted", key_of(run, "poll before submit"), run.loc(),
            "new batches are submitted before finished ones were taken out of the outstanding set (fewer nodes used) or without polling at all")
    # persisted ids <- queue.outstanding_jobs
    us = ctx.fn("HpcSubmitter._update_status", "C06.5")
    for s2 in ctx.some_sites(run, "C06.5", short="HpcSubmitter._update_status"):
        a = ctx.arg_for(s2, us, "hpc_job_ids")
        okp = False
        if a is not None:
            for n in ctx.nodes_of(run, s2.node):
                ud = ctx.rd(run).unique_def(n, a.id) if isinstance(a, ast.Name) else (n, a)
                if ud and isinstance(ud[1], ast.AST):
                    txt = ctx.src(ud[1]).replace(" ", "")
                    qv = None
                    qst = ctx.stmt_of(run, s.node)
                    if isinstance(qst, ast.Assign) and isinstance(qst.targets[0], ast.Name):
                        qv = qst.targets[0].id
                    okp = qv is not None and f"{qv}.outstanding_jobs" in txt and ".job_id" in txt and "if" not in txt
        r.check(okp, "persisted hpc_job_ids = ids of all outstanding entries after the round", key_of(run, "persist outstanding ids"), s2.loc,
                "the ids persisted for the next round are not exactly the queue's outstanding entries: active batches are forgotten (limit exceeded next round) or finished ones kept", "hpc_job_ids carried between rounds")
    ujs = ctx.fn("Cluster.update_job_status", "C06.5")
    iujs = ctx.fn("Cluster._update_job_status", "C06.5")
    for s2 in ctx.some_sites(us, "C06.5", short="Cluster.update_job_status"):
        a = ctx.arg_for(s2, ujs, "hpc_job_ids")
        r.check(isinstance(a, ast.Name) and a.id == "hpc_job_ids", "_update_status forwards hpc_job_ids", key_of(us, "forward ids"), s2.loc, f"update_job_status receives {ctx.src(a) if a is not None else None} as hpc_job_ids")
    st = [n for n in ctx.cfg(iujs).nodes if n.kind == "stmt" and isinstance(n.ast, ast.Assign) and ctx.src(n.ast.targets[0]).endswith("_job_status.hpc_job_ids") and ctx.src(n.ast.value) == "hpc_job_ids"]
    r.check(bool(st) and all(not guard_forms(ctx, iujs, n) for n in st), "JobStatus.hpc_job_ids is stored unconditionally", key_of(iujs, "store ids"), iujs.loc(), "hpc_job_ids is not stored unconditionally in _update_job_status")
    op = ctx.fn("JobQueue.outstanding_jobs", "C06.5")
    rx = _single_return(op)
    r.check(rx is not None and ctx.src(rx) == "self._outstanding_jobs.values()", "outstanding_jobs = all outstanding entries", key_of(op, "outstanding_jobs"), op.loc(), "JobQueue.outstanding_jobs changed")


@rule(P, "C06.6", "T8", "node level: depth = min(#jobs, processes-per-node or CPU count)", min_obligations=4)
def c06_6(ctx, r):
    fn = ctx.fn("JobRunner._run_jobs", "C06.6")
    rjq = ctx.fn("JobQueue.run_jobs", "C06.6")
    for s in ctx.some_sites(fn, "C06.6", short="JobQueue.run_jobs"):
        a = ctx.arg_for(s, rjq, "max_queue_depth")
        ok = False
        detail = ctx.src(a) if a is not None else None
        if isinstance(a, ast.Name):
            for n in ctx.nodes_of(fn, s.node):
                ud = ctx.rd(fn).unique_def(n, a.id)
                if ud and isinstance(ud[1], ast.Call) and ctx.src(ud[1].func) == "min" and len(ud[1].args) == 2:
                    detail = ctx.src(ud[1])
                    names = [x.id for x in ud[1].args if isinstance(x, ast.Name)]
                    # role: one operand is the number of jobs (bound to len(<jobs parameter>)), the other the worker limit
                    def _is_len_jobs(v):
                        u2 = ctx.rd(fn).unique_def(ud[0], v)
                        return u2 is not None and isinstance(u2[1], ast.Call) and ctx.src(u2[1].func) == "len" and u2[1].args and ctx.src(u2[1].args[0]) in fn.params
                    wv = [v for v in names if not _is_len_jobs(v)]
                    if len(names) == 2 and len(wv) == 1:
                        defs = ctx.rd(fn).reaching(ud[0], wv[0])
                        vals = sorted(ctx.src(ctx.rd(fn).defs_at[d].get(wv[0])) for d in defs if isinstance(ctx.rd(fn).defs_at[d].get(wv[0]), ast.AST))
                        detail += f" with {wv[0]} in {vals}"
                        ok = vals == ["num_parallel_processes_per_node", "self._intf.get_num_cpus()"]
        r.check(ok, "worker count = min(#jobs, processes-per-node | CPU count)", key_of(fn, "worker count"), s.loc,
                f"the node-level queue depth is `{detail}`", "at most the configured processes-per-node (or the node's CPU count when unset)", detail=detail)
    # the None test selects the CPU count
    cfg = ctx.cfg(fn)
    for n in cfg.nodes:
        if n.kind == "stmt" and isinstance(n.ast, ast.Assign) and ctx.src(n.ast.value) == "self._intf.get_num_cpus()":
            forms = guard_forms(ctx, fn, n)
            r.check(("num_parallel_processes_per_node is None", True) in forms, "CPU count only when the option is unset", key_of(fn, "cpu default"), fn.loc(n.ast), "the CPU count overrides a configured processes-per-node")
    # run_jobs: the queue built from that depth runs the jobs
    q = [s for s in ctx.cg.sites_in(rjq) if isinstance(s.node.func, ast.Name) and s.node.func.id == "cls"]
    okq = bool(q) and q[0].node.args and ctx.src(q[0].node.args[0]) == "max_queue_depth"
    r.check(okq, "JobQueue.run_jobs builds its queue with that depth", key_of(rjq, "depth forwarded"), rjq.loc(), "JobQueue.run_jobs does not pass max_queue_depth to the queue")
    # CLI option reaches _run_jobs
    cli = ctx.fn("run_jobs.run_jobs", "C06.6")
    jr = ctx.fn("JobRunner.run_jobs", "C06.6")
    for s in ctx.some_sites(cli, "C06.6", short="JobRunner.run_jobs"):
        a = ctx.arg_for(s, jr, "num_parallel_processes_per_node")
        r.check(isinstance(a, ast.Name) and a.id == "num_parallel_processes_per_node", "the CLI option is forwarded to JobRunner.run_jobs", key_of(cli, "forward option"), s.loc, f"run-jobs passes {ctx.src(a) if a is not None else None}")
    for s in ctx.some_sites(jr, "C06.6", short="JobRunner._run_jobs"):
        a = ctx.arg_for(s, fn, "num_parallel_processes_per_node")
        r.check(isinstance(a, ast.Name) and a.id == "num_parallel_processes_per_node", "JobRunner.run_jobs forwards it to _run_jobs", key_of(jr, "forward option"), s.loc, f"run_jobs passes {ctx.src(a) if a is not None else None}")
    # HPC mode: the batch's run script carries the group's limit whenever it is set (and whatever else is set)
    crs = ctx.fn("HpcSubmitter._create_run_script", "C06.6")
    cfg2 = ctx.cfg(crs)
    opt_nodes = [n for n in cfg2.nodes if n.kind == "stmt" and isinstance(n.ast, (ast.AugAssign, ast.Assign)) and any(isinstance(x, ast.Constant) and isinstance(x.value, str) and "--num-parallel-processes-per-node=" in x.value for x in ast.walk(n.ast))]
    if len(opt_nodes) != 1:
        r.bad(key_of(crs, "process limit option"), crs.loc(), f"the run script appends --num-parallel-processes-per-node= in {len(opt_nodes)} statements: the group's limit does not reach `jade-internal run-jobs` on the node (it falls back to the CPU count)",
              "at most the configured processes-per-node")
    for n in opt_nodes:
        vals = [render(ctx, crs, x.value) for x in ast.walk(n.ast) if isinstance(x, ast.FormattedValue)]
        r.check("<SubmitterParams.num_parallel_processes_per_node>" in vals, "the option value is the group's processes-per-node", key_of(crs, "process limit value"), crs.loc(n.ast), f"the option value is {vals}")
        forms = guard_forms(ctx, crs, n)
        extra = sorted(("" if p else "not ") + f for f, p in forms if "num_parallel_processes_per_node" not in f)
        okn = any((not p) and "num_parallel_processes_per_node" in f and "is None" in f for f, p in forms)
        r.check(okn and not extra, "the option is emitted iff the group sets the limit", key_of(crs, f"process limit option also depends on {extra}"), crs.loc(n.ast),
                f"--num-parallel-processes-per-node is written under {sorted(('' if p else 'not ') + f for f, p in forms)}: for some settings of the other options the configured limit never reaches the node, "
                "which then runs as many processes as it has CPUs", "at most the configured processes-per-node (or the node's CPU count when unset)")
    # local mode: submit_jobs passes the group's value
    sj = ctx.fn("JobSubmitter.submit_jobs", "C06.6")
    for s in ctx.some_sites(sj, "C06.6", short="JobRunner.run_jobs"):
        a = ctx.arg_for(s, jr, "num_parallel_processes_per_node")
        ok = False
        if isinstance(a, ast.Name):
            for n in ctx.nodes_of(sj, s.node):
                ud = ctx.rd(sj).unique_def(n, a.id)
                ok = ud is not None and isinstance(ud[1], ast.AST) and render(ctx, sj, ud[1]) == "<SubmitterParams.num_parallel_processes_per_node>"
        elif a is not None:
            ok = render(ctx, sj, a) == "<SubmitterParams.num_parallel_processes_per_node>"
        r.check(ok, "local mode passes the group's processes-per-node", key_of(sj, "local option"), s.loc, "local mode ignores num_parallel_processes_per_node")


@rule(P, "C06.7", "T9", "every value read from the first group only is required to be identical in all groups", min_obligations=2)
def c06_7(ctx, r):
    init = ctx.fn("HpcSubmitter.__init__", "C06.7")
    reads = set()
    for n in iter_own(init.node):
        if isinstance(n, ast.Attribute) and isinstance(n.ctx, ast.Load):
            t = ctx.ty.expr_type(init, n.value)
            if type_is(ctx, t, "SubmitterParams"):
                # receiver chain must come from the single `group` local (first group)
                reads.add(n.attr)
    chk = ctx.fn("JobConfiguration.check_submission_groups", "C06.7")
    must = None
    mname = None
    for lp in [x for x in iter_own(chk.node) if isinstance(x, ast.For) and isinstance(x.iter, ast.Name)]:
        pv = ctx.src(lp.target)
        if any(isinstance(y, ast.Raise) for y in ast.walk(lp)) and sum(1 for y in ast.walk(lp) if isinstance(y, ast.Call) and ctx.src(y.func) == "getattr" and len(y.args) >= 2 and ctx.src(y.args[1]) == pv) >= 2:
            mname = lp.iter.id
    for n in iter_own(chk.node):
        if isinstance(n, ast.Assign) and isinstance(n.targets[0], ast.Name) and mname and n.targets[0].id == mname and isinstance(n.value, (ast.Tuple, ast.List)):
            must = {e.value for e in n.value.elts if isinstance(e, ast.Constant)}
    if must is None:
        raise AnalysisError("C06.7", "must_be_same tuple not found in check_submission_groups")
    if not reads:
        raise AnalysisError("C06.7", "HpcSubmitter.__init__ reads nothing from SubmitterParams")
    for a in sorted(reads):
        r.check(a in must, f"first-group value `{a}` is in must_be_same", key_of(init, f"first-group read {a}"), init.loc(),
                f"HpcSubmitter takes `{a}` from the first submission group for all groups, but check_submission_groups does not require it to be identical: another group's limit is silently ignored",
                "at most max-nodes", must_be_same=sorted(must))
    # the comparison raises
    loops = [n for n in iter_own(chk.node) if isinstance(n, ast.For) and isinstance(n.iter, ast.Name) and n.iter.id == mname]
    ok = bool(loops) and any(isinstance(x, ast.Raise) for x in ast.walk(loops[0]))
    r.check(ok, "a differing must_be_same value raises InvalidConfiguration", key_of(chk, "must_be_same raises"), chk.loc(), "the must_be_same comparison no longer raises")


@rule(P, "C06.8", "T9+T1", "a batch leaves the active set only when the scheduler reports it finished or absent", min_obligations=6)
def c06_8(ctx, r):
    from .c18 import c18_3

    c18_3(ctx, r)
    own_id_removed_only_without_scheduler(ctx, r, "C06.8")


def own_id_removed_only_without_scheduler(ctx, r, rid):
    """Besides the submitter round (which polls first), the only writer of the persisted active list is a finishing
    node removing its own id.  While that node's HPC job is still running this is right only when there is no
    scheduler counting it (HpcType.LOCAL); on a real scheduler the batch stays active until squeue says otherwise."""
    n = 0
    for f in ctx.ix.functions.values():
        for s in ctx.cg.sites_in(f):
            if not s.calls_short(ctx.ix, "JobRunner._complete_hpc_job"):
                continue
            n += 1
            for node in ctx.nodes_of(f, s.node):
                forms = guard_forms(ctx, f, node, ALL_KINDS, kill=False)
                ok = any(p and f2.replace(" ", "") in ("<JobRunner._intf_type>==HpcType.LOCAL", "HpcType.LOCAL==<JobRunner._intf_type>") for f2, p in forms)
                r.check(ok, f"{f.short}: the node removes its own id only under HpcType.LOCAL", key_of(f, "own id removed while the scheduler still runs the batch"), s.loc,
                        f"`{ctx.src(s.node)}` is reachable without `self._intf_type == HpcType.LOCAL`: a SLURM node deletes its own id from hpc_job_ids while its allocation is still active, so the try-submit-jobs it runs next "
                        "counts one batch too few and submits max-nodes + 1", "the number of this submission's batches queued or running on the HPC is at most max-nodes",
                        guards=sorted(("" if p else "not ") + f2 for f2, p in forms))
    if n < 1:
        raise AnalysisError(rid, "no call of JobRunner._complete_hpc_job found")


@rule(P, "C06.9", "T1", "the persisted active-batch list is rewritten whenever it changed (the next round starts from it)", min_obligations=1)
def c06_9(ctx, r):
    from .c05 import ids_persisted_when_changed

    ids_persisted_when_changed(ctx, r, "C06.9")


@rule(P, "C06.10", "T13", "a batch the scheduler accepted is counted as active: submit() fails only for sbatch failure or an answer without a job id", min_obligations=3)
def c06_10(ctx, r):
    from .c18 import submit_returns

    submit_returns(ctx, r, "C06.10")


@rule(P, "C06.11", "T9", "an active batch id is a string from sbatch to job_status.json and back to the squeue lookup", min_obligations=3)
def c06_11(ctx, r):
    """Carried batches are counted against max-nodes only if the id persisted by one round finds its row in the next round's status table.
    The table is keyed by the strings squeue prints; the id comes from sbatch's output as a string; in between it lives in job_status.json,
    where the model's element type decides what a numeric id is coerced to on load.  Types along that chain, from the source:
      JobStatus.hpc_job_ids : list of str (exactly - a Union admitting int coerces "4001" to 4001 and the lookup then misses);
      the status table key  : a piece of the output text (split / regex group), not converted;
      the submitted id      : a piece of sbatch's output text, not converted."""
    js = ctx.cls("JobStatus", "C06.11")
    t = ctx.ty.attr_type(js, "hpc_job_ids")
    r.check(t == ("list", ("ext", "str")), "JobStatus.hpc_job_ids is a list of str", key_of_cls(js, f"hpc_job_ids element type {t[1] if t and len(t) > 1 else t}"), f"{js.module.relpath}:{js.node.lineno}",
            f"JobStatus.hpc_job_ids is declared as {ctx.src(js.ann_fields['hpc_job_ids']) if 'hpc_job_ids' in js.ann_fields else t}: ids read back from job_status.json are no longer (only) strings, so a carried batch's id misses the "
            "squeue status table (keyed by the printed strings), the batch counts as gone and the round submits max-nodes more", "the number of this submission's batches queued or running on the HPC is at most max-nodes")
    base = ctx.cls("HpcManagerInterface", "C06.11")
    n = 0
    for sub in ctx.ix.subclasses(base):
        if sub.name != "SlurmManager" and sub.name != "PbsManager":
            continue
        for m in sub.methods.values():
            # the table: subscript stores keyed by a local in a function that splits the command output
            for st in iter_own(m.node):
                if isinstance(st, ast.Assign) and len(st.targets) == 1 and isinstance(st.targets[0], ast.Subscript) and isinstance(st.targets[0].value, ast.Name) and "status" in st.targets[0].value.id.lower():
                    key = st.targets[0].slice
                    nodes = ctx.nodes_of(m, st)
                    if not nodes:
                        continue
                    txt = inlined_expr(ctx, m, key)
                    conv = [c for c in ast.walk(txt) if isinstance(c, ast.Call) and isinstance(c.func, ast.Name) and c.func.id in ("int", "float")]
                    n += 1
                    r.check(not conv, f"{sub.name}.{m.name}: the status table key is the printed text", key_of(m, "status table key converted"), m.loc(st),
                            f"`{ctx.src(st)}`: the key `{ctx.src(txt)}` is converted to a number while the persisted ids are strings - every lookup misses", "at most max-nodes")
    if n < 1:
        raise AnalysisError("C06.11", "no status table store recognised in the SLURM/PBS managers")
    sm = ctx.fn("SlurmManager.submit", "C06.11")
    rets = [x for x in iter_own(sm.node) if isinstance(x, ast.Return) and isinstance(x.value, ast.Tuple) and len(x.value.elts) == 3]
    if not rets:
        raise AnalysisError("C06.11", "SlurmManager.submit returns no (result, job_id, err) tuple")
    for x in rets:
        e = inlined_expr(ctx, sm, x.value.elts[1])
        conv = [c for c in ast.walk(e) if isinstance(c, ast.Call) and isinstance(c.func, ast.Name) and c.func.id in ("int", "float")]
        r.check(not conv, "SlurmManager.submit returns the id as printed", key_of(sm, "submitted id converted"), sm.loc(x), f"`{ctx.src(e)}` converts the id sbatch printed to a number; the status table is keyed by strings", "at most max-nodes")


def key_of_cls(cls, what):
    return f"{cls.name}::{what}"


@rule(P, "C06.12", "T6", "the persisted list of active batch ids is changed only by a round's status update and by a batch reporting its own end", min_obligations=2)
def c06_12(ctx, r):
    """max-nodes is enforced per round from the ids carried in job_status.json.  An id may leave that list only because the scheduler no longer
    lists the batch (the round's status update replaces the list by the ids still outstanding) or because the batch itself reports its end
    (complete_hpc_job_id).  Any other writer - clearing the list when the submission is marked complete, say - forgets batches that are still
    running their teardown; a resubmission then starts max-nodes new batches beside them."""
    from .c09 import OWNERS

    allowed = OWNERS[("JobStatus", "hpc_job_ids")]
    n = 0
    for fn, node, attr, t, kind in attr_stores(ctx, {"hpc_job_ids"}):
        if t is None:
            raise AnalysisError("C06.12", f"{fn.loc(node)}: store to .hpc_job_ids on an untyped receiver")
        if not type_is(ctx, t, "JobStatus"):
            continue
        n += 1
        r.check(fn.short in allowed, f"JobStatus.hpc_job_ids written in {fn.short}", key_of(fn, f"{kind} JobStatus.hpc_job_ids"), fn.loc(node),
                f"{fn.short} changes the persisted list of active batch ids ({kind}); only {list(allowed)} may: a batch still queued or running is forgotten, and the next round (or a resubmission) "
                "submits max-nodes batches beside it", "the number of this submission's batches queued or running on the HPC is at most max-nodes", writer=fn.short)
    if n < 2:
        raise AnalysisError("C06.12", f"{n} writers of JobStatus.hpc_job_ids found")


@rule(P, "C06.13", "T8", "`resubmit-jobs -s <groups file>` replaces the cluster's submission groups (the limits the next rounds read)", min_obligations=1)
def c06_13(ctx, r):
    """max-nodes and processes-per-node of the resubmission and of every later round are read from cluster.config.submission_groups (C06.5).
    The groups-file branch of resubmit-jobs must therefore *store* each group it loaded into that list (by index, by append, or by assigning
    the list) - a replacement made in some other mapping is lost, and the old, higher limits stay in force without a word."""
    fn = ctx.fn("resubmit_jobs.resubmit_jobs", "C06.13")
    sg = [s for s in ctx.cg.sites_in(fn) if (s.constructs or "").endswith("SubmissionGroup")]
    if not sg:
        raise AnalysisError("C06.13", "resubmit_jobs constructs no SubmissionGroup any more")
    stores = []
    for x in iter_own(fn.node):
        if isinstance(x, ast.Assign):
            for t in x.targets:
                base = t.value if isinstance(t, ast.Subscript) else t
                # the list itself, or a local alias of it (`orig_groups = cluster.config.submission_groups` - the same list object)
                b2 = inlined_expr(ctx, fn, base) if isinstance(base, ast.Name) and isinstance(t, ast.Subscript) else base
                if isinstance(b2, ast.Attribute) and render(ctx, fn, b2) == "<ClusterConfig.submission_groups>":
                    stores.append((x, x.value))
        if isinstance(x, ast.Call) and isinstance(x.func, ast.Attribute) and x.func.attr in ("append", "insert", "extend") and render(ctx, fn, x.func.value) == "<ClusterConfig.submission_groups>":
            stores.append((x, x.args[-1] if x.args else None))
    okv = False
    for st, v in stores:
        for nd in ctx.nodes_of(fn, ctx.stmt_of(fn, st) if not isinstance(st, ast.stmt) else st):
            from ..lib import is_value_of

            okv = okv or any(is_value_of(ctx, fn, v, nd, s.node) for s in sg)
    r.check(bool(stores) and okv, "the loaded group is stored into cluster.config.submission_groups", key_of(fn, "new groups never reach the cluster config"), fn.loc(sg[0].node),
            "resubmit-jobs builds SubmissionGroup objects from the groups file but never stores them into cluster.config.submission_groups: the resubmission and all later rounds keep the old max_nodes / "
            "processes-per-node, although the command reports the parameters as updated", "at most max-nodes ... at most the configured processes-per-node")

"""C09 - persisted status is always consistent and only moves forward."""

import ast

from .. import AnalysisError
from ..cfg import ALL_KINDS, NORMAL_KINDS, iter_own
from ..lib import collections_from, iteration_paths, attr_stores, dominated_by, guard_forms, key_of, render, type_is, type_name, unlocked_writers
from ..report import describe, rule

P = "C09"

describe(
    P,
    "Decides the structural clauses: the counters, flags, versions, active ids, batch index, job states and remaining-blocker "
    "sets are written only by the named Cluster methods (one allow-listed outsider: HpcSubmitter._cancel_job marks the "
    "in-memory job done and the same round's locked update persists it); in _update_job_status every state change is paired "
    "with its counter increment in the same block, under the 'not already submitted' / 'not processed twice' assertions; "
    "every function that reaches a write of cluster_config.json / job_status.json / the version files does so only while "
    "the cluster lock is held (so a reader with the lock free never sees one file updated without the other); the version "
    "increment, the version-file write and the data-file write happen together; jobs are marked done only for names of "
    "collected results or together with the appended canceled result; remaining blockers are cleared once submitted/done "
    "before both files are serialised."
    " The blocker-clearing loop follows every state/blocker change of the update; after a resubmission reset both counters equal the counts over the states left behind, decided by evaluating one pass of the reset loop over the finite abstraction (selected?) x (state before).",
    [
        "Allow-list (one symbol, one reason each): Cluster.create - the directory is not yet published to any other process",
    ],
    "the invariants as statements over all reachable histories (counter arithmetic, monotonicity across rounds) are not decided.",
)

PREP = ("Cluster.prepare_for_resubmission", "Cluster._prepare_for_resubmission")
OWNERS = {
    # (class, attr) -> allowed writer functions
    ("ClusterConfig", "submitted_jobs"): ("Cluster._update_job_status",) + PREP,
    ("ClusterConfig", "completed_jobs"): ("Cluster._update_job_status",) + PREP,
    ("ClusterConfig", "is_complete"): ("Cluster._mark_complete",) + PREP,
    ("ClusterConfig", "is_canceled"): ("Cluster._mark_canceled",),
    ("ClusterConfig", "submitter"): ("Cluster._promote_to_submitter", "Cluster._demote_from_submitter"),
    ("ClusterConfig", "version"): ("Cluster._serialize",),
    ("ClusterConfig", "num_jobs"): (),
    ("JobStatus", "version"): ("Cluster._serialize_jobs",),
    ("JobStatus", "hpc_job_ids"): ("Cluster._update_job_status", "Cluster._complete_hpc_job_id"),
    ("JobStatus", "batch_index"): ("Cluster._update_job_status",),
    ("JobStatus", "jobs"): (),
    ("Job", "state"): ("Cluster._update_job_status", "HpcSubmitter._cancel_job") + PREP,
    ("Job", "blocked_by"): ("Cluster._update_job_status", "HpcSubmitter._cancel_job", "HpcSubmitter._update_completed_jobs") + PREP,
}


@rule(P, "C09.1", "T6", "status fields are written only by the named Cluster methods", min_obligations=20)
def c09_1(ctx, r):
    names = {a for _, a in OWNERS}
    for fn, node, attr, t, kind in attr_stores(ctx, names):
        cname = None
        for (c, a) in OWNERS:
            if a == attr and type_is(ctx, t, c):
                cname = c
        if cname is None:
            if t is None:
                # untyped receiver: only a problem if the attribute name is one of the distinctive ones
                if attr in ("submitted_jobs", "completed_jobs", "is_canceled", "submitter", "hpc_job_ids", "batch_index"):
                    raise AnalysisError("C09.1", f"{fn.loc(node)}: store to .{attr} on an untyped receiver `{ctx.src(node)[:40]}`")
            continue
        allowed = OWNERS[(cname, attr)]
        r.check(
            fn.short in allowed,
            f"{cname}.{attr} written in {fn.short}",
            key_of(fn, f"{kind} {cname}.{attr}"),
            fn.loc(node),
            f"{cname}.{attr} is written ({kind}) in {fn.short}; only {list(allowed)} may: counters / states / versions can diverge",
            "completed equals the number of jobs marked done, submitted equals the number marked submitted or done ...",
            writer=fn.short,
        )


def _loop_over(fn, param):
    for n in iter_own(fn.node):
        if isinstance(n, ast.For) and isinstance(n.iter, ast.Name) and n.iter.id == param:
            yield n


def _state_stores(ctx, fn, block, state):
    out = []
    for st in block:
        if isinstance(st, ast.Assign) and any(isinstance(t, ast.Attribute) and t.attr == "state" for t in st.targets):
            if ctx.src(st.value) == f"JobState.{state}":
                out.append(st)
    return out


def _incs(ctx, block, counter):
    return [st for st in block if isinstance(st, ast.AugAssign) and isinstance(st.op, ast.Add) and ctx.src(st.target).endswith("." + counter)
            and isinstance(st.value, ast.Constant) and st.value.value == 1]


@rule(P, "C09.2", "T3", "every state change in _update_job_status is paired with its counter, under the forward-only assertions", min_obligations=7)
def c09_2(ctx, r):
    fn = ctx.fn("Cluster._update_job_status", "C09.2")
    spec = [("submitted_jobs", "SUBMITTED", "submitted_jobs"), ("completed_job_names", "DONE", "completed_jobs")]
    for param, state, counter in spec:
        loops = list(_loop_over(fn, param))
        if len(loops) != 1:
            raise AnalysisError("C09.2", f"expected one loop over {param}, found {len(loops)}")
        lp = loops[0]
        ss, ii = _state_stores(ctx, fn, lp.body, state), _incs(ctx, lp.body, counter)
        r.check(len(ss) == 1 and len(ii) == 1, f"state={state} paired with {counter} += 1 in the loop over {param}", key_of(fn, f"{state}/{counter} pairing"), fn.loc(lp),
                f"in the loop over {param}: {len(ss)} stores of JobState.{state} vs {len(ii)} increments of {counter} in the same block (the counters shown by show-status drift from the job states)",
                "completed equals the number of jobs marked done, submitted equals the number marked submitted or done")
        # no other increments of this counter elsewhere except the canceled loop
    canc = list(_loop_over(fn, "canceled_jobs"))
    ok = len(canc) == 1 and len(_incs(ctx, canc[0].body, "submitted_jobs")) == 1
    r.check(ok, "each canceled job counts as submitted", key_of(fn, "canceled/submitted_jobs pairing"), fn.loc(), "canceled jobs are not counted as submitted exactly once (submitted < completed becomes possible)")
    total_sub = [n for n in iter_own(fn.node) if isinstance(n, ast.AugAssign) and ctx.src(n.target).endswith(".submitted_jobs")]
    total_comp = [n for n in iter_own(fn.node) if isinstance(n, ast.AugAssign) and ctx.src(n.target).endswith(".completed_jobs")]
    r.check(len(total_sub) == 2 and len(total_comp) == 1, "no other counter updates in _update_job_status", key_of(fn, "extra counter update"), fn.loc(),
            f"unexpected counter updates: submitted_jobs x{len(total_sub)}, completed_jobs x{len(total_comp)}")
    # forward-only assertions
    for lp, state, want in ((list(_loop_over(fn, "submitted_jobs"))[0], "SUBMITTED", "state == JobState.SUBMITTED"),):
        for st in _state_stores(ctx, fn, lp.body, state):
            for n in ctx.nodes_of(fn, st):
                forms = guard_forms(ctx, fn, n, ALL_KINDS, kill=False)
                ok = any((not p) and "JobState.SUBMITTED" in f and "state" in f for f, p in forms)
                r.check(ok, "submitted only if not already submitted (assert)", key_of(fn, "assert not already submitted"), fn.loc(st),
                        "a job can be marked submitted twice (counter incremented twice) - the 'not already submitted' assertion is gone",
                        "a job's state only advances", guards=sorted(("" if p else "not ") + f for f, p in forms))
    lp = list(_loop_over(fn, "completed_job_names"))[0]
    for st in _state_stores(ctx, fn, lp.body, "DONE"):
        for n in ctx.nodes_of(fn, st):
            forms = guard_forms(ctx, fn, n, ALL_KINDS, kill=False)
            procs = {c.func.value.id for l2 in list(_loop_over(fn, "submitted_jobs")) + list(_loop_over(fn, "blocked_jobs")) for c in ast.walk(l2)
                     if isinstance(c, ast.Call) and isinstance(c.func, ast.Attribute) and c.func.attr == "add" and isinstance(c.func.value, ast.Name)}
            ok = any((not p) and any(f.endswith(f"in {x}") for x in procs) for f, p in forms)
            r.check(ok, "a name is not both (re)submitted/blocked and completed in one update (assert)", key_of(fn, "assert not processed"), fn.loc(st),
                    "the 'completed name not processed in this update' assertion is gone")
    # blocked loop asserts NOT_SUBMITTED
    for lp in _loop_over(fn, "blocked_jobs"):
        for st in lp.body:
            if isinstance(st, ast.Assign) and any(isinstance(t, ast.Attribute) and t.attr == "blocked_by" for t in st.targets):
                for n in ctx.nodes_of(fn, st):
                    forms = guard_forms(ctx, fn, n, ALL_KINDS, kill=False)
                    ok = any(p and "JobState.NOT_SUBMITTED" in f for f, p in forms)
                    r.check(ok, "remaining blockers updated only for not-submitted jobs (assert)", key_of(fn, "assert blocked is not submitted"), fn.loc(st),
                            "blocked_by of a submitted/done job can be rewritten (must be empty once submitted)")


@rule(P, "C09.3", "T7", "both state files are written only inside a hold of the cluster lock", min_obligations=3)
def c09_3(ctx, r):
    cl = ctx.cls("Cluster", "C09.3")
    viol, W = unlocked_writers(ctx, "STATE_WRITE", cl, "cluster")
    allow = {"Cluster.create": "directory not yet published to any other process"}
    prims = [f for f in ("Cluster._serialize_file", "Cluster._serialize_config_version", "Cluster._serialize_job_status_version") if ctx.ix.try_func(f)]
    if len(prims) != 3:
        raise AnalysisError("C09.3", f"state-write primitives changed: {prims}")
    for f, outside in viol:
        if f.short in allow:
            r.ok(f"{f.short}: allow-listed unlocked writer ({allow[f.short]})")
            continue
        callers = sorted({s.fn.short for s in outside}) or ["(public API)"]
        r.bad(
            key_of(f, "STATE_WRITE without cluster lock"),
            f.loc(),
            f"{f.short} reaches a write of the cluster state files without holding the cluster lock (called from {callers}): "
            "a reader that finds the lock free between the two writes sees cluster_config.json and job_status.json out of step",
            "Whenever the status can be read (the cluster lock is free), completed <= submitted <= total, completed equals the number of jobs marked done ...",
        )
    for q in sorted(W):
        f = ctx.ix.functions[q]
        if f.cls is cl and ctx.is_locked_only(f, "cluster"):
            r.ok(f"{f.short}: reaches STATE_WRITE only under the cluster lock")
    # outside the owner class nobody reaches the primitives directly
    for q in sorted(W):
        f = ctx.ix.functions[q]
        if f.cls is not cl:
            direct = [s for s in ctx.cg.sites_in(f) if "STATE_WRITE" in ctx.site_effects(s)]
            for s in direct:
                r.bad(key_of(f, "direct state write"), s.loc, f"{f.short} calls a state-file writer of Cluster directly ({ctx.src(s.node.func)})")


@rule(P, "C09.4", "T3+T2", "version increment, version-file write and data-file write happen together", min_obligations=6)
def c09_4(ctx, r):
    for spec, vwriter in (("Cluster._serialize", "Cluster._serialize_config_version"), ("Cluster._serialize_jobs", "Cluster._serialize_job_status_version")):
        fn = ctx.fn(spec, "C09.4")
        cfg = ctx.cfg(fn)
        incs = [n for n in cfg.nodes if n.kind == "stmt" and isinstance(n.ast, ast.AugAssign) and ctx.src(n.ast.target).endswith(".version")]
        vws = [n for s in ctx.sites(fn, short=vwriter) for n in ctx.nodes_of(fn, s.node)]
        dws = [n for s in ctx.sites(fn, short="Cluster._serialize_file") for n in ctx.nodes_of(fn, s.node)]
        if len(incs) != 1 or len(vws) != 1 or len(dws) != 1:
            raise AnalysisError("C09.4", f"{fn.short}: inc={len(incs)} version-write={len(vws)} data-write={len(dws)}")
        inc, vw, dw = incs[0], vws[0], dws[0]
        pd = ctx.pdom(fn)
        r.check(dominated_by(ctx, fn, vw, [inc]) and dominated_by(ctx, fn, dw, [inc]), f"{fn.short}: both writes follow the increment", key_of(fn, "increment first"), fn.loc(inc.stmt),
                "a file is written with the old version number")
        r.check(vw.id in pd.get(inc.id, set()) and dw.id in pd.get(inc.id, set()), f"{fn.short}: after the increment both files are written on every normal path", key_of(fn, "both writes follow"), fn.loc(inc.stmt),
                "after the version increment one of the two files may be left unwritten: the version file and the data file disagree, and every later writer is rejected (or none is)")
        r.check(inc.ast.value.value == 1 and isinstance(inc.ast.op, ast.Add), f"{fn.short}: version += 1", key_of(fn, "increment by one"), fn.loc(inc.stmt), "version is not incremented by one")
        # the data written carries the incremented version: json() taken after the increment
        arg = dw.ast.value.args[0] if isinstance(dw.ast, ast.Expr) else None
        if isinstance(arg, ast.Name):
            ud = ctx.rd(fn).unique_def(dw, arg.id)
            okj = ud is not None and dominated_by(ctx, fn, ud[0], [inc]) and ".json()" in ctx.src(ud[1])
        else:
            okj = arg is not None and ".json()" in ctx.src(arg)
        r.check(okj, f"{fn.short}: the serialised text is taken after the increment", key_of(fn, "text after increment"), fn.loc(dw.stmt),
                "the text written to the data file was produced before the version increment (file content and version file disagree)")


def returned_accumulators_persist(ctx, r, rid):
    """The collections returned by _update_completed_jobs accumulate over all passes of its fixpoint loop: none of
    them is re-bound inside a loop (a re-initialisation per pass drops the names collected by the earlier passes)."""
    ucj = ctx.fn("HpcSubmitter._update_completed_jobs", rid)
    rets = [n for n in iter_own(ucj.node) if isinstance(n, ast.Return)]
    if len(rets) != 1 or not isinstance(rets[0].value, ast.Tuple) or not all(isinstance(e, ast.Name) for e in rets[0].value.elts):
        raise AnalysisError(rid, "_update_completed_jobs does not return a tuple of locals")
    for e in rets[0].value.elts:
        binds = [n for n in iter_own(ucj.node) if isinstance(n, (ast.Assign, ast.AugAssign, ast.AnnAssign)) and any(isinstance(t, ast.Name) and t.id == e.id for t in (n.targets if isinstance(n, ast.Assign) else [n.target]))]
        if not binds:
            raise AnalysisError(rid, f"returned local {e.id} is never bound")
        inloop = [b for b in binds if isinstance(b, ast.Assign) and ctx.enclosing(ucj, b, (ast.For, ast.While))]
        r.check(not inloop, f"returned accumulator `{e.id}` is bound once, outside the fixpoint loop", key_of(ucj, f"{e.id} re-bound inside a loop"), ucj.loc(inloop[0]) if inloop else ucj.loc(),
                f"`{e.id}` is re-initialised on every pass of the loop: what the earlier passes collected (results already moved into the consolidated file / jobs already canceled) is not returned, "
                "so those jobs are never marked done although their rows were consumed", "reported as newly completed to exactly one submitter round")


@rule(P, "C09.5", "T8", "jobs are marked done only for collected results, or together with the appended canceled result", min_obligations=5)
def c09_5(ctx, r):
    # (a) Cluster._update_job_status: DONE for names in completed_job_names  (C09.2 checks the loop)
    # (b) chain: update_job_status(completed_job_names) <- HpcSubmitter._update_status <- run <- _update_completed_jobs()[0]
    us = ctx.fn("HpcSubmitter._update_status", "C09.5")
    ujs = ctx.fn("Cluster.update_job_status", "C09.5")
    for s in ctx.some_sites(us, "C09.5", short="Cluster.update_job_status"):
        a = ctx.arg_for(s, ujs, "completed_job_names")
        r.check(isinstance(a, ast.Name) and a.id == "completed_job_names", "_update_status forwards completed_job_names", key_of(us, "forward completed names"), s.loc,
                f"update_job_status receives {ctx.src(a) if a is not None else None} as completed names")
    run = ctx.fn("HpcSubmitter.run", "C09.5")
    for s in ctx.some_sites(run, "C09.5", short="HpcSubmitter._update_status"):
        a = ctx.arg_for(s, us, "completed_job_names")
        ok = False
        if isinstance(a, ast.Name):
            for n in ctx.nodes_of(run, s.node):
                ud = ctx.rd(run).unique_def(n, a.id)
                if ud and isinstance(ud[1], tuple) and ud[1][0] == "unpack" and ud[1][2] == 0:
                    cs = ctx.cg.site_of(run, ud[1][1]) if isinstance(ud[1][1], ast.Call) else None
                    ok = cs is not None and cs.calls_short(ctx.ix, "HpcSubmitter._update_completed_jobs")
        r.check(ok, "completed names = first result of _update_completed_jobs()", key_of(run, "completed names source"), s.loc,
                "the names marked done do not come from this round's result collection")
    ucj = ctx.fn("HpcSubmitter._update_completed_jobs", "C09.5")
    rets = [n for n in iter_own(ucj.node) if isinstance(n, ast.Return)]
    if len(rets) != 1 or not isinstance(rets[0].value, ast.Tuple) or not isinstance(rets[0].value.elts[0], ast.Name):
        raise AnalysisError("C09.5", "_update_completed_jobs does not return (names, canceled) as a tuple of locals")
    var = rets[0].value.elts[0].id
    adds = [n for n in iter_own(ucj.node) if isinstance(n, ast.Call) and isinstance(n.func, ast.Attribute) and ctx.src(n.func.value) == var and n.func.attr in ("add", "update", "append", "extend")]
    if not adds:
        raise AnalysisError("C09.5", f"no insertion into {var}")
    for a in adds:
        ok = a.func.attr == "add" and len(a.args) == 1 and isinstance(a.args[0], ast.Attribute) and a.args[0].attr == "name" and isinstance(a.args[0].value, ast.Name)
        src_ok = False
        if ok:
            loops = ctx.enclosing(ucj, a, (ast.For,))
            if loops and isinstance(loops[0].target, ast.Name) and loops[0].target.id == a.args[0].value.id:
                it = ctx.src(loops[0].iter)
                src_ok = "process_results()" in it
                extra = [x for x in iter_own(loops[0].iter) if isinstance(x, ast.Name) and x.id not in ("itertools", "aggregator")]
                # any other chained source must be the list of this pass's cancel results
                for x in extra:
                    ins = [n for n in iter_own(ucj.node) if isinstance(n, ast.Call) and isinstance(n.func, ast.Attribute) and ctx.src(n.func.value) == x.id and n.func.attr in ("append", "extend", "insert")]
                    for i in ins:
                        v = i.args[0] if i.args else None
                        okv = False
                        if isinstance(v, ast.Name):
                            for n in ctx.nodes_of(ucj, i):
                                ud = ctx.rd(ucj).unique_def(n, v.id)
                                cs = ctx.cg.site_of(ucj, ud[1]) if ud and isinstance(ud[1], ast.Call) else None
                                okv = cs is not None and cs.calls_short(ctx.ix, "HpcSubmitter._cancel_job")
                        src_ok = src_ok and okv
        r.check(ok and src_ok, "newly-completed names are result.name of collected results / this pass's canceled results", key_of(ucj, f"insert into {var}"), ucj.loc(a),
                f"{ctx.src(a)}: a job name enters the completed set that is not the name of a result moved by process_results() or created by _cancel_job",
                "every done job has a recorded result")
    returned_accumulators_persist(ctx, r, "C09.5")
    # (c) _cancel_job: DONE paired with append_result of a CANCELED result
    cj = ctx.fn("HpcSubmitter._cancel_job", "C09.5")
    body = cj.node.body
    dones = _state_stores(ctx, cj, body, "DONE")
    apps = [st for st in body if isinstance(st, ast.Expr) and isinstance(st.value, ast.Call) and ctx.cg.site_of(cj, st.value) is not None and ctx.cg.site_of(cj, st.value).calls_short(ctx.ix, "ResultsAggregator.append_result")]
    r.check(len(dones) == 1 and len(apps) == 1, "_cancel_job: state=DONE and append_result(result) unconditionally, in one block", key_of(cj, "DONE/append pairing"), cj.loc(),
            f"_cancel_job marks the job done x{len(dones)} but appends a result x{len(apps)} at the top level: a done job without a recorded result (or a result for a job still not submitted)",
            "every done job has a recorded result")
    # other DONE stores anywhere are covered by C09.1 ownership
    r.ok("no other store of JobState.DONE (ownership C09.1)")


@rule(P, "C09.6", "T1+T2", "remaining blockers are cleared once submitted/done, before both files are serialised", min_obligations=3)
def c09_6(ctx, r):
    fn = ctx.fn("Cluster._update_job_status", "C09.6")
    cfg = ctx.cfg(fn)
    clears = []
    for n in cfg.nodes:
        for c in cfg.calls_at(n):
            if isinstance(c.func, ast.Attribute) and c.func.attr == "clear" and ctx.src(c.func.value).endswith(".blocked_by"):
                clears.append((n, c))
    if not clears:
        r.bad(key_of(fn, "blocked_by never cleared"), fn.loc(), "blocked_by is not cleared for submitted/done jobs: 'empty once submitted' fails", "its remaining-blockers set ... is empty once submitted")
        return
    for n, c in clears:
        loops = ctx.enclosing(fn, c, (ast.For,))
        ok_loop = bool(loops) and "iter_jobs()" in ctx.src(loops[0].iter).replace("self.", "") and not loops[0].iter.args and not loops[0].iter.keywords
        r.check(ok_loop, "the clearing loop visits every job", key_of(fn, "clear loop domain"), fn.loc(c), f"the clearing loop iterates {ctx.src(loops[0].iter) if loops else None}, not all jobs")
        forms = guard_forms(ctx, fn, n)
        ok_g = any(p and "JobState.SUBMITTED" in f and "JobState.DONE" in f and " in " in f for f, p in forms)
        r.check(ok_g, "cleared for state in (SUBMITTED, DONE)", key_of(fn, "clear guard"), fn.loc(c), f"blocked_by.clear() is guarded by {sorted(f for f, p in forms)}")
    sers = ctx.nodes_with_effect(fn, "SERIALIZE_CONFIG") + ctx.nodes_with_effect(fn, "SERIALIZE_JOBS")
    heads = [x for x in cfg.nodes if x.kind == "for" and any(x.ast is l for _, c in clears for l in ctx.enclosing(fn, c, (ast.For,))[:1])]
    # ... and after every state / blocker change of this update (a job submitted by this very update must be cleared too)
    from ..lib import reachable_from

    for h in heads:
        after = reachable_from(ctx, fn, h, NORMAL_KINDS)
        for x in cfg.nodes:
            a = x.ast
            if x.kind == "stmt" and isinstance(a, ast.Assign) and any(isinstance(t, ast.Attribute) and t.attr in ("state", "blocked_by") for t in a.targets) and not any(l is h.ast for l in ctx.enclosing(fn, a, (ast.For,))):
                r.check(x.id not in after, f"`{ctx.src(a)[:40]}` happens before the clearing loop", key_of(fn, f"{ctx.src(a.targets[0])} changed after the clearing loop"), fn.loc(a),
                        f"`{ctx.src(a)}` runs after blocked_by was cleared for submitted/done jobs: a job that this update marks submitted/done keeps its remaining blockers in the persisted status "
                        "(with try-add-blocked a job is submitted together with its blockers)", "its remaining-blockers set only shrinks and is empty once submitted")
    for s in sers:
        r.check(dominated_by(ctx, fn, s, heads), "serialisation follows the clearing loop", key_of(fn, "serialize after clear"), fn.loc(s.stmt), "state is serialised before blocked_by of submitted/done jobs was cleared")
    r.check(ctx.must(fn, "SERIALIZE_CONFIG") and ctx.must(fn, "SERIALIZE_JOBS"), "_update_job_status serialises both files on every normal path", key_of(fn, "serialize both"), fn.loc(),
            "_update_job_status does not reach both _serialize and _serialize_jobs on every normal path: one file is updated without the other")


@rule(P, "C09.7", "T8", "a new submission starts consistent: zero counters, every job not_submitted, versions 0 on disk before the data", min_obligations=6)
def c09_7(ctx, r):
    cr = ctx.fn("Cluster.create", "C09.7")
    cc = ctx.cls("ClusterConfig")
    js = ctx.cls("JobStatus")
    for s in [s for s in ctx.cg.sites_in(cr) if s.constructs == cc.qual]:
        kw = {k.arg: ctx.src(k.value) for k in s.node.keywords}
        r.check(kw.get("num_jobs") == "jade_config.get_num_jobs()", "num_jobs = number of configured jobs", key_of(cr, "num_jobs"), s.loc, f"num_jobs={kw.get('num_jobs')}", "completed <= submitted <= total")
        r.check(kw.get("version") == "0" and "submitted_jobs" not in kw and "completed_jobs" not in kw and "is_complete" not in kw and "is_canceled" not in kw, "version 0; counters and flags left at their model defaults", key_of(cr, "initial config"), s.loc, f"ClusterConfig({kw})")
    for fld, want in (("submitted_jobs", "0"), ("completed_jobs", "0"), ("is_complete", "False"), ("is_canceled", "False")):
        v = cc.ann_values.get(fld)
        d = next((ctx.src(k.value) for k in v.keywords if k.arg == "default"), None) if isinstance(v, ast.Call) else None
        r.check(d == want, f"ClusterConfig.{fld} defaults to {want}", f"ClusterConfig::{fld} default", cc.module.relpath + ":1", f"ClusterConfig.{fld} defaults to {d}")
    for s in [s for s in ctx.cg.sites_in(cr) if s.constructs == js.qual]:
        kw = {k.arg: k.value for k in s.node.keywords}
        jobs = kw.get("jobs")
        cols = [c for c in collections_from(ctx, cr, lambda e: ctx.src(e) == "jade_config.iter_jobs()") if c["elt"].startswith("Job(")]
        # the collection is the `jobs=` argument itself (comprehension) or the local handed to it (loop form)
        cols = [c for c in cols if (c["form"] == "comprehension" and c["at"] is jobs) or (isinstance(jobs, ast.Name) and c["into"] == jobs.id)]
        ok = len(cols) == 1 and not cols[0]["conds"]
        jk = {}
        if ok:
            e = ast.parse(cols[0]["elt"], mode="eval").body
            jk = {k.arg: ast.unparse(k.value) for k in e.keywords}
        v = "_"
        r.check(ok and jk.get("state") == "JobState.NOT_SUBMITTED" and jk.get("name") == f"{v}.name" and jk.get("blocked_by") == f"{v}.get_blocking_jobs()" and jk.get("cancel_on_blocking_job_failure") == f"{v}.cancel_on_blocking_job_failure",
                "one status job per configured job: its name, blockers and cancel flag, state not_submitted", key_of(cr, "initial jobs"), s.loc, f"initial job list is `{ctx.src(jobs)[:120] if jobs is not None else None}`",
                "a job's state only advances not_submitted -> submitted -> done")
        r.check(ctx.src(kw.get("hpc_job_ids")) == "[]" and ctx.src(kw.get("version")) == "0" and "batch_index" not in kw, "no active id, version 0, batch index at its default", key_of(cr, "initial status"), s.loc, "initial JobStatus changed")
    d = next((ctx.src(k.value) for k in js.ann_values["batch_index"].keywords if k.arg == "default"), None)
    r.check(d == "1", "JobStatus.batch_index defaults to 1", "JobStatus::batch_index default", js.module.relpath + ":1", f"batch_index default {d}")
    # version files exist before the first guarded serialize
    cfg = ctx.cfg(cr)
    vw = [n for sh in ("Cluster._serialize_config_version", "Cluster._serialize_job_status_version") for s in ctx.sites(cr, short=sh) for n in ctx.nodes_of(cr, s.node)]
    se = [n for sh in ("Cluster.serialize", "Cluster.serialize_jobs") for s in ctx.sites(cr, short=sh) for n in ctx.nodes_of(cr, s.node)]
    r.check(len(vw) == 2 and len(se) == 2 and all(dominated_by(ctx, cr, s, [v]) for s in se for v in vw), "both version files are written before the first (version-checked) serialisation", key_of(cr, "create order"), cr.loc(),
            "Cluster.create serialises before the version files exist (the first write fails) or never writes them")


_STATES = ("NOT_SUBMITTED", "SUBMITTED", "DONE")


def _eval_reset_cond(ctx, cond, selected, state, setname):
    """Evaluate one atomic branch condition of the reset loop in the abstract cell (selected, state); None = unknown."""
    if isinstance(cond, ast.UnaryOp) and isinstance(cond.op, ast.Not):
        v = _eval_reset_cond(ctx, cond.operand, selected, state, setname)
        return None if v is None else not v
    if not (isinstance(cond, ast.Compare) and len(cond.ops) == 1):
        return None
    op, left, right = cond.ops[0], cond.left, cond.comparators[0]
    if isinstance(left, ast.Attribute) and left.attr == "name" and isinstance(right, ast.Name) and right.id == setname and isinstance(op, (ast.In, ast.NotIn)):
        return selected if isinstance(op, ast.In) else not selected

    def st(e):
        return e.attr if isinstance(e, ast.Attribute) and ctx.src(e.value) == "JobState" and e.attr in _STATES else None

    if isinstance(left, ast.Attribute) and left.attr == "state":
        if isinstance(op, (ast.Eq, ast.NotEq, ast.Is, ast.IsNot)) and st(right):
            v = state == st(right)
            return v if isinstance(op, (ast.Eq, ast.Is)) else not v
        if isinstance(op, (ast.In, ast.NotIn)) and isinstance(right, (ast.Tuple, ast.List, ast.Set)) and all(st(e) for e in right.elts):
            v = state in {st(e) for e in right.elts}
            return v if isinstance(op, ast.In) else not v
    if st(left) and isinstance(right, ast.Attribute) and right.attr == "state" and isinstance(op, (ast.Eq, ast.NotEq)):
        v = state == st(left)
        return v if isinstance(op, ast.Eq) else not v
    return None


def reset_recounts_from_states(ctx, r, rid):
    """After prepare_for_resubmission the two counters equal the counts over the job states it leaves behind:
    evaluated over the finite abstraction (job selected?) x (state before) for one pass of the reset loop."""
    pf = ctx.ix.try_func("Cluster._prepare_for_resubmission") or ctx.fn("Cluster.prepare_for_resubmission", rid)
    ctx.counters["functions"].add(pf.qual)
    setname = next((p for p in pf.params if p == "jobs_to_resubmit"), None)
    if setname is None:
        raise AnalysisError(rid, f"{pf.short} has no jobs_to_resubmit parameter")
    loops = [n for n in iter_own(pf.node) if isinstance(n, ast.For) and any(isinstance(x, ast.Assign) and any(isinstance(t, ast.Attribute) and t.attr == "state" for t in x.targets) for x in ast.walk(n))]
    if len(loops) != 1:
        raise AnalysisError(rid, f"expected one reset loop in {pf.short}, found {len(loops)}")
    lp = loops[0]
    it = lp.iter
    if not ((isinstance(it, ast.Call) and not it.args and not it.keywords and ctx.src(it.func).endswith("iter_jobs")) or render(ctx, pf, it) == "<JobStatus.jobs>"):
        raise AnalysisError(rid, f"the reset loop iterates `{ctx.src(it)}`, not every job: the cell abstraction does not apply (C13.4 decides the loop domain)")
    counters = ("submitted_jobs", "completed_jobs")
    stray = [n for n in iter_own(pf.node) if isinstance(n, ast.AugAssign) and isinstance(n.target, ast.Attribute) and n.target.attr in counters and not any(l is lp for l in ctx.enclosing(pf, n, (ast.For,)))]
    if stray:
        raise AnalysisError(rid, f"counter update `{ctx.src(stray[0])}` outside the reset loop: shape not supported")
    want = {"submitted_jobs": lambda s: s != "NOT_SUBMITTED", "completed_jobs": lambda s: s == "DONE"}
    zero = {}
    for n in iter_own(pf.node):
        if isinstance(n, ast.Assign) and len(n.targets) == 1 and isinstance(n.targets[0], ast.Attribute) and n.targets[0].attr in counters and not any(l is lp for l in ctx.enclosing(pf, n, (ast.For,))):
            c = n.targets[0].attr
            isz = isinstance(n.value, ast.Constant) and n.value.value == 0
            zero[c] = isz
            if not isz:
                r.bad(key_of(pf, f"{c} not recounted from the job states"), pf.loc(n),
                      f"`{ctx.src(n)}`: after the reset {c} is computed arithmetically, not counted over the states the reset leaves behind. It is right only if every job outside the rerun set is "
                      "submitted or done; a job that is still not_submitted in a complete submission (it waits for a missing job of a killed batch) and is not selected (--no-missing) is counted as submitted: "
                      "submitted_jobs exceeds the number of jobs marked submitted or done, and all_jobs_submitted() can hold with unsubmitted jobs left",
                      "submitted equals the number marked submitted or done")
    for c in counters:
        if c not in zero:
            r.bad(key_of(pf, f"{c} not reset"), pf.loc(), f"{pf.short} does not re-initialise {c}", "completed equals the number of jobs marked done, submitted equals the number marked submitted or done")
    paths = list(iteration_paths(ctx, pf, lp, with_path=True))
    ctx.counters["paths"] += len(paths)
    for selected in (True, False):
        for state in _STATES:
            feas = []
            for end, conds, last, path in paths:
                cur, ok, incs = state, True, {c: 0 for c in counters}
                for node, kind, cond in path:
                    if kind in ("T", "F") and cond is not None:
                        v = _eval_reset_cond(ctx, cond, selected, cur, setname)
                        if v is None:
                            raise AnalysisError(rid, f"condition `{ctx.src(cond)}` in the reset loop is not over (selected, state)")
                        if v != (kind == "T"):
                            ok = False
                            break
                    a = node.ast
                    if node.kind == "stmt" and isinstance(a, ast.Assign) and any(isinstance(t, ast.Attribute) and t.attr == "state" for t in a.targets):
                        if not (isinstance(a.value, ast.Attribute) and a.value.attr in _STATES):
                            raise AnalysisError(rid, f"state store `{ctx.src(a)}` is not a JobState constant")
                        cur = a.value.attr
                    if node.kind == "stmt" and isinstance(a, ast.AugAssign) and isinstance(a.op, ast.Add) and isinstance(a.target, ast.Attribute) and a.target.attr in counters:
                        if not (isinstance(a.value, ast.Constant) and a.value.value == 1):
                            raise AnalysisError(rid, f"counter update `{ctx.src(a)}` is not += 1")
                        incs[a.target.attr] += 1
                if ok:
                    feas.append((end, cur, incs))
            if len(feas) != 1 or feas[0][0] != "next":
                raise AnalysisError(rid, f"cell (selected={selected}, state={state}) has {len(feas)} feasible iteration paths")
            _, final, incs = feas[0]
            okf = final == ("NOT_SUBMITTED" if selected else state)
            r.check(okf, f"cell selected={selected} state={state}: final state {final}", key_of(pf, f"reset cell selected={selected} {state} -> {final}"), pf.loc(lp),
                    f"a job with selected={selected} in state {state} is left in state {final}", "reruns exactly the jobs selected")
            for c in counters:
                if zero.get(c):
                    exp = 1 if want[c](final) else 0
                    r.check(incs[c] == exp, f"cell selected={selected} state={state}: {c} += {exp}", key_of(pf, f"{c} recount: selected={selected} state={state} counted {incs[c]}x"), pf.loc(lp),
                            f"a job with selected={selected} that is {state} before the reset ends {final} and is counted {incs[c]} time(s) in {c} (expected {exp})",
                            "completed equals the number of jobs marked done, submitted equals the number marked submitted or done")


@rule(P, "C09.8", "T11", "resubmission reset: both counters are recounted from the job states it leaves behind (finite abstraction selected x state)", min_obligations=6)
def c09_8(ctx, r):
    reset_recounts_from_states(ctx, r, "C09.8")


@rule(P, "C09.9", "T7", "a handle's config and job status are read in one hold of the cluster lock (a reader never mixes two generations)", min_obligations=2)
def c09_9(ctx, r):
    de = ctx.fn("Cluster.deserialize", "C09.9")
    inner = ctx.fn("Cluster._deserialize", "C09.9")
    ws = [s for s in ctx.cg.sites_in(de) if s.via_wrapper and inner.qual in s.wrapped]
    acq = [s for s in ctx.cg.sites_in(de) if "ACQUIRE_CLUSTER" in ctx.site_may(s)]
    r.check(len(ws) == 1 and len(acq) == 1, "Cluster.deserialize takes the lock once, around _deserialize", key_of(de, "snapshot read in several lock holds"), de.loc(),
            f"Cluster.deserialize acquires the cluster lock at {len(acq)} call sites ({[ctx.src(s.node.func) for s in acq]}): the config and the job status are read in separate holds, so a status reader "
            "can see counters of one generation with job states of the next (a submitter round may run in between)", "Whenever the status can be read (the cluster lock is free), completed <= submitted <= total ...")
    for s in ws:
        kw = {k.arg: ctx.src(k.value) for k in s.node.keywords}
        r.check(kw.get("deserialize_jobs") == "deserialize_jobs", "the deserialize_jobs request is forwarded into the locked function", key_of(de, "deserialize_jobs not forwarded"), s.loc,
                f"the wrapper call passes deserialize_jobs={kw.get('deserialize_jobs')}: the job status is not read inside the same hold")
    # inside the locked function the job status is read by the unlocked helper
    ds = [s for s in ctx.cg.sites_in(inner) if "ACQUIRE_CLUSTER" in ctx.site_may(s)]
    r.check(not ds, "_deserialize does not re-acquire the lock", key_of(inner, "nested acquire"), inner.loc(), f"_deserialize calls lock-taking functions: {[ctx.src(s.node.func) for s in ds]}")


@rule(P, "C09.10", "T3", "a Cluster method that changes job states / blockers / status fields in memory persists both files before it returns", min_obligations=3)
def c09_10(ctx, r):
    cl = ctx.cls("Cluster", "C09.10")
    n = 0
    for m in cl.methods.values():
        if m.name in ("__init__", "create", "_deserialize", "_deserialize_jobs", "deserialize", "_serialize", "_serialize_jobs"):
            continue
        if "serialize" in m.params:
            continue   # the caller decides (and serialises itself): Cluster.create / deserialize-with-promotion paths
        js_stores, cfg_stores = [], []
        for st in iter_own(m.node):
            tgts = st.targets if isinstance(st, ast.Assign) else [st.target] if isinstance(st, ast.AugAssign) else []
            for t in tgts:
                if isinstance(t, ast.Attribute):
                    rt = ctx.ty.expr_type(m, t.value)
                    if type_is(ctx, rt, "Job") or type_is(ctx, rt, "JobStatus"):
                        js_stores.append(st)
                    elif type_is(ctx, rt, "ClusterConfig") and t.attr != "version":
                        cfg_stores.append(st)
        if js_stores:
            n += 1
            r.check(ctx.must(m, "SERIALIZE_JOBS"), f"{m.short}: job status changes are serialised on every normal path", key_of(m, "job status changed but not serialised"), m.loc(js_stores[0]),
                    f"{m.short} changes job states / blockers / status fields (`{ctx.src(js_stores[0])[:50]}`) but does not reach _serialize_jobs() on every normal path: job_status.json keeps the old states while "
                    "cluster_config.json is updated - after a fault before the next status update the two files disagree for good (e.g. every job still 'done' on a submission re-opened for resubmission)",
                    "completed equals the number of jobs marked done ... / never leaves the submission with results erased and no way forward")
        if cfg_stores:
            n += 1
            r.check(ctx.must(m, "SERIALIZE_CONFIG"), f"{m.short}: config changes are serialised on every normal path", key_of(m, "config changed but not serialised"), m.loc(cfg_stores[0]),
                    f"{m.short} changes ClusterConfig fields (`{ctx.src(cfg_stores[0])[:50]}`) but does not reach _serialize() on every normal path")
    if n < 4:
        raise AnalysisError("C09.10", f"only {n} state-changing Cluster methods recognised")


@rule(P, "C09.11", "T1", "resubmission keeps the row of every job that stays done (every done job has a recorded result)", min_obligations=4)
def c09_11(ctx, r):
    from .c13 import c13_4

    c13_4(ctx, r)


@rule(P, "C09.12", "T8", "a job canceled by the submitter is counted completed in the same update (its result feeds the same pass)", min_obligations=5)
def c09_12(ctx, r):
    from .c04 import c04_4

    c04_4(ctx, r)


@rule(P, "C09.13", "T2", "a failure between the two file writes leaves the state unreadable (lock file re-created), never readable and half-updated", min_obligations=3)
def c09_13(ctx, r):
    """`whenever the status can be read` - after *any* exception under the cluster lock (an I/O error between the config write and the job-status
    write, not only a version mismatch) the wrapper re-creates the lock file before re-raising, so that no reader can take the lock and see
    counters ahead of (or behind) the job states."""
    from .c11 import c11_7

    c11_7(ctx, r)


@rule(P, "C09.14", "T6", "the job table is written only by the operations that keep the counters in step with it", min_obligations=4)
def c09_14(ctx, r):
    """job_status.json changes together with the counters in cluster_config.json: in the status update, in a batch's own completion, in the
    resubmission reset (all three update both under one hold) and in the explicit public serialize_jobs().  A write of the in-memory job table
    from anywhere else - the role release in a `finally`, say - persists whatever a failed round left half-applied (jobs set DONE by the
    cancel scan, blocker sets shrunk) without the counter updates that belong to it."""
    sj = ctx.fn("Cluster._serialize_jobs", "C09.14")
    allowed = {"Cluster._complete_hpc_job_id", "Cluster._prepare_for_resubmission", "Cluster._update_job_status", "Cluster.serialize_jobs", "Cluster.create"}
    n = 0
    for s in ctx.cg.call_sites_of(sj.qual):
        n += 1
        r.check(s.fn.short in allowed, f"{s.fn.short} may write the job table", key_of(s.fn, "writes job_status.json"), s.loc,
                f"{s.fn.short} writes the in-memory job table to job_status.json; only {sorted(allowed)} may (each of them updates the counters in the same hold): states and blocker sets a failed round changed in "
                "memory reach the disk without their counters", "completed equals the number of jobs marked done, submitted equals the number marked submitted or done")
    if n < 3:
        raise AnalysisError("C09.14", f"{n} callers of Cluster._serialize_jobs")
    pub = ctx.fn("Cluster.serialize_jobs", "C09.14")
    for s in ctx.cg.call_sites_of(pub.qual):
        r.check(s.fn.short in ("Cluster.create",), f"{s.fn.short} calls the public serialize_jobs", key_of(s.fn, "calls serialize_jobs"), s.loc, f"{s.fn.short} writes the job table through Cluster.serialize_jobs()",
                "completed equals the number of jobs marked done")

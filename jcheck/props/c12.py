"""C12 - every job is accounted for when batches fail, are killed or time out."""

import ast

from .. import AnalysisError
from ..cfg import ALL_KINDS, NORMAL_KINDS, iter_own
from ..lib import dominated_by, guard_forms, key_of, norm, render, return_conditions, type_is
from ..report import describe, rule

P = "C12"

describe(
    P,
    "Decides the accounting mechanisms: the forced-completion path exists and is guarded by 'no active HPC id'; missing jobs "
    "are computed as configured names minus result names and flow into results.json; a failed hand-off is never counted as "
    "an active batch (run() returns GOOD only on the scheduler's GOOD, and the queue records an entry only on GOOD); no "
    "result is fabricated: Result objects are constructed only from a real process exit status, by the two cancel sites, or "
    "by deserialising a stored row, and only those are appended; a submit response that does not parse is an ERROR.",
    ["C02 launch gate (a job waiting for a missing job is never started)", "C08/C11 (finished jobs keep their results)"],
    "which jobs are missing for a given kill time, and eventual completion (C05 liveness), are not decided.",
)


@rule(P, "C12.1", "T13", "the forced-completion path exists and is guarded by 'no active HPC ids'", min_obligations=3)
def c12_1(ctx, r):
    from .c05 import completion_decision

    completion_decision(ctx, r, "C12.1")


@rule(P, "C12.2", "T8", "missing jobs = configured minus finished, written to results.json", min_obligations=4)
def c12_2(ctx, r):
    from .c03 import missing_flow

    missing_flow(ctx, r, "C12.2")


@rule(P, "C12.3", "T1+T13", "a failed hand-off is never an active batch", min_obligations=4)
def c12_3(ctx, r):
    fn = ctx.fn("AsyncHpcSubmitter.run", "C12.3")
    cfg = ctx.cfg(fn)
    # roles: (JID, RES) = HpcManager.submit(...)
    JID = RES = None
    for n in cfg.nodes:
        if n.kind == "stmt" and isinstance(n.ast, ast.Assign) and isinstance(n.ast.targets[0], ast.Tuple) and isinstance(n.ast.value, ast.Call):
            s = ctx.cg.site_of(fn, n.ast.value)
            el = n.ast.targets[0].elts
            if s is not None and s.calls_short(ctx.ix, "HpcManager.submit") and len(el) == 2 and all(isinstance(e, ast.Name) for e in el):
                JID, RES = el[0].id, el[1].id
    r.check(RES is not None, "(job id, result) = HpcManager.submit(...)", key_of(fn, "unpack order"), fn.loc(), "the result of HpcManager.submit is not unpacked into two locals")
    if RES is None:
        return
    good = f"{RES}==Status.GOOD"
    goods = errs = 0
    for ret, conds, path in return_conditions(ctx, fn):
        txt = ctx.src(ret) if ret is not None else "None"
        mgr_good = any(p and f.replace(" ", "") == good for f, p in conds)
        if txt == "Status.GOOD":
            goods += 1
            r.check(mgr_good, "run() returns GOOD only if the manager's submit returned GOOD", key_of(fn, "GOOD without scheduler GOOD"), fn.loc(ret),
                    "AsyncHpcSubmitter.run reports GOOD although the hand-off failed: the batch counts as active with job id None, occupies a node slot and its jobs are never reported missing",
                    "If a batch fails to submit ... the affected jobs are reported as missing", conds=sorted(("" if p else "not ") + f for f, p in conds))
        else:
            errs += 1
            r.check(txt == "Status.ERROR" and not mgr_good, "the failure path returns ERROR", key_of(fn, f"returns {txt}"), fn.loc(ret) if ret is not None else fn.loc(), f"run() returns {txt} on a path where submit {'succeeded' if mgr_good else 'failed'}")
    if not goods or not errs:
        raise AnalysisError("C12.3", f"expected both outcomes of AsyncHpcSubmitter.run (GOOD x{goods}, ERROR x{errs})")
    # HpcManager.submit: (R, J, _) = intf.submit(file); the hand-off path returns (J, R)
    hm = ctx.fn("HpcManager.submit", "C12.3")
    unp = [n for n in iter_own(hm.node) if isinstance(n, ast.Assign) and isinstance(n.targets[0], ast.Tuple) and isinstance(n.value, ast.Call) and "HANDOFF" in ctx.site_effects(ctx.cg.site_of(hm, n.value))]
    oku = len(unp) == 1 and len(unp[0].targets[0].elts) == 3 and all(isinstance(e, ast.Name) for e in unp[0].targets[0].elts)
    r.check(oku, "(result, job_id, err) = intf.submit(filename)", key_of(hm, "interface unpack"), hm.loc(), "the interface's (result, job_id, err) triple is unpacked differently")
    if oku:
        R, J = unp[0].targets[0].elts[0].id, unp[0].targets[0].elts[1].id
        rets = [n for n in iter_own(hm.node) if isinstance(n, ast.Return)]
        okh = all(isinstance(x.value, ast.Tuple) and len(x.value.elts) == 2 for x in rets) and any(ctx.src(x.value).replace(" ", "") == f"({J},{R})" for x in rets)
        r.check(okh, "HpcManager.submit returns (job id, result)", key_of(hm, "return order"), hm.loc(), f"HpcManager.submit does not return ({J}, {R}) - the pair the caller unpacks as (job id, result)")
        sub = ctx.ix.find_func("SlurmManager.submit")
        rs = [n for n in iter_own(sub.node) if isinstance(n, ast.Return)]
        r.check(len(rs) == 1 and isinstance(rs[0].value, ast.Tuple) and len(rs[0].value.elts) == 3, "the interface returns a triple", key_of(sub, "triple"), sub.loc(), "SlurmManager.submit no longer returns (result, job_id, err)")
    # the round's own consistency assert compares placed jobs with counted jobs: the count is taken per batch built, whether
    # or not the scheduler accepted it (a count conditional on acceptance makes the assert fail exactly when an sbatch fails -
    # inside the marked region, so the marker stays and no later round can report the jobs missing)
    sbs = ctx.fn("HpcSubmitter._submit_batches", "C12.3")
    cfgb = ctx.cfg(sbs)
    for s3 in ctx.some_sites(sbs, "C12.3", short="HpcSubmitter._submit_batch"):
        for n3 in ctx.nodes_of(sbs, s3.node):
            g_call = {(f, p) for f, p in guard_forms(ctx, sbs, n3)}
            incs = [x for x in cfgb.nodes if x.kind == "stmt" and isinstance(x.ast, ast.AugAssign) and isinstance(x.ast.op, ast.Add) and "num_jobs" in ctx.src(x.ast.value)]
            if not incs:
                raise AnalysisError("C12.3", "_submit_batches: the per-batch job count was not recognised")
            for x in incs:
                extra = sorted(("" if p else "not ") + f for f, p in ({(f, p) for f, p in guard_forms(ctx, sbs, x)} - g_call))
                r.check(not extra, "the jobs of every constructed batch are counted, accepted by the scheduler or not", key_of(sbs, f"batch jobs counted only under {extra}"), sbs.loc(x.ast),
                        f"`{ctx.src(x.ast)}` is additionally guarded by {extra}: when an sbatch fails the count no longer matches the placed jobs and the round's own assert raises inside the marked region - "
                        "submitter.lock stays, every later try-submit-jobs refuses, the submission never completes and the affected jobs are never reported missing",
                        "If a batch fails to submit ... the affected jobs are reported as missing ... The submission still reaches completion")
    # the queue records only GOOD entries (C06.4)
    from .c06 import c06_4

    c06_4(ctx, r)
    # job id stored only on the GOOD path
    ids = [n for n in cfg.nodes if n.kind == "stmt" and isinstance(n.ast, ast.Assign) and ctx.src(n.ast.targets[0]) == "self._job_id"]
    for n in ids:
        forms = guard_forms(ctx, fn, n)
        r.check(any(p and f.replace(" ", "") == good for f, p in forms) and ctx.src(n.ast.value) == JID, "the scheduler id is stored only after a GOOD hand-off", key_of(fn, "job id store"), fn.loc(n.ast),
                "self._job_id is assigned on the failure path (or from another value than the id the manager returned)")


@rule(P, "C12.4", "T6+T8", "no fabricated result: Result is constructed only from a real exit status, by the cancel sites, or from a stored row", min_obligations=6)
def c12_4(ctx, r):
    res = ctx.cls("result.Result", "C12.4")
    allowed = {"AsyncCliCommand._complete", "AsyncCliCommand.cancel", "HpcSubmitter._cancel_job", "result.deserialize_result", "Result.__new__"}
    n = 0
    for fn in ctx.ix.all_functions():
        if fn.module.name.startswith(("jade.extensions.demo",)):
            continue
        for s in ctx.cg.sites_in(fn):
            if s.constructs != res.qual:
                continue
            n += 1
            r.check(fn.short in allowed, f"Result constructed in {fn.short}", key_of(fn, "constructs Result"), s.loc,
                    f"{fn.short} constructs a Result: a job gets an outcome that no process exit, cancel decision or stored row stands for",
                    "they are never given a fabricated result")
            if fn.short == "AsyncCliCommand._complete":
                rc = s.node.args[1] if len(s.node.args) > 1 else None
                cfg = ctx.cfg(fn)
                st = [x for x in cfg.nodes if x.kind == "stmt" and isinstance(x.ast, ast.Assign) and ctx.src(x.ast.targets[0]) == "self._return_code"]
                ok = rc is not None and ctx.src(rc) == "self._return_code" and len(st) == 1 and ctx.src(st[0].ast.value) == "self._pipe.returncode" and all(dominated_by(ctx, fn, cn, st) for cn in ctx.nodes_of(fn, s.node))
                r.check(ok, "a finished job's return code is the process's returncode", key_of(fn, "return code source"), s.loc,
                        f"the recorded return code is `{ctx.src(rc) if rc is not None else None}` <- {[ctx.src(x.ast) for x in st]}, not self._pipe.returncode", "its real exit status is recorded")
                stt = s.node.args[2] if len(s.node.args) > 2 else None
                okst = False
                if isinstance(stt, ast.Name):
                    for cn in ctx.nodes_of(fn, s.node):
                        ud = ctx.rd(fn).unique_def(cn, stt.id)
                        okst = ud is not None and ctx.src(ud[1]) == "JobCompletionStatus.FINISHED"
                r.check(okst or (stt is not None and ctx.src(stt) == "JobCompletionStatus.FINISHED"), "a finished job's status is FINISHED", key_of(fn, "status"), s.loc, "the status recorded by _complete is not FINISHED")
    if n < 4:
        raise AnalysisError("C12.4", f"only {n} Result constructions found")
    # appends: only those objects
    for short in ("ResultsAggregator.append", "ResultsAggregator.append_result"):
        f = ctx.fn(short, "C12.4")
        for s in ctx.callers_of(f):
            if s.fn.short in ("ResultsAggregator.append",):
                continue
            r.check(s.fn.short in allowed, f"{short} called from {s.fn.short}", key_of(s.fn, f"calls {short}"), s.loc, f"{s.fn.short} appends results")
            a = ctx.arg_for(s, f, "result")
            okv = False
            if isinstance(a, ast.Name):
                for cn in ctx.nodes_of(s.fn, s.node):
                    ud = ctx.rd(s.fn).unique_def(cn, a.id)
                    cs = ctx.cg.site_of(s.fn, ud[1]) if ud and isinstance(ud[1], ast.Call) else None
                    okv = cs is not None and cs.constructs == res.qual
            elif isinstance(a, ast.Call):
                cs = ctx.cg.site_of(s.fn, a)
                okv = cs is not None and cs.constructs == res.qual
            r.check(okv, f"{s.fn.short}: the appended object is the Result just constructed", key_of(s.fn, "appended object"), s.loc, f"{s.fn.short} appends `{ctx.src(a) if a is not None else None}`, not the Result it constructed")


@rule(P, "C12.5", "T13", "a failed or unparsable sbatch response is Status.ERROR", min_obligations=3)
def c12_5(ctx, r):
    from .c18 import submit_returns

    submit_returns(ctx, r, "C12.5")


@rule(P, "C12.6", "T2", "a round determines which batches are still active before it collects results (finished jobs keep their results)", min_obligations=2)
def c12_6(ctx, r):
    from .c05 import poll_before_collect

    poll_before_collect(ctx, r, "C12.6")


@rule(P, "C12.7", "T1", "the persisted active-batch list is rewritten whenever it changed", min_obligations=1)
def c12_7(ctx, r):
    from .c05 import ids_persisted_when_changed

    ids_persisted_when_changed(ctx, r, "C12.7")


@rule(P, "C12.8", "T9+T1", "the scheduler's answer is parsed conservatively and completely - also when it is empty (no batch left: the manual recovery case)", min_obligations=6)
def c12_8(ctx, r):
    from .c18 import c18_3

    c18_3(ctx, r)


@rule(P, "C12.9", "T8", "the persisted active list is replaced by the round's outstanding ids (ended batches leave it, so forced completion can fire)", min_obligations=6)
def c12_9(ctx, r):
    from .c06 import c06_5

    c06_5(ctx, r)


@rule(P, "C12.10", "T13", "the results sweep has no content-dependent refusal: a damaged node file cannot wedge every later round", min_obligations=4)
def c12_10(ctx, r):
    """Every submitter round runs the same sweep over the same node files, and completion (normal or forced) is only decided after it.  An
    explicit `raise` in the sweep that depends on what a file contains (a header check, a row-count check) fires again in every later round -
    the file is still there - so no round ever reaches the completion decision.  What a killed node leaves behind (an empty file, a file with
    only a header) must be read as 'no rows'.  Decided: the functions the sweep runs (ResultsAggregator.process_results and what it calls
    inside the class) contain no raise statement other than the re-raise of the lock timeout, and no assert on file content."""
    cls = ctx.cls("ResultsAggregator", "C12.10")
    start = ctx.fn("ResultsAggregator.process_results", "C12.10")
    seen, todo = set(), [start]
    while todo:
        f = todo.pop()
        if f.qual in seen:
            continue
        seen.add(f.qual)
        for s in ctx.cg.sites_in(f):
            for q in s.targets():
                g = ctx.ix.functions.get(q)
                if g is not None and g.cls is not None and g.cls.name in ("ResultsAggregator",) and g.qual not in seen:
                    todo.append(g)
        for q in [m.qual for m in cls.methods.values() if any(isinstance(a, ast.Attribute) and a.attr == m.name and isinstance(a.ctx, ast.Load) for a in ast.walk(f.node))]:
            if q not in seen:
                todo.append(ctx.ix.functions[q])
    if len(seen) < 4:
        raise AnalysisError("C12.10", f"the sweep reaches only {sorted(seen)}")
    for q in sorted(seen):
        f = ctx.ix.functions[q]
        bad = []
        for n in iter_own(f.node):
            if isinstance(n, ast.Raise) and n.exc is not None:
                bad.append(n)
            if isinstance(n, ast.Assert) and any(isinstance(x, ast.Name) and x.id not in f.params for x in ast.walk(n.test)):
                bad.append(n)
        r.check(not bad, f"{f.short} has no content-dependent refusal", key_of(f, "refusal in the sweep: " + (ctx.src(bad[0]).split("(")[0] if bad else "")), f.loc(bad[0]) if bad else f.loc(f.node),
                f"`{ctx.src(bad[0])[:120] if bad else ''}` in {f.short}: the sweep every round starts with can now refuse a file; the file stays, so every later round stops at the same point and the submission "
                "never reaches completion, forced or not", "reaches completion ... regardless of lost batches")


@rule(P, "C12.11", "T13", "the all-done test looks at every job: jobs that can never be submitted (a dependency cycle) keep the submission open for forced completion", min_obligations=2)
def c12_11(ctx, r):
    """Scanning only the jobs that reached a batch makes `all done` true with never-submitted jobs left; the consistency assertion that follows
    then fires under the cluster lock, the round dies with its marker in place, and the submission never completes - the cycle's jobs are
    never reported missing."""
    from .c03 import c03_4

    c03_4(ctx, r)

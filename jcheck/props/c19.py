"""C19 - jobs are launched exactly as configured and their real exit status is recorded."""

import ast

from .. import AnalysisError
from ..cfg import ALL_KINDS, NORMAL_KINDS, iter_own
from ..lib import collections_from, comp_norm, inlined_expr, only_return, stmts_after, attr_stores, dominated_by, guard_forms, key_of, norm, render, type_is
from ..report import describe, rule

P = "C19"

describe(
    P,
    "Decides the value-flow chains of the launch: argv of the one Popen that starts a job is shlex.split(<the command stored "
    "at construction>) with POSIX rules off only on Windows and never shell=True; the stored command is what the "
    "extension's generate_command returned for that job; the environment is a copy of os.environ plus JADE_RUNTIME_OUTPUT "
    "and JADE_JOB_NAME = the job's name; stdout/stderr go to files named after the job; the Result carries the job's name, "
    "the process's returncode and the HPC job id obtained from the interface; --jade-job-name / --jade-runtime-output are "
    "appended exactly under append_job_name / append_output_dir.",
    ["shlex.split implements POSIX shell splitting", "Popen.returncode is the real exit status"],
    "quoting fidelity over a character alphabet and exit codes as values (0-255) are input-quantified and not decided.",
)

ACC = "AsyncCliCommand"




def inlined_src(ctx, fn, expr, node):
    """Source of `expr` with single-definition locals inlined (blanks kept)."""
    from ..lib import inline_locals

    return ast.unparse(inline_locals(ctx, fn, expr, node))


def _defines(ctx, fn, col, call):
    """loop form: the object appended is the local bound to `call` in the same loop body."""
    st = col["at"]
    if col["form"] != "loop":
        return False
    names = {x.id for x in ast.walk(st) if isinstance(x, ast.Name)}
    stc = ctx.stmt_of(fn, call)
    return isinstance(stc, ast.Assign) and isinstance(stc.targets[0], ast.Name) and stc.targets[0].id in names and ctx.enclosing(fn, stc, (ast.For,))[:1] == ctx.enclosing(fn, st, (ast.For,))[:1]


@rule(P, "C19.1", "T8", "argv = shlex.split(<stored command>); the stored command is generate_command(job, ...)", min_obligations=6)
def c19_1(ctx, r):
    run = ctx.fn(f"{ACC}.run", "C19.1")
    launches = [s for s in ctx.cg.sites_in(run) if "LAUNCH" in ctx.site_effects(s)]
    r.check(len(launches) == 1 and launches[0].external == "subprocess.Popen", "exactly one process launch in run(): subprocess.Popen", key_of(run, "launch count"), run.loc(),
            f"run() launches {[s.external for s in launches]}", "never starts a job's command more than once")
    if not launches:
        return
    s = launches[0]
    for n in ctx.nodes_of(run, s.node):
        r.check(not ctx.cfg(run).in_loop(n) and not [f for f, p in guard_forms(ctx, run, n) if "_pipe" not in f], "the launch is unconditional and not in a loop", key_of(run, "launch shape"), s.loc, "Popen is conditional / in a loop")
        a0 = s.node.args[0] if s.node.args else None
        ok = False
        detail = None
        if isinstance(a0, ast.Name):
            ud = ctx.rd(run).unique_def(n, a0.id)
            if ud and isinstance(ud[1], ast.Call):
                detail = ctx.src(ud[1])
                c = ud[1]
                kw = {k.arg: ctx.src(k.value) for k in c.keywords}
                ok = ctx.src(c.func) == "shlex.split" and len(c.args) == 1 and ctx.src(c.args[0]) == "self._cli_cmd" and kw.get("posix", "True").replace('"', "'") in ("True", "'win' not in sys.platform")
        r.check(ok, "argv = shlex.split(self._cli_cmd, posix=<not Windows>)", key_of(run, "argv source"), s.loc, f"argv is `{detail or (ctx.src(a0) if a0 is not None else None)}`",
                "executed as the configured command split with POSIX shell rules", argv=detail)
        kws = {k.arg: ctx.src(k.value) for k in s.node.keywords}
        r.check(kws.get("shell", "False") == "False" and None not in kws, "no shell=True, no **kwargs", key_of(run, "shell"), s.loc, f"Popen keywords {kws}: the command is interpreted by a shell", "split with POSIX shell rules")
    # pipe asserted unused before (started at most once per object)
    okp = any(isinstance(x, ast.Assert) and ctx.src(x.test) == "self._pipe is None" for x in run.node.body[:3])
    r.check(okp, "run() asserts the object has not been started", key_of(run, "assert not started"), run.loc(), "run() no longer asserts self._pipe is None", "never starts a job's command more than once")
    init = ctx.fn(f"{ACC}.__init__", "C19.1")
    for f2, node, attr, t, kind in attr_stores(ctx, {"_cli_cmd"}):
        st = ctx.stmt_of(f2, node)
        r.check(f2 is init and isinstance(st, ast.Assign) and ctx.src(st.value) == "cmd", "_cli_cmd = constructor argument, never changed", key_of(f2, "writes _cli_cmd"), f2.loc(node), f"{f2.short}: `{ctx.src(st)[:50]}`")
    gj = ctx.fn("JobRunner._generate_jobs", "C19.1")
    for s2 in [x for x in ctx.cg.sites_in(gj) if (x.constructs or "").endswith(ACC)]:
        job = ctx.arg_for(s2, init, "job")
        cmd = ctx.arg_for(s2, init, "cmd")
        if isinstance(cmd, ast.Name):
            for n in ctx.nodes_of(gj, s2.node):
                cmd = ctx.guards(gj).expand(cmd, n)
        okc = isinstance(cmd, ast.Call) and isinstance(cmd.func, ast.Attribute) and cmd.func.attr == "generate_command" and cmd.args and ctx.src(cmd.args[0]) == ctx.src(job)
        r.check(okc, "the command stored is generate_command(<the same job>, ...)", key_of(gj, "command source"), s2.loc, f"cmd=`{ctx.src(cmd)[:60] if cmd is not None else None}` for job=`{ctx.src(job) if job is not None else None}`",
                "Each job is executed as the configured command")
        def batch_jobs(e):
            site = ctx.cg.site_of(gj, e) if isinstance(e, ast.Call) else None
            return site is not None and site.calls_short(ctx.ix, "JobConfiguration.iter_jobs") and not e.args and not e.keywords and render(ctx, gj, e.func.value) == "<JobRunner._config>"

        cols = [c for c in collections_from(ctx, gj, batch_jobs) if c["var"] == ctx.src(job)]
        inside = [c for c in cols if any(x is s2.node for x in ast.walk(c["at"])) or _defines(ctx, gj, c, s2.node)]
        okl = bool(inside) and all(not c["conds"] for c in inside)
        r.check(okl, "one AsyncCliCommand per configured job of the batch, unconditionally", key_of(gj, "job loop"), s2.loc, "the jobs started are not exactly the batch config's jobs (the construction is not in an unfiltered loop / comprehension over self._config.iter_jobs())",
                "Each job is executed as the configured command")
        recv = cmd.func.value if isinstance(cmd, ast.Call) and isinstance(cmd.func, ast.Attribute) else None
        if isinstance(recv, ast.Name):
            for n in ctx.nodes_of(gj, s2.node):
                recv = ctx.guards(gj).expand(recv, n)
        oke = isinstance(recv, ast.Call) and isinstance(recv.func, ast.Attribute) and recv.func.attr == "job_execution_class" and render(ctx, gj, recv.func.value) == "<JobRunner._config>" and len(recv.args) == 1 and ctx.src(recv.args[0]) == f"{ctx.src(job)}.extension"
        r.check(oke, "the execution class is the job's extension's", key_of(gj, "extension"), s2.loc, f"generate_command is taken from `{ctx.src(recv) if recv is not None else None}`, not from the execution class of this job's extension")
    # a commands file is one command per line, lines ending at "\n" only (str.splitlines also splits at \x0b, \x0c, \x1c-\x1e,
    # \x85, U+2028/9, which may occur inside a quoted argument)
    gi = ctx.fn("GenericCommandInputs.__init__", "C19.1")
    sl = [c for c in iter_own(gi.node) if isinstance(c, ast.Call) and isinstance(c.func, ast.Attribute) and c.func.attr == "splitlines"]
    r.check(not sl, "the commands file is split at newlines only", key_of(gi, "commands split with splitlines()"), gi.loc(sl[0]) if sl else gi.loc(),
            "the commands file is cut with str.splitlines(): a command whose quoted argument contains a vertical tab, form feed, NEL or a Unicode line separator becomes several jobs with unbalanced quotes",
            "Each job is executed as the configured command")
    lines_ok = any(isinstance(n, ast.For) and (ctx.src(n.iter).endswith(".readlines()") or (isinstance(n.iter, ast.Name)) or ctx.src(n.iter).endswith('.split("\\n")') or ctx.src(n.iter).endswith(".split('\\n')")) for n in iter_own(gi.node))
    r.check(lines_ok, "one job per line of the file", key_of(gi, "line loop"), gi.loc(), "GenericCommandInputs no longer iterates the lines of the commands file")
    ge = ctx.fn("GenericCommandExecution.generate_command", "C19.1")
    first = [x for x in ge.node.body if isinstance(x, ast.Assign)]
    gret = [x for x in iter_own(ge.node) if isinstance(x, ast.Return) and isinstance(x.value, ast.Name)]
    CMD = gret[-1].value.id if gret else None
    r.check(bool(first) and CMD is not None and ctx.src(first[0]) == f"{CMD} = job.command", "generic_command: the command starts as job.command", key_of(ge, "base command"), ge.loc(), "generate_command does not start from job.command")
    rets = [x for x in iter_own(ge.node) if isinstance(x, ast.Return)]
    r.check(len(rets) == 1 and CMD is not None and ctx.src(rets[0].value) == CMD, "and that string is returned", key_of(ge, "return"), ge.loc(), "generate_command returns something else")
    cp = ctx.fn("GenericCommandParameters.command", "C19.1")
    # a wrapper command replaces the configured one only when its feature is switched on
    for n in ctx.cfg(cp).nodes:
        if n.kind == "stmt" and isinstance(n.ast, ast.Return) and isinstance(n.ast.value, ast.JoinedStr):
            lit = "".join(v.value for v in n.ast.value.values if isinstance(v, ast.Constant))
            forms = guard_forms(ctx, cp, n)
            if "run-spark-cluster" in lit:
                ok = any(p and "enabled" in f and " or " not in f for f, p in forms)
                r.check(ok, "the Spark wrapper is used only when spark_config.enabled", key_of(cp, "spark wrapper although disabled"), cp.loc(n.ast),
                        f"the job is launched as `{lit.strip()} ...` under {sorted(('' if p else 'not ') + f for f, p in forms)}, without spark_config.enabled having tested true: a job that merely carries a (disabled) "
                        "spark_config block is not executed as its configured command", "Each job is executed as the configured command")
            elif "run-multi-node-job" in lit:
                ok = any(p and "use_multi_node_manager" in f for f, p in forms)
                r.check(ok, "the multi-node wrapper is used only when use_multi_node_manager", key_of(cp, "multi-node wrapper"), cp.loc(n.ast), f"the multi-node wrapper is used under {sorted(f for f, p in forms)}")
    last = sorted([x for x in iter_own(cp.node) if isinstance(x, ast.Return)], key=lambda x: x.lineno)[-1]
    r.check(ctx.src(last.value) == "self._model.command", "a plain job's command is the configured string, unmodified", key_of(cp, "plain command"), cp.loc(), f"command property returns `{ctx.src(last.value)}` for a plain job")


@rule(P, "C19.2", "T8", "env = os.environ.copy() + JADE_RUNTIME_OUTPUT + JADE_JOB_NAME", min_obligations=4)
def c19_2(ctx, r):
    run = ctx.fn(f"{ACC}.run", "C19.2")
    cfg = ctx.cfg(run)
    s = [x for x in ctx.cg.sites_in(run) if "LAUNCH" in ctx.site_effects(x)][0]
    env = next((k.value for k in s.node.keywords if k.arg == "env"), None)
    if not isinstance(env, ast.Name):
        r.bad(key_of(run, "env"), s.loc, "Popen is not given env=<local>", "with JADE_RUNTIME_OUTPUT and JADE_JOB_NAME set")
        return
    for n in ctx.nodes_of(run, s.node):
        ud = ctx.rd(run).unique_def(n, env.id)
        r.check(ud is not None and ctx.src(ud[1]) == "os.environ.copy()", "env starts as a copy of os.environ", key_of(run, "env base"), s.loc, f"env = {ctx.src(ud[1]) if ud else None}")
        want = {"JADE_RUNTIME_OUTPUT": "str(self._output)", "JADE_JOB_NAME": "self.name"}
        for key, val in want.items():
            st = [x for x in cfg.nodes if x.kind == "stmt" and isinstance(x.ast, ast.Assign) and ctx.src(x.ast.targets[0]).replace("'", '"') == f'{env.id}["{key}"]']
            ok = len(st) == 1 and ctx.src(st[0].ast.value) == val and dominated_by(ctx, run, n, st)
            r.check(ok, f"{key} = {val}, set before the launch", key_of(run, f"env {key}"), s.loc, f"{key} is set by {[ctx.src(x.ast) for x in st]}", "with JADE_RUNTIME_OUTPUT and JADE_JOB_NAME set")
    nm = ctx.fn(f"{ACC}.name", "C19.2")
    from ..lib import _single_return

    r.check(ctx.src(_single_return(nm)) == "self._job.name", "AsyncCliCommand.name = the job's name", key_of(nm, "name"), nm.loc(), "AsyncCliCommand.name changed")


@rule(P, "C19.3", "T8", "stdout / stderr go to files named after the job", min_obligations=4)
def c19_3(ctx, r):
    run = ctx.fn(f"{ACC}.run", "C19.3")
    s = [x for x in ctx.cg.sites_in(run) if "LAUNCH" in ctx.site_effects(x)][0]
    kws = {k.arg: k.value for k in s.node.keywords}
    for stream, ext, attr in (("stdout", "o", "self._stdout_fp"), ("stderr", "e", "self._stderr_fp")):
        v = kws.get(stream)
        r.check(v is not None and ctx.src(v) == attr, f"{stream} = {attr}", key_of(run, f"{stream} target"), s.loc, f"{stream}={ctx.src(v) if v is not None else None}", "with its own stdout/stderr files")
        st = [x for x in iter_own(run.node) if isinstance(x, ast.Assign) and ctx.src(x.targets[0]) == attr]
        ok = len(st) == 1 and isinstance(st[0].value, ast.Call) and ctx.src(st[0].value.func) == "open" and ctx.src(st[0].value.args[1]).strip("'\"") == "w"
        fname = ctx.src(st[0].value.args[0]) if ok else None
        fdef = [x for x in iter_own(run.node) if isinstance(x, ast.Assign) and ctx.src(x.targets[0]) == fname] if fname else []
        okn = len(fdef) == 1 and ctx.src(fdef[0].value).replace('"', "'") == f"self._output / JOBS_STDIO_DIR / f'{{self._job.name}}.{ext}'"
        r.check(ok and okn, f"{attr} = open(<output>/job-stdio/<job name>.{ext}, 'w')", key_of(run, f"{stream} file"), s.loc, f"{attr} <- {ctx.src(fdef[0].value) if fdef else fname}", "with its own stdout/stderr files")


@rule(P, "C19.4", "T8", "Result(name = job name, return code = process returncode, hpc_job_id = the node's job id)", min_obligations=5)
def c19_4(ctx, r):
    cp = ctx.fn(f"{ACC}._complete", "C19.4")
    res = ctx.cls("result.Result")
    sites = [s for s in ctx.cg.sites_in(cp) if s.constructs == res.qual]
    if len(sites) != 1:
        raise AnalysisError("C19.4", f"expected one Result construction in _complete, found {len(sites)}")
    s = sites[0]
    new = res.methods["__new__"]

    def arg(name):
        v = ctx.arg_for(s, new, name)
        return ctx.src(inlined_expr(ctx, cp, v)) if v is not None else None

    r.check(arg("name") == "self._job.name", "Result.name = self._job.name", key_of(cp, "result name"), s.loc, f"name = {arg('name')}", "carries the job's name")
    r.check(arg("return_code") == "self._return_code", "Result.return_code = self._return_code", key_of(cp, "result rc"), s.loc, f"return_code = {arg('return_code')}", "its real exit code")
    r.check(arg("hpc_job_id") == "self._hpc_job_id", "Result.hpc_job_id = self._hpc_job_id", key_of(cp, "result hpc id"), s.loc, f"hpc_job_id = {arg('hpc_job_id')} (completion_time = {arg('completion_time')})", "the HPC job id of the node that ran it")
    r.check(arg("completion_time") in (None, "None"), "completion_time is left to default to now", key_of(cp, "result completion time"), s.loc, f"completion_time = {arg('completion_time')}")
    st = [x for x in iter_own(cp.node) if isinstance(x, ast.Assign) and ctx.src(x.targets[0]) == "self._return_code"]
    r.check(len(st) == 1 and ctx.src(st[0].value) == "self._pipe.returncode", "_return_code = self._pipe.returncode", key_of(cp, "rc source"), cp.loc(), f"_return_code <- {[ctx.src(x.value) for x in st]}", "its real exit code")
    ap = ctx.some_sites(cp, "C19.4", short="ResultsAggregator.append")
    for s2 in ap:
        kw2 = {k.arg: ctx.src(k.value) for k in s2.node.keywords}
        args = [ctx.src(x) for x in s2.node.args]
        # the row written is the Result constructed in this function (role, not spelling)
        okres = False
        if len(s2.node.args) >= 2:
            from ..lib import is_value_of

            for n9 in ctx.nodes_of(cp, s2.node):
                okres = is_value_of(ctx, cp, s2.node.args[1], n9, s.node)
        r.check(args[:1] == ["self._output"] and okres and kw2.get("batch_id") == "self._batch_id", "the row goes to this batch's node file of this output directory", key_of(cp, "append target"), s2.loc, f"append({args}, {kw2})")
    # _hpc_job_id <- constructor <- intf.get_current_job_id()
    init = ctx.fn(f"{ACC}.__init__", "C19.4")
    for f2, node, attr, t, kind in attr_stores(ctx, {"_hpc_job_id"}):
        if f2.cls is not None and f2.cls.name == ACC:
            stt = ctx.stmt_of(f2, node)
            r.check(f2 is init and ctx.src(stt.value) == "hpc_job_id", "_hpc_job_id = constructor argument", key_of(f2, "writes _hpc_job_id"), f2.loc(node), f"`{ctx.src(stt)[:50]}`")
    gj = ctx.fn("JobRunner._generate_jobs", "C19.4")
    for s2 in [x for x in ctx.cg.sites_in(gj) if (x.constructs or "").endswith(ACC)]:
        h = ctx.arg_for(s2, init, "hpc_job_id")
        h = inlined_expr(ctx, gj, h) if h is not None else None
        r.check(h is not None and ctx.src(h) == "self._intf.get_current_job_id()", "hpc_job_id = the interface's current job id", key_of(gj, "hpc id source"), s2.loc, f"hpc_job_id={ctx.src(h) if h is not None else None}")
        b = ctx.arg_for(s2, init, "batch_id")
        r.check(b is not None and ctx.src(b) == "self._batch_id", "batch_id = the runner's batch", key_of(gj, "batch id"), s2.loc, f"batch_id={ctx.src(b) if b is not None else None}")
        o = ctx.arg_for(s2, init, "output")
        r.check(o is not None and ctx.src(o) == "self._output", "output = the runner's output directory", key_of(gj, "output"), s2.loc, f"output={ctx.src(o) if o is not None else None}")
    sm = ctx.fn("SlurmManager.get_current_job_id", "C19.4")
    r.check("SLURM_JOB_ID" in ctx.src(sm.node), "SLURM: the id is $SLURM_JOB_ID", key_of(sm, "env var"), sm.loc(), "get_current_job_id no longer reads SLURM_JOB_ID")
    # serialisation order of a row = Result._fields (writer and reader agree)
    ra = ctx.fn("ResultsAggregator.append_result", "C19.4")
    okrow = any(isinstance(c, (ast.ListComp, ast.GeneratorExp)) and comp_norm(c) in (f"[str(getattr({ra.params[-1]},_))for_inself._get_fields()]", f"(str(getattr({ra.params[-1]},_))for_inself._get_fields())") for c in iter_own(ra.node))
    r.check(okrow, "a row lists the Result fields in declaration order", key_of(ra, "row order"), ra.loc(), "append_result no longer serialises Result._fields in order")
    gr = ctx.fn("ResultsAggregator._get_results", "C19.4")
    import re as _re

    gsrc = ctx.src(gr.node).replace('"', "'")
    r.check("csv.DictReader" in gsrc and bool(_re.search(r"(\w+)\['return_code'\] = int\(\1\['return_code'\]\)", gsrc)), "rows are read back by header name; return_code as int", key_of(gr, "reader"), gr.loc(), "_get_results changed its parsing")


@rule(P, "C19.5", "T1", "--jade-job-name / --jade-runtime-output are appended exactly under append_job_name / append_output_dir", min_obligations=4)
def c19_5(ctx, r):
    ge = ctx.fn("GenericCommandExecution.generate_command", "C19.5")
    cfg = ctx.cfg(ge)
    pairs = {"--jade-job-name=": ("append_job_name", ("{job.name}",)), "--jade-runtime-output=": ("append_output_dir", ("{os.path.dirname(output)}",))}
    seen = set()
    gret5 = [x for x in iter_own(ge.node) if isinstance(x, ast.Return) and isinstance(x.value, ast.Name)]
    CMD5 = gret5[-1].value.id if gret5 else None
    for n in cfg.nodes:
        if n.kind == "stmt" and isinstance(n.ast, ast.AugAssign) and CMD5 and ctx.src(n.ast.target) == CMD5:
            t = inlined_src(ctx, ge, n.ast.value, n)
            for opt, (flag, val) in pairs.items():
                if opt in t:
                    seen.add(opt)
                    forms = {(f, p) for f, p in guard_forms(ctx, ge, n) if "self." not in f}
                    want = {(f"<GenericCommandParameters.{flag}>", True), (f"job.{flag}", True)}
                    r.check(bool(forms & want) and len({f for f, p in forms if f.startswith("<")} | {f for f, p in forms if not f.startswith("<")}) <= 2, f"{opt} appended iff job.{flag}", key_of(ge, f"{opt} guard"), ge.loc(n.ast),
                            f"{opt} is appended under {sorted(('' if p else 'not ') + f for f, p in forms)}", "plus the documented --jade-job-name and --jade-runtime-output arguments when requested")
                    r.check(any(f" {opt}{v}" in t for v in val), f"{opt}<value> with a separating space", key_of(ge, f"{opt} text"), ge.loc(n.ast), f"appended text is {t}")
    for opt in pairs:
        if opt not in seen:
            r.bad(key_of(ge, f"{opt} missing"), ge.loc(), f"generate_command never appends {opt}", "plus the documented --jade-job-name and --jade-runtime-output arguments when requested")
    od = []
    inline = any("--jade-runtime-output={os.path.dirname(output)}" in inlined_src(ctx, ge, n.ast.value, n) for n in cfg.nodes if n.kind == "stmt" and isinstance(n.ast, ast.AugAssign))
    r.check(inline, "runtime output = parent of the job-outputs directory", key_of(ge, "output_dir"), ge.loc(), f"output_dir = {[ctx.src(x.value) for x in od]}")
    gj = ctx.fn("JobRunner._generate_jobs", "C19.5")
    okj = "self._jobs_output" in ctx.src(gj.node)
    r.check(okj, "generate_command receives the runner's job-outputs directory", key_of(gj, "jobs output"), gj.loc(), "generate_command is not given self._jobs_output")


@rule(P, "C19.6", "T6", "only the job object reaps its process: the resource monitor observes job processes, it never waits for / signals them", min_obligations=1)
def c19_6(ctx, r):
    """psutil.Process.wait() on a child reaps it; the later Popen.poll() in AsyncCliCommand.is_complete() then gets
    ECHILD and reports return code 0 - the recorded exit status is no longer the real one."""
    forbidden = {"wait", "kill", "terminate", "send_signal", "suspend", "resume"}
    n = 0
    for f in ctx.ix.functions.values():
        if not f.module.name.endswith("resource_monitor"):
            continue
        n += 1
        for c in iter_own(f.node):
            if isinstance(c, ast.Call) and isinstance(c.func, ast.Attribute) and c.func.attr in forbidden:
                r.bad(key_of(f, f"monitor calls .{c.func.attr}()"), f.loc(c),
                      f"`{ctx.src(c)}` in the resource monitor waits for / signals a monitored process: job processes are children of the runner, so this consumes the exit status that AsyncCliCommand.is_complete() "
                      "reads with Popen.poll() - the job is then recorded with return code 0 whatever it exited with", "The recorded result carries ... its real exit code")
            if isinstance(c, ast.Call) and ctx.src(c.func) in ("os.wait", "os.waitpid", "os.wait3", "os.wait4", "os.kill"):
                r.bad(key_of(f, f"monitor calls {ctx.src(c.func)}"), f.loc(c), f"`{ctx.src(c)}` in the resource monitor reaps / signals a process", "its real exit code")
    if n < 5:
        raise AnalysisError("C19.6", f"only {n} functions found in jade.resource_monitor")
    r.ok(f"{n} functions of jade.resource_monitor contain no wait / signal call")
    # positive example (the rule's pattern does match real code): the owner polls its own pipe
    own = ctx.fn("AsyncCliCommand.is_complete", "C19.6")
    r.check(any(isinstance(c, ast.Call) and isinstance(c.func, ast.Attribute) and c.func.attr == "poll" and ctx.src(c.func.value) == "self._pipe" for c in iter_own(own.node)), "AsyncCliCommand.is_complete polls its own pipe",
            key_of(own, "poll"), own.loc(), "AsyncCliCommand.is_complete no longer reads the exit status with self._pipe.poll()")


@rule(P, "C19.7", "T3", "a recorded row ends with a newline: the next result starts its own row (name, exit code and HPC id are not glued to a neighbour)", min_obligations=3)
def c19_7(ctx, r):
    from .c08 import rows_newline_terminated

    rows_newline_terminated(ctx, r, "C19.7")


@rule(P, "C19.8", "T8", "a commands file reaches the jobs unchanged: each line is the command (outer blanks stripped only) and the per-job options travel from the CLI to every job", min_obligations=6)
def c19_8(ctx, r):
    """`jade config create <commands file>`: (1) the command of a job is its line with leading / trailing whitespace removed - nothing that looks
    *inside* the line (split / join / replace / regex), which would change quoted blanks and tabs the POSIX split must preserve;
    (2) each documented per-job option of the command (-a/--append-output-dir, --append-job-name, ...) is handed by the CLI function to the
    auto_config parameter of the same name, and auto_config stores that parameter into the attribute of the same name of every job."""
    gi = ctx.fn("GenericCommandInputs.__init__", "C19.8")
    n = 0
    for s in ctx.cg.sites_in(gi):
        if not (s.constructs or "").endswith("GenericCommandParameters"):
            continue
        n += 1
        v = next((k.value for k in s.node.keywords if k.arg == "command"), None)
        loops = ctx.enclosing(gi, s.node, (ast.For,))
        lv = loops[-1].target.id if loops and isinstance(loops[-1].target, ast.Name) else None
        e = v
        seen = 0
        # follow `line = line.strip()` style rebindings of the loop variable inside the loop body
        chain = []
        while e is not None and seen < 6:
            seen += 1
            if isinstance(e, ast.Call) and isinstance(e.func, ast.Attribute) and e.func.attr in ("strip", "rstrip", "lstrip") and all(isinstance(a, ast.Constant) for a in e.args):
                chain.append(e.func.attr)
                e = e.func.value
                continue
            if isinstance(e, ast.Name) and e.id != lv or (isinstance(e, ast.Name) and e.id == lv and chain == []):
                defs = [x.value for x in ast.walk(loops[-1]) if isinstance(x, ast.Assign) and len(x.targets) == 1 and isinstance(x.targets[0], ast.Name) and x.targets[0].id == e.id] if loops else []
                if len(defs) == 1 and not (isinstance(defs[0], ast.Name) and defs[0].id == e.id):
                    e = defs[0]
                    continue
            break
        ok = isinstance(e, ast.Name) and e.id == lv
        r.check(ok, "the job's command is the line, outer whitespace stripped", key_of(gi, "command derived from the line by more than strip()"), s.loc,
                f"the command is built as `{ctx.src(v) if v is not None else None}` (reaching `{ctx.src(e) if e is not None else None}`), not the line with only outer whitespace removed: blanks and tabs inside quotes are "
                "rewritten before the POSIX split, so the process receives other arguments than the configured ones", "launched as the configured command split with POSIX rules")
    if n != 1:
        raise AnalysisError("C19.8", f"{n} GenericCommandParameters constructions in GenericCommandInputs.__init__")
    ac = ctx.fn("GenericCommandConfiguration.auto_config", "C19.8")
    cr = ctx.fn("config.create", "C19.8")
    opts = [p for p in ac.params[2:] if p in cr.params]
    if len(opts) < 3:
        raise AnalysisError("C19.8", f"per-job options shared by `jade config create` and auto_config: {opts}")
    sites = ctx.some_sites(cr, "C19.8", short="GenericCommandConfiguration.auto_config")
    for s in sites:
        for p in opts:
            a = ctx.arg_for(s, ac, p)
            r.check(isinstance(a, ast.Name) and a.id == p, f"`jade config create` hands {p} to auto_config({p}=...)", key_of(cr, f"option {p} not forwarded"), s.loc,
                    f"auto_config receives {p}={ctx.src(a) if a is not None else 'nothing'} from `jade config create`: the user's --{p.replace('_', '-')} is silently dropped (auto_config swallows unknown keywords) "
                    "and every job runs without it", "plus the documented appended arguments")
    for p in opts:
        st = [x for x in iter_own(ac.node) if isinstance(x, ast.Assign) and isinstance(x.value, ast.Name) and x.value.id == p and any(isinstance(t, ast.Attribute) for t in x.targets)]
        same = [x for x in iter_own(ac.node) if isinstance(x, ast.Assign) and any(isinstance(t, ast.Attribute) and t.attr == p for t in x.targets)]
        ok = len(st) == 1 and not guard_forms(ctx, ac, ctx.nodes_of(ac, st[0])[0]) and all(x is st[0] for x in same)
        r.check(ok, f"auto_config stores {p} into every job", key_of(ac, f"job option {p} source"), ac.loc(st[0]) if st else ac.loc(ac.node),
                f"auto_config does not store its parameter `{p}` into an attribute of every job exactly once (or job.{p} is set from something else)", "plus the documented appended arguments")


@rule(P, "C19.9", "T4", "whoever changes the process working directory restores it on every exit, the exception exit included", min_obligations=1)
def c19_9(ctx, r):
    """Jobs are launched (local mode) and scripts are resolved relative to the directory `jade submit-jobs` was started in.  The submitter changes
    directory only in RepositoryInfo._run_command (git commands run inside the package checkout).  If the restoring chdir is not in a `finally`,
    a failing git command leaves the process inside the checkout; a caller that tolerates the failure then launches every job from there:
    relative script paths fail and the recorded exit code is not the job's."""
    n = 0
    for fn in ctx.ix.functions.values():
        if "extensions/demo" in fn.module.relpath:
            continue
        ch = [c for c in iter_own(fn.node) if isinstance(c, ast.Call) and ctx.src(c.func) in ("os.chdir", "chdir")]
        if not ch:
            continue
        n += 1
        saved = {t.id for x in iter_own(fn.node) if isinstance(x, ast.Assign) and isinstance(x.value, ast.Call) and ctx.src(x.value.func) in ("os.getcwd", "getcwd", "Path.cwd") for t in x.targets if isinstance(t, ast.Name)}
        restores = [c for c in ch if c.args and isinstance(c.args[0], ast.Name) and c.args[0].id in saved]
        changes = [c for c in ch if c not in restores]
        if not changes:
            continue
        ok = bool(restores)
        for c in changes:
            st = ctx.stmt_of(fn, c)
            rest = stmts_after(ctx, fn, st)
            # the next statement that can raise must be a try whose finally restores
            nxt = next((x for x in rest if not (isinstance(x, ast.Assign) and isinstance(x.value, (ast.Constant, ast.Dict, ast.List, ast.Tuple, ast.Name)))), None)
            okc = isinstance(nxt, ast.Try) and any(any(c2 is x for x in ast.walk(f)) for f in nxt.finalbody for c2 in restores)
            ok = ok and okc
        r.check(ok, f"{fn.short}: the directory change is undone in a finally", key_of(fn, "working directory not restored on the exception path"), fn.loc(changes[0]),
                f"{fn.short} changes the working directory and does not restore it in a `finally` that covers everything after the change: when a statement in between raises, the process stays in the other "
                "directory - jobs launched afterwards run from there, relative paths in their commands no longer resolve and the recorded exit codes are not the jobs' own", "launched as the configured command")
    if n < 1:
        raise AnalysisError("C19.9", "no function changes the working directory any more (rule is moot: remove it)")


@rule(P, "C19.10", "T9", "a stored result row comes back with the fields it was written with (name, return code, hpc job id)", min_obligations=8)
def c19_10(ctx, r):
    from .c13 import result_round_trip

    result_round_trip(ctx, r, "C19.10")


@rule(P, "C19.11", "X0", "the HPC job id recorded with a result is the allocation's own id (SLURM_JOB_ID)", min_obligations=1)
def c19_11(ctx, r):
    """`hpc_job_id = the HPC job id of the node that ran it`: under SLURM that is $SLURM_JOB_ID of the batch allocation.  Inside a task of a job
    array SLURM also exports SLURM_ARRAY_JOB_ID - the id *shared* by all tasks of the array; preferring it makes every row of every such batch
    carry the same foreign id.  (The meaning of the variables is SLURM's contract, taken as an assumption.)"""
    fn = ctx.fn("SlurmManager.get_current_job_id", "C19.11")
    rv = only_return(ctx, fn)
    txt = ctx.src(rv).replace("'", '"').replace(" ", "") if rv is not None else ""
    vars_ = sorted({c.value for c in ast.walk(rv) if isinstance(c, ast.Constant) and isinstance(c.value, str) and c.value.startswith("SLURM_")}) if rv is not None else []
    r.check(vars_ == ["SLURM_JOB_ID"] and "os.environ" in txt, "get_current_job_id reads SLURM_JOB_ID and nothing else", key_of(fn, f"job id from {vars_}"), fn.loc(fn.node),
            f"SlurmManager.get_current_job_id returns `{ctx.src(rv) if rv is not None else None}` (variables {vars_}): not $SLURM_JOB_ID alone - in an array task the shared array id is recorded instead of the "
            "allocation's own id", "the HPC job id of the node that ran it")

"""C16 - setup / teardown commands run exactly once, at the right time."""

import ast

from .. import AnalysisError
from ..cfg import ALL_KINDS, NORMAL_KINDS, iter_own
from ..lib import (
    always_followed_by,
    dominated_by,
    enclosing_loops,
    guard_forms,
    key_of,
    render,
    type_is,
)
from ..report import describe, rule
from .common import DEPRECATED_HOOKS, HOOK_FIELDS, RUN_CMD, command_arg, expand_cmd, expand_cmd_deep, hook_sites, run_command_sites

P = "C16"

describe(
    P,
    "Decides the structural clauses of C16 on all paths of JobSubmitter.submit_jobs, JobSubmitter._handle_completion "
    "and JobRunner.run_jobs: each lifecycle hook is a run_command/check_run_command call whose command is the configured "
    "field; setup is guarded by the new-submission flag and precedes every call that may hand a batch off or launch a job; "
    "teardown is control-dependent only on being configured, follows the results summary and precedes mark_complete; node "
    "hooks bracket _run_jobs; none sits in a loop; each passes env = os.environ.copy() + documented keys; and every "
    "attribute read on the JobConfiguration receiver in those functions resolves to a member (an unresolved read is an "
    "AttributeError at run time on exactly the paths where a hook is configured)."
    " The values of the documented variables are the submission's output directory and the name of the group of this batch's jobs.",
    [
        "run_command / check_run_command execute their argument once per call (retry loop is C18.5)",
        "JobConfiguration subclasses add members only through class bodies and self.x stores",
    ],
    "'exactly once' over racing completions (rests on C05/C10); what the user command does; teardown failing.",
)


def _cfg_nodes(ctx, fn, site):
    return ctx.nodes_of(fn, site.node)


def _none_edges(ctx, fn, fields):
    """Edges on which a hook is *not configured* / not applicable: (src id, dst id) set."""
    cfg = ctx.cfg(fn)
    out = set()
    for n in cfg.nodes:
        for d, k, c in n.succ:
            if k in ("T", "F") and c is not None:
                from ..lib import norm

                form, pol = norm(ctx, fn, c, n, pol=(k == "T"))
                for f in fields:
                    if form == f"<JobConfiguration.{f}> is None" and pol is True:
                        out.add((n.id, d.id))
                    if form == f"<JobConfiguration.{f}>" and pol is False:
                        out.add((n.id, d.id))
                if "<JobSubmitter._is_new>" == form and pol is False:
                    out.add((n.id, d.id))
    return out


def _reach_without(ctx, fn, start, blocked_nodes, blocked_edges, kinds, from_succ=False):
    cfg = ctx.cfg(fn)
    blocked = {n.id for n in blocked_nodes}
    seen = set()
    stack = [start] if not from_succ else []
    if from_succ:
        for d, k, _ in start.succ:
            if k in kinds and (start.id, d.id) not in blocked_edges:
                stack.append(d)
    while stack:
        n = stack.pop()
        if n.id in seen:
            continue
        seen.add(n.id)
        if n.id in blocked:
            continue
        for d, k, _ in n.succ:
            if k in kinds and (n.id, d.id) not in blocked_edges:
                stack.append(d)
    return seen


def _find_hook(ctx, r, fn, field, rule_id, required=True):
    hs = hook_sites(ctx, fn, field)
    if not hs:
        # moved elsewhere? then the shape changed (UNKNOWN); gone everywhere -> the hook never runs
        elsewhere = []
        for f2 in ctx.ix.all_functions():
            if f2 is fn:
                continue
            if any(ctx.sites(f2, short=list(RUN_CMD))):
                if hook_sites(ctx, f2, field):
                    elsewhere.append(f2.short)
        if elsewhere:
            raise AnalysisError(rule_id, f"hook for {field} moved from {fn.short} to {elsewhere}: rule anchors need review")
        if required:
            r.bad(
                key_of(fn, f"HOOK({field}) missing"),
                fn.loc(),
                f"no run_command/check_run_command call for JobConfiguration.{field} anywhere: the configured command never runs",
            )
        return []
    return hs


@rule(P, "C16.1", "T1+T2", "setup hook: only for a new submission, before any hand-off or launch", min_obligations=4)
def c16_1(ctx, r):
    fn = ctx.fn("JobSubmitter.submit_jobs", "C16.1")
    hs = _find_hook(ctx, r, fn, "setup_command", "C16.1")
    if not hs:
        return
    cfg = ctx.cfg(fn)
    none_edges = _none_edges(ctx, fn, ["setup_command"])
    hook_nodes = []
    for s, reads, guarded in hs:
        r.check(
            reads,
            "setup hook runs the configured command",
            key_of(fn, "HOOK(setup) command"),
            s.loc,
            f"hook guarded by setup_command runs `{ctx.src(command_arg(ctx, s))}` which does not read JobConfiguration.setup_command",
            cmd=ctx.src(command_arg(ctx, s)),
        )
        for n in _cfg_nodes(ctx, fn, s):
            hook_nodes.append(n)
            forms = guard_forms(ctx, fn, n)
            r.check(
                ("<JobSubmitter._is_new>", True) in forms,
                "HOOK(setup) is dominated by self._is_new",
                key_of(fn, "HOOK(setup) guard _is_new"),
                s.loc,
                "setup command is not guarded by the new-submission flag: it reruns on every try-submit-jobs / resubmit round",
                guards=sorted(("" if p else "not ") + f for f, p in forms),
            )
            r.check(
                not cfg.in_loop(n),
                "HOOK(setup) is not inside a loop",
                key_of(fn, "HOOK(setup) in loop"),
                s.loc,
                "setup command call lies on a cycle of the control-flow graph (may run more than once)",
            )
    # BEFORE: every path to a node that may hand off / launch passes the hook, or an edge on which
    # the hook does not apply (not new / not configured)
    targets = []
    for eff in ("HANDOFF", "LAUNCH"):
        targets += ctx.nodes_with_effect(fn, eff)
    targets = {n.id: n for n in targets if n.id not in {h.id for h in hook_nodes}}
    if not targets:
        raise AnalysisError("C16.1", "no call reaching HANDOFF/LAUNCH in submit_jobs")
    seen = _reach_without(ctx, fn, cfg.entry, hook_nodes, none_edges, ALL_KINDS)
    for n in targets.values():
        r.check(
            n.id not in seen,
            "HOOK(setup) precedes the call that may hand off / launch",
            key_of(fn, f"HOOK(setup) before {ctx.src(n.stmt)[:50]}"),
            fn.loc(n.stmt),
            "a path reaches a hand-off / job launch with setup configured on a new submission without having run the setup command",
            target=ctx.src(n.stmt)[:80],
        )


@rule(P, "C16.1b", "T6+T8", "the new-submission flag is True only in JobSubmitter.create", min_obligations=3)
def c16_1b(ctx, r):
    cls = ctx.cls("JobSubmitter", "C16.1b")
    init = ctx.ix.lookup_method(cls, "__init__")
    if init is None or "is_new" not in init.params:
        raise AnalysisError("C16.1b", "JobSubmitter.__init__ has no is_new parameter")
    from ..lib import attr_stores

    for fn, node, attr, t, kind in attr_stores(ctx, {"_is_new"}):
        if not type_is(ctx, t, "JobSubmitter") and t is not None:
            continue
        st = ctx.stmt_of(fn, node)
        ok = fn is init and isinstance(st, ast.Assign) and isinstance(st.value, ast.Name) and st.value.id == "is_new"
        r.check(
            ok,
            "_is_new is stored only from the constructor parameter",
            key_of(fn, f"store _is_new = {ctx.src(st.value) if isinstance(st, ast.Assign) else kind}"),
            fn.loc(node),
            "the new-submission flag is written outside the constructor / not from its parameter (setup may rerun or never run)",
        )
    # constructor calls
    n_true = 0
    for s in ctx.callers_of(init):
        if s.constructs is None and not (isinstance(s.node.func, ast.Name) and s.node.func.id == "cls"):
            continue
        if s.fn.cls is None or not any(c.name == "JobSubmitter" for c in ctx.ix.mro(s.fn.cls)):
            if not s.constructs:
                continue
        arg = ctx.arg_for(s, init, "is_new")
        val = arg.value if isinstance(arg, ast.Constant) else None
        if s.fn.short == "JobSubmitter.create":
            r.check(val is True, "create() constructs with is_new=True", key_of(s.fn, "cls(..., is_new)"), s.loc,
                    f"JobSubmitter.create constructs with is_new={ctx.src(arg) if arg is not None else None}: setup never runs")
            n_true += 1
        else:
            r.check(val is False, f"{s.fn.short} constructs with is_new=False", key_of(s.fn, "cls(..., is_new)"), s.loc,
                    f"{s.fn.short} constructs a JobSubmitter with is_new={ctx.src(arg) if arg is not None else None}: setup reruns for an existing submission")
    if n_true == 0:
        raise AnalysisError("C16.1b", "constructor call in JobSubmitter.create not found")


@rule(P, "C16.2", "T1+T2", "teardown hook: inside completion, unconditional on results, after the summary, before mark_complete", min_obligations=4)
def c16_2(ctx, r):
    fn = ctx.fn("JobSubmitter._handle_completion", "C16.2")
    hs = _find_hook(ctx, r, fn, "teardown_command", "C16.2")
    if not hs:
        return
    cfg = ctx.cfg(fn)
    none_edges = _none_edges(ctx, fn, ["teardown_command"])
    hook_nodes = []
    for s, reads, guarded in hs:
        r.check(reads, "teardown hook runs the configured command", key_of(fn, "HOOK(teardown) command"), s.loc,
                f"hook guarded by teardown_command runs `{ctx.src(command_arg(ctx, s))}` which does not read JobConfiguration.teardown_command")
        for n in _cfg_nodes(ctx, fn, s):
            hook_nodes.append(n)
            forms = {(f, p) for f, p in guard_forms(ctx, fn, n) if "<" in f or "call:" in f or True}
            foreign = sorted(
                ("" if p else "not ") + f
                for f, p in forms
                if "teardown_command" not in f
            )
            r.check(
                not foreign,
                "HOOK(teardown) is control-dependent only on being configured",
                key_of(fn, "HOOK(teardown) extra guard"),
                s.loc,
                f"teardown command is additionally guarded by {foreign}: it does not run 'whether jobs passed or failed'",
                guards=sorted(("" if p else "not ") + f for f, p in forms),
            )
            r.check(not cfg.in_loop(n), "HOOK(teardown) is not inside a loop", key_of(fn, "HOOK(teardown) in loop"), s.loc,
                    "teardown command call lies on a cycle (may run more than once per completion)")
    # after SUMMARY_WRITE
    sw = ctx.nodes_with_effect(fn, "SUMMARY_WRITE")
    if not sw:
        raise AnalysisError("C16.2", "no write_results_summary call in _handle_completion")
    for h in hook_nodes:
        r.check(dominated_by(ctx, fn, h, sw), "SUMMARY_WRITE precedes HOOK(teardown)", key_of(fn, "summary before teardown"),
                fn.loc(h.stmt), "teardown can run before the results summary was written (not 'after every job has an outcome' is recorded)")
    # before mark_complete: every path to mark_complete passes the hook or the not-configured edge
    mc = [n for s in ctx.sites(fn, short="Cluster.mark_complete") for n in _cfg_nodes(ctx, fn, s)]
    if not mc:
        raise AnalysisError("C16.2", "no cluster.mark_complete() call in _handle_completion")
    seen = _reach_without(ctx, fn, cfg.entry, hook_nodes, none_edges, NORMAL_KINDS)
    for n in mc:
        r.check(n.id not in seen, "HOOK(teardown) precedes mark_complete", key_of(fn, "teardown before mark_complete"),
                fn.loc(n.stmt), "the completion flag can be set with teardown configured but not yet run")


@rule(P, "C16.3", "T2", "node hooks bracket the queue run, once per batch", min_obligations=6)
def c16_3(ctx, r):
    fn = ctx.fn("JobRunner.run_jobs", "C16.3")
    cfg = ctx.cfg(fn)
    run = [n for s in ctx.sites(fn, short="JobRunner._run_jobs") for n in _cfg_nodes(ctx, fn, s)]
    if len(run) != 1:
        raise AnalysisError("C16.3", f"expected one _run_jobs call in JobRunner.run_jobs, found {len(run)}")
    run = run[0]
    r.check(not cfg.in_loop(run), "_run_jobs is not inside a loop", key_of(fn, "_run_jobs in loop"), fn.loc(run.stmt),
            "the queue run lies on a cycle")
    for field, when in (("node_setup_command", "before"), ("node_teardown_command", "after")):
        hs = _find_hook(ctx, r, fn, field, "C16.3")
        if not hs:
            continue
        dep = DEPRECATED_HOOKS[field]
        none_edges = _none_edges(ctx, fn, [field])
        # deprecated per-group script alternative: its own call sites also count as "the hook ran"
        alt_nodes = []
        for s in run_command_sites(ctx, fn):
            e, _ = expand_cmd_deep(ctx, fn, s)
            if e is not None and f"<SubmitterParams.{dep}>" in render(ctx, fn, e):
                alt_nodes += _cfg_nodes(ctx, fn, s)
        hook_nodes = []
        for s, reads, guarded in hs:
            r.check(
                reads,
                f"HOOK({field}) runs the configured command",
                key_of(fn, f"HOOK({field}) command"),
                s.loc,
                f"the call guarded by {field} runs `{ctx.src(command_arg(ctx, s))}`, which does not read JobConfiguration.{field}",
                clause="node setup/teardown command runs ... and configuring them never prevents the batch's results from being recorded",
                cmd=ctx.src(command_arg(ctx, s)),
            )
            for n in _cfg_nodes(ctx, fn, s):
                hook_nodes.append(n)
                r.check(not cfg.in_loop(n), f"HOOK({field}) is not inside a loop", key_of(fn, f"HOOK({field}) in loop"), s.loc,
                        f"{field} call lies on a cycle (more than once per batch)")
        allh = hook_nodes + alt_nodes
        if when == "before":
            seen = _reach_without(ctx, fn, cfg.entry, allh, none_edges, ALL_KINDS)
            r.check(run.id not in seen, "HOOK(node_setup) precedes _run_jobs", key_of(fn, "node_setup before _run_jobs"),
                    fn.loc(run.stmt), "jobs of the batch can start with node_setup_command configured but not run")
            for h in hook_nodes:
                r.check(run.id in _reach_without(ctx, fn, h, [], set(), NORMAL_KINDS, from_succ=True), "HOOK(node_setup) is before, not after, the queue run",
                        key_of(fn, "node_setup order"), fn.loc(h.stmt), "node setup hook cannot reach _run_jobs: it runs after the jobs")
        else:
            seen = _reach_without(ctx, fn, run, allh, none_edges, NORMAL_KINDS, from_succ=True)
            r.check(cfg.exit.id not in seen, "HOOK(node_teardown) follows _run_jobs on every normal path", key_of(fn, "node_teardown after _run_jobs"),
                    fn.loc(run.stmt), "a normal path from the queue run to the function exit skips the configured node teardown command")
            for h in hook_nodes:
                r.check(dominated_by(ctx, fn, h, [run]), "HOOK(node_teardown) is after the queue run", key_of(fn, "node_teardown order"),
                        fn.loc(h.stmt), "node teardown hook is reachable without the queue run having happened")


@rule(P, "C16.4", "T8", "hooks receive os.environ.copy() plus the documented variables", min_obligations=4)
def c16_4(ctx, r):
    want = {
        "JobSubmitter.submit_jobs": ("setup_command", {"JADE_RUNTIME_OUTPUT"}),
        "JobSubmitter._handle_completion": ("teardown_command", {"JADE_RUNTIME_OUTPUT"}),
        "JobRunner.run_jobs": (None, {"JADE_RUNTIME_OUTPUT", "JADE_SUBMISSION_GROUP"}),
    }
    for spec, (field, keys) in want.items():
        fn = ctx.fn(spec, "C16.4")
        fields = [field] if field else ["node_setup_command", "node_teardown_command"]
        for fld in fields:
            for s, reads, guarded in hook_sites(ctx, fn, fld):
                envkw = [k.value for k in s.node.keywords if k.arg == "env"]
                if not envkw or not isinstance(envkw[0], ast.Name):
                    r.bad(key_of(fn, f"HOOK({fld}) env="), s.loc, f"hook for {fld} is not passed env=<local built from os.environ.copy()>")
                    continue
                var = envkw[0].id
                for n in _cfg_nodes(ctx, fn, s):
                    ud = ctx.rd(fn).unique_def(n, var)
                    base_ok = False
                    if ud is not None and isinstance(ud[1], ast.Call):
                        base_ok = render(ctx, fn, ud[1]).startswith("os.environ.copy(")
                    r.check(base_ok, f"env of HOOK({fld}) starts from os.environ.copy()", key_of(fn, f"HOOK({fld}) env base"), s.loc,
                            f"env passed to the {fld} hook is not a copy of os.environ")
                    # documented keys stored on every path before the call
                    for key in sorted(keys):
                        stores = []
                        for cn in ctx.cfg(fn).nodes:
                            a = cn.ast
                            if cn.kind == "stmt" and isinstance(a, ast.Assign):
                                for t in a.targets:
                                    if (
                                        isinstance(t, ast.Subscript)
                                        and isinstance(t.value, ast.Name)
                                        and t.value.id == var
                                        and isinstance(t.slice, ast.Constant)
                                        and t.slice.value == key
                                    ):
                                        stores.append(cn)
                        r.check(
                            bool(stores) and dominated_by(ctx, fn, n, stores),
                            f"{key} is set in env before HOOK({fld})",
                            key_of(fn, f"HOOK({fld}) env[{key}]"),
                            s.loc,
                            f"documented variable {key} is not set on every path before the {fld} hook runs",
                        )
                        for cn in stores:
                            v = cn.ast.value
                            if key == "JADE_RUNTIME_OUTPUT":
                                okv = render(ctx, fn, v) in (f"str(<{fn.cls.name}._output>)", f"<{fn.cls.name}._output>")
                                what = "the submission's output directory"
                            else:
                                recv = v.value if isinstance(v, ast.Attribute) and v.attr == "name" else None
                                if isinstance(recv, ast.Name):
                                    recv = ctx.guards(fn).expand(recv, cn)
                                site = ctx.cg.site_of(fn, recv) if isinstance(recv, ast.Call) else None
                                okv = site is not None and site.calls_short(ctx.ix, "JobConfiguration.get_default_submission_group") and render(ctx, fn, recv.func.value) == f"<{fn.cls.name}._config>"
                                what = "the name of the group of this batch's jobs (get_default_submission_group() of the batch config, which lists every group)"
                            r.check(okv, f"{key} = {what.split(' (')[0]}", key_of(fn, f"env[{key}] value"), fn.loc(cn.ast),
                                    f"`{ctx.src(cn.ast)}`: {key} is not {what}", "with the documented environment variables")


@rule(P, "C16.5", "T12", "every attribute read on the JobConfiguration receiver in the hook functions resolves", min_obligations=15)
def c16_5(ctx, r):
    base = ctx.cls("JobConfiguration", "C16.5")
    members = set()
    for c in ctx.ix.subclasses(base):
        members |= ctx.ix.class_members(c)
    for spec in ("JobSubmitter.submit_jobs", "JobSubmitter._handle_completion", "JobRunner.run_jobs"):
        fn = ctx.fn(spec, "C16.5")
        for n in iter_own(fn.node):
            if isinstance(n, ast.Attribute) and isinstance(n.ctx, ast.Load):
                t = ctx.ty.expr_type(fn, n.value)
                if type_is(ctx, t, "JobConfiguration"):
                    r.check(
                        n.attr in members,
                        f"{fn.short}: .{n.attr} resolves on JobConfiguration",
                        key_of(fn, f"read {ctx.src(n)}"),
                        fn.loc(n),
                        f"`{ctx.src(n)}`: no JobConfiguration class defines `{n.attr}` - AttributeError on this path (the hook / the rest of the round never runs)",
                        clause="node teardown command runs after all jobs ended ... configuring them never prevents the batch's results from being recorded",
                        attr=n.attr,
                    )


@rule(P, "C16.5b", "T16", "every local read in the hook functions is bound on every path that reaches the read", min_obligations=3)
def c16_5b(ctx, r):
    from ..lib import possibly_unbound

    for spec in ("JobSubmitter.submit_jobs", "JobSubmitter._handle_completion", "JobRunner.run_jobs", "JobRunner._run_jobs"):
        fn = ctx.fn(spec, "C16.5b")
        hits = possibly_unbound(ctx, fn)
        for n, sub in hits:
            r.bad(key_of(fn, f"possibly unbound local {sub.id}"), fn.loc(sub),
                  f"`{sub.id}` is read at `{ctx.src(n.stmt)[:60]}` but a path reaches this statement without binding it (UnboundLocalError): after the batch's jobs ran, the exception aborts run_jobs, "
                  "so the results of the batch are not collected and the node never triggers the next round",
                  "configuring them never prevents the batch's results from being recorded")
        if not hits:
            r.ok(f"{fn.short}: all local reads are definitely assigned")


@rule(P, "C16.6", "T1", "the completion step (with teardown) cannot run on an already complete submission", min_obligations=3)
def c16_6(ctx, r):
    from .c05 import c05_4, c05_5

    c05_4(ctx, r)
    c05_5(ctx, r)


@rule(P, "C16.7", "T9", "the lifecycle-command accessors agree: each setter stores the attribute its getter reads", min_obligations=4)
def c16_7(ctx, r):
    from ..lib import property_setter_mismatches

    base = ctx.cls("JobConfiguration", "C16.7")
    n, bad = property_setter_mismatches(ctx, ctx.ix.subclasses(base))
    for c, name, ga, sa, st in bad:
        r.bad(key_of(st, f"setter of {name} stores {sa}"), st.loc(), f"{c.name}.{name}: the getter returns self.{ga} but the setter stores self.{sa}: a command assigned through the property is lost "
              f"(and lands in `{sa}`, i.e. runs at another time / place)", "The setup command runs once on the submitting host ... the teardown command runs exactly once ...")
    for _ in range(n - len(bad)):
        r.ok("getter/setter pair agrees")
    if n < 4:
        raise AnalysisError("C16.7", f"only {n} plain getter/setter pairs found in the JobConfiguration hierarchy (4 lifecycle commands expected)")


def queue_accounting(ctx, r, rid):
    """JobQueue.wait() asserts _num_completed == _num_jobs after the last entry ended.  Every entry that becomes
    outstanding after construction must therefore be counted where it is inserted - otherwise the assertion fails
    after all jobs ran and run_jobs leaves by exception before the node teardown command and before try-submit-jobs."""
    jq = ctx.cls("JobQueue", rid)
    n = 0
    for m in jq.methods.values():
        if m.name == "__init__":
            continue
        for st in iter_own(m.node):
            if isinstance(st, ast.Assign) and isinstance(st.targets[0], ast.Subscript) and ctx.src(st.targets[0].value) == "self._outstanding_jobs":
                n += 1
                par = ctx.parents(m).get(id(st))
                blk = next((getattr(par, f) for f in ("body", "orelse", "finalbody") if isinstance(getattr(par, f, None), list) and st in getattr(par, f)), [])
                inc = [x for x in blk if isinstance(x, ast.AugAssign) and isinstance(x.op, ast.Add) and ctx.src(x.target) == "self._num_jobs" and ctx.src(x.value) == "1"]
                r.check(len(inc) == 1, f"{m.short}: an entry that becomes outstanding is counted once in _num_jobs", key_of(m, "outstanding entry not counted"), m.loc(st),
                        f"`{ctx.src(st)}` is paired with {len(inc)} increments of self._num_jobs in its block: JobQueue.wait() ends in `assert _num_completed == _num_jobs`, which then fails after every job "
                        "of the batch has ended - run_jobs is left by that exception before the node teardown command runs (and before the node triggers try-submit-jobs)",
                        "the node teardown command after all of them ended")
    w = jq.methods.get("wait")
    has_assert = w is not None and any(isinstance(x, ast.Assert) and "_num_completed" in ctx.src(x.test) and "_num_jobs" in ctx.src(x.test) for x in iter_own(w.node))
    if not has_assert:
        r.note("JobQueue.wait() no longer asserts the completed/started balance: the pairing is then only bookkeeping")
    if n < 2:
        raise AnalysisError(rid, f"only {n} insertions into _outstanding_jobs found outside __init__ (start and cancel expected)")


@rule(P, "C16.8", "T3", "the node queue's started/completed balance holds, so wait() returns and the node teardown hook is reached", min_obligations=2)
def c16_8(ctx, r):
    queue_accounting(ctx, r, "C16.8")


@rule(P, "C16.9", "T8+T6", "a failing teardown hook is logged, never raised or turned into the batch's status (results are still recorded, completion still marked)", min_obligations=3)
def c16_9(ctx, r):
    # (1) the status JobRunner.run_jobs hands back is the queue run's and nothing else's: the CLI triggers try-submit-jobs only on GOOD
    fn = ctx.fn("JobRunner.run_jobs", "C16.9")
    cfg = ctx.cfg(fn)
    rets = [n for n in cfg.nodes if n.kind == "stmt" and isinstance(n.ast, ast.Return) and isinstance(n.ast.value, ast.Name)]
    if not rets:
        raise AnalysisError("C16.9", "JobRunner.run_jobs does not return a local status")
    RES = rets[-1].ast.value.id
    defs = [n for n in cfg.nodes if n.kind == "stmt" and isinstance(n.ast, (ast.Assign, ast.AugAssign)) and any(isinstance(t, ast.Name) and t.id == RES for t in (n.ast.targets if isinstance(n.ast, ast.Assign) else [n.ast.target]))]
    for n in defs:
        site = ctx.cg.site_of(fn, n.ast.value) if isinstance(n.ast.value, ast.Call) else None
        r.check(site is not None and site.calls_short(ctx.ix, "JobRunner._run_jobs"), "the batch status is what the queue run returned", key_of(fn, f"batch status set by `{ctx.src(n.ast)[:40]}`"), fn.loc(n.ast),
                f"`{ctx.src(n.ast)}` changes the status run_jobs returns: `jade-internal run-jobs` starts try-submit-jobs only for GOOD, so e.g. a failing node teardown command leaves the batch's result file uncollected "
                "(and, for the last batch, the submission never completes)", "configuring them never prevents the batch's results from being recorded")
    if not defs:
        raise AnalysisError("C16.9", "no definition of the returned status found")
    # (2) teardown hooks go through run_command (returns the exit code), not check_run_command (raises on non-zero)
    for spec, fld in (("JobSubmitter._handle_completion", "teardown_command"), ("JobRunner.run_jobs", "node_teardown_command")):
        f2 = ctx.fn(spec, "C16.9")
        hs = hook_sites(ctx, f2, fld)
        if not hs:
            raise AnalysisError("C16.9", f"hook for {fld} not found in {spec}")
        for s, reads, guarded in hs:
            raising = s.calls_short(ctx.ix, "run_command.check_run_command")
            r.check(not raising, f"{fld} runs through run_command (exit code is logged)", key_of(f2, f"HOOK({fld}) raises on failure"), s.loc,
                    f"`{ctx.src(s.node)[:60]}` raises when the {fld} exits non-zero: " + ("the exception leaves _handle_completion before cluster.mark_complete(), so the flag is never set and every later try-submit-jobs runs the teardown again"
                    if fld == "teardown_command" else "the exception leaves run_jobs before its status is returned: the node never triggers try-submit-jobs"), "the teardown command runs exactly once each time the submission completes ... before the completion flag is set, whether jobs passed or failed")


@rule(P, "C16.10", "T8", "the completion path reaches the teardown also when jobs are missing: what is written just before it is well-formed", min_obligations=4)
def c16_10(ctx, r):
    """Teardown follows write_results_summary() in _handle_completion.  With missing jobs that writer json-dumps the missing list; if the list is
    not a list (an unsorted set) the dump raises and the teardown command never runs - on every later round as well."""
    from .c03 import missing_flow

    missing_flow(ctx, r, "C16.10")


@rule(P, "C16.11", "T8", "the node commands reach the compute node: every form of the serialised configuration carries the four lifecycle commands, and batches are cut from the full form", min_obligations=5)
def c16_11(ctx, r):
    """Compute nodes read node_setup_command / node_teardown_command from config_batch_<n>.json, which HpcSubmitter cuts from
    `config.serialize()`.  Decided: JobConfiguration.serialize() stores the four commands unconditionally (whatever the `include` option), and
    HpcSubmitter.__init__ takes its base from serialize() with the default option."""
    sz = ctx.fn("JobConfiguration.serialize", "C16.11")
    cfg = ctx.cfg(sz)
    keys = ("setup_command", "teardown_command", "node_setup_command", "node_teardown_command")
    for k in keys:
        where = []
        for n in cfg.nodes:
            if n.kind != "stmt":
                continue
            a = n.ast
            if isinstance(a, ast.Assign) and isinstance(a.value, ast.Dict) and any(isinstance(kk, ast.Constant) and kk.value == k for kk in a.value.keys):
                where.append(n)
            if isinstance(a, ast.Assign) and any(isinstance(t, ast.Subscript) and isinstance(t.slice, ast.Constant) and t.slice.value == k for t in a.targets):
                where.append(n)
        ok = bool(where) and any(not guard_forms(ctx, sz, n) for n in where)
        r.check(ok, f"serialize() always carries {k}", key_of(sz, f"{k} serialised conditionally"), sz.loc(where[0].ast) if where else sz.loc(sz.node),
                f"JobConfiguration.serialize() stores '{k}' only under {sorted(f for n in where for f, p in guard_forms(ctx, sz, n))} (or not at all): a configuration serialised with another option - the per-batch "
                "configs, say - loses the command, and the nodes silently skip it", "on each node the node setup command runs before any job of the batch starts")
    init = ctx.fn("HpcSubmitter.__init__", "C16.11")
    st = [x for x in iter_own(init.node) if isinstance(x, ast.Assign) and any(isinstance(t, ast.Attribute) and t.attr == "_base_config" for t in x.targets)]
    ok = len(st) == 1 and isinstance(st[0].value, ast.Call) and isinstance(st[0].value.func, ast.Attribute) and st[0].value.func.attr == "serialize" and not st[0].value.args and not st[0].value.keywords
    r.check(ok, "batch configs are cut from config.serialize() (default form)", key_of(init, "batch base config form"), init.loc(st[0]) if st else init.loc(init.node),
            f"HpcSubmitter builds its per-batch base from `{ctx.src(st[0].value) if st else None}`, not the default serialize(): fields of the configuration (the node commands among them) can be missing in every "
            "config_batch_<n>.json", "with the documented environment variables ... on each node")


@rule(P, "C16.12", "T10", "the obsolete per-node scripts shadow the node commands only when they are really set (non-empty): both sides test the same way", min_obligations=2)
def c16_12(ctx, r):
    """JobRunner.run_jobs: `if <legacy script>: run it  elif <node command> is not None: run the command`.  Submitter parameters are usually
    written in TOML, which has no null - an unused option is written as "".  The legacy branch must therefore be taken on *truthiness*; a test
    `is not None` treats "" as a script, builds the command " <config> <output>", tries to execute the configuration file and kills the node
    before (setup) or after (teardown) the jobs, and the configured node command never runs.  Sibling agreement: the setup and the shutdown
    side consult their option in the same way."""
    fn = ctx.fn("JobRunner.run_jobs", "C16.12")
    n = 0
    from ..lib import inline_locals

    for t in [x for x in iter_own(fn.node) if isinstance(x, ast.If)]:
        tn = ctx.cfg(fn).nodes_of(t.test)
        test = inline_locals(ctx, fn, t.test, tn[0]) if tn else t.test
        txt = ctx.src(test)
        core = test.left if isinstance(test, ast.Compare) else test.operand if isinstance(test, ast.UnaryOp) else test
        which = core.attr if isinstance(core, ast.Attribute) and core.attr in ("node_setup_script", "node_shutdown_script") else None
        if which is None:
            continue
        txt = txt.replace(ctx.src(core), which)
        n += 1
        ok = isinstance(test, ast.Attribute) and test.attr == which
        r.check(ok, f"{which} shadows the node command only when non-empty", key_of(fn, f"{which} tested by `{txt}`"), fn.loc(t),
                f"the legacy branch is taken under `{txt}`: an option written as \"\" (the way to say 'unset' in a TOML parameter file) counts as a script - the node tries to execute the configuration file, "
                f"dies with PermissionError, and the configured node {'setup' if 'setup' in which else 'teardown'} command never runs", "on each node the node setup command runs before any job of the batch starts and the node teardown command after all its jobs ended")
    if n != 2:
        raise AnalysisError("C16.12", f"{n} legacy-script tests recognised in JobRunner.run_jobs")

"""C11 - a submitter that dies or errors mid-round cannot cause double submission."""

import ast

from .. import AnalysisError
from ..cfg import ALL_KINDS, NORMAL_KINDS, iter_own
from ..lib import always_followed_by, dominated_by, guard_forms, in_try_with_finally, key_of, reachable_from, render
from ..report import describe, rule
from .common import report_role

P = "C11"

describe(
    P,
    "A kill truncates a round's sequence of persistent effects to a prefix; an error diverts it onto an exception edge. The "
    "rules constrain all prefixes and all exception edges of HpcSubmitter.run and its callers: the marker of a crashed round "
    "is tested (and the round refused) before the marker is set and before any hand-off; the marker is set before the first "
    "call that may hand a batch off; it is removed only after the status update, on a path made of normal edges only (never "
    "from a finally/handler), so every prefix that contains a hand-off but not the status write leaves the marker behind; no "
    "scheduler status query lies between set and clear, so a transient squeue failure happens before the marker exists and "
    "the role is released by the callers' finally (the next round proceeds normally); the lock wrapper re-creates the lock "
    "file before re-raising; a collected row is appended before the node file is deleted (C08.3); plus the promoted-only and "
    "version-check rules of C01.1 / C10.",
    ["os.remove / Path.touch / Path.exists act on the shared filesystem as named", "both lock-library behaviours: the rules do not depend on stale-marker breaking"],
    "the property proper - every kill point x every continuation, quota failures at each write - is not explored; static ordering shows that every "
    "prefix of a round leaves the defensive markers the continuation relies on, it does not execute continuations.",
)

RUN = "HpcSubmitter.run"


def marker_nodes(ctx, fn):
    """(exists-test nodes, set nodes, clear nodes, marker variable)"""
    cfg = ctx.cfg(fn)
    var = None
    for n in cfg.nodes:
        if n.kind == "stmt" and isinstance(n.ast, ast.Assign) and isinstance(n.ast.targets[0], ast.Name):
            v = ctx.src(n.ast.value).replace(" ", "")
            if "LOCK_FILENAME" in v and "self._output" in v:
                var = n.ast.targets[0].id
    if var is None:
        raise AnalysisError("C11", "marker path `Path(self._output) / self.LOCK_FILENAME` not found in HpcSubmitter.run")
    ctx._marker_path_expr = [n.ast.value for n in cfg.nodes if n.kind == "stmt" and isinstance(n.ast, ast.Assign) and isinstance(n.ast.targets[0], ast.Name) and n.ast.targets[0].id == var]
    sets, clears, tests = [], [], []
    for n in cfg.nodes:
        for c in cfg.calls_at(n):
            if isinstance(c.func, ast.Attribute) and isinstance(c.func.value, ast.Name) and c.func.value.id == var:
                if c.func.attr in ("touch", "write_text", "open", "mkdir"):
                    sets.append(n)
                elif c.func.attr in ("unlink", "rmdir"):
                    clears.append(n)
                elif c.func.attr in ("exists", "is_file"):
                    tests.append(n)
            if ctx.src(c.func) in ("os.remove", "os.unlink") and c.args and ctx.src(c.args[0]) == var:
                clears.append(n)
            if ctx.src(c.func) == "open" and c.args and ctx.src(c.args[0]) == var:
                sets.append(n)
    return tests, sets, clears, var


@rule(P, "C11.1", "T1", "the marker of a crashed round is tested, and the round refused, before the marker is set or anything handed off", min_obligations=3)
def c11_1(ctx, r):
    fn = ctx.fn(RUN, "C11.1")
    marker_nodes(ctx, fn)
    for e in getattr(ctx, "_marker_path_expr", []):
        calls = sorted({ctx.src(c.func) for c in ast.walk(e) if isinstance(c, ast.Call)} - {"Path", "os.path.join", "str", "pathlib.Path"})
        r.check(not calls, "the marker's path is the same for every process (output directory + constant name)", key_of(fn, f"marker path depends on {calls}"), fn.loc(e),
                f"the crashed-round marker is `{ctx.src(e)}`: its name depends on {calls}, so a round started on another node (or at another time) does not see the marker a failed round left - "
                "after an ordinary exception the role is released in `finally`, the marker is the only guard, and the other node resubmits the unrecorded batch", "later submitter invocations either continue consistently or refuse to act")
    tests, sets, clears, var = marker_nodes(ctx, fn)
    if not sets:
        r.bad(key_of(fn, "marker never set"), fn.loc(), "HpcSubmitter.run never creates submitter.lock: a round killed between sbatch and the status write is indistinguishable from a clean one and its batches are submitted again",
              "no job is handed to the HPC twice")
        return
    hand = ctx.nodes_with_effect(fn, "HANDOFF")
    from ..lib import fresh_queue_poll

    hand = [n for n in hand if not any(fresh_queue_poll(ctx, fn, s) for s in ctx.cg.sites_in(fn) if n in ctx.cfg(fn).nodes_of(s.node))]
    for n in sets + hand:
        forms = guard_forms(ctx, fn, n, ALL_KINDS, kill=False)
        ok = any((not p) and f.replace(" ", "") in (f"{var}.exists()", f"{var}.is_file()") for f, p in forms)
        what = "marker set" if n in sets else f"hand-off `{ctx.src(n.stmt)[:40]}`"
        r.check(ok, f"{what} only after `{var}.exists()` tested False", key_of(fn, f"{'MARKER_SET' if n in sets else 'HANDOFF'} without crashed-round test"), fn.loc(n.stmt),
                f"{what} is reachable without the leftover-marker test having passed: a round after a crashed one resubmits batches whose status was never persisted",
                "later submitter invocations either continue consistently or refuse to act", guards=sorted(("" if p else "not ") + f for f, p in forms))
    # the positive branch raises
    cfg = ctx.cfg(fn)
    for t in tests:
        for d, k, c in t.succ:
            if k == "T":
                seen = reachable_from(ctx, fn, t, NORMAL_KINDS, avoid=[x for x, kk, _ in t.succ if kk == "F" for x in [x]])
                reach = set()
                stack = [d]
                while stack:
                    x = stack.pop()
                    if x.id in reach:
                        continue
                    reach.add(x.id)
                    stack.extend(dd for dd, kk, _ in x.succ if kk in NORMAL_KINDS)
                r.check(cfg.exit.id not in reach and not any(s.id in reach for s in sets + hand), "a leftover marker makes the round raise", key_of(fn, "leftover marker branch"), fn.loc(t.stmt),
                        "with a leftover marker the round continues instead of raising")


@rule(P, "C11.2", "T2", "the marker is set before the first call that may hand a batch off", min_obligations=1)
def c11_2(ctx, r):
    fn = ctx.fn(RUN, "C11.2")
    tests, sets, clears, var = marker_nodes(ctx, fn)
    from ..lib import fresh_queue_poll

    n_h = 0
    for s in ctx.cg.sites_in(fn):
        if "HANDOFF" not in ctx.site_may(s):
            continue
        why = fresh_queue_poll(ctx, fn, s)
        if why:
            r.note(f"discharged: {ctx.src(s.node)} - {why}")
            continue
        for n in ctx.nodes_of(fn, s.node):
            n_h += 1
            r.check(bool(sets) and dominated_by(ctx, fn, n, sets, ALL_KINDS), f"MARKER_SET dominates `{ctx.src(s.node)[:40]}`", key_of(fn, f"HANDOFF before MARKER_SET: {ctx.src(s.node.func)}"), s.loc,
                    "a batch can be handed to the scheduler before submitter.lock exists: a kill right after sbatch leaves no trace and the next round submits the same jobs again",
                    "no job is handed to the HPC twice")
    if n_h == 0:
        raise AnalysisError("C11.2", "no call reaching HANDOFF in HpcSubmitter.run")


@rule(P, "C11.3", "T2", "the marker is removed only after the status update, and only on a normal path", min_obligations=3)
def c11_3(ctx, r):
    fn = ctx.fn(RUN, "C11.3")
    cfg = ctx.cfg(fn)
    tests, sets, clears, var = marker_nodes(ctx, fn)
    if not clears:
        raise AnalysisError("C11.3", "marker is never removed (C05.7 reports the liveness side)")
    upd = [n for s in ctx.sites(fn, short="HpcSubmitter._update_status") for n in ctx.nodes_of(fn, s.node)]
    if not upd:
        r.bad(key_of(fn, "no status update"), fn.loc(), "HpcSubmitter.run never updates the persisted status")
        return
    for c in clears:
        r.check(dominated_by(ctx, fn, c, upd, ALL_KINDS), "the status update dominates MARKER_CLEAR", key_of(fn, "MARKER_CLEAR before status update"), fn.loc(c.stmt),
                "submitter.lock can be removed before the submitted states / active ids were persisted: a kill in between makes the next round resubmit the batches",
                "no job is handed to the HPC twice")
        r.check(c.copy == "n" and not ctx.enclosing(fn, c.stmt, (ast.ExceptHandler,)) and not _in_finally(ctx, fn, c.stmt), "MARKER_CLEAR is not in a finally block or handler", key_of(fn, "MARKER_CLEAR on exception path"), fn.loc(c.stmt),
                "submitter.lock is removed on an exception path: after a failed status write the next round sees no marker and submits the same jobs again",
                "If ... an error is raised, at any point of a submission round ... no job is handed to the HPC twice")
    # no path set -> ... exc edge ... -> clear
    for s in sets:
        stack = [(s, False)]
        seen = set()
        bad = False
        while stack:
            n, exc = stack.pop()
            if (n.id, exc) in seen:
                continue
            seen.add((n.id, exc))
            if n in clears and exc:
                bad = True
            for d, k, _ in n.succ:
                stack.append((d, exc or k == "exc"))
        r.check(not bad, "no path from MARKER_SET through an exception edge reaches MARKER_CLEAR", key_of(fn, "exceptional path to MARKER_CLEAR"), fn.loc(s.stmt),
                "after an exception inside the marked region the marker can still be removed", "an error is raised, at any point of a submission round")
    # the status update itself is unconditional in the marked region (every normal path set->clear passes it)
    for s in sets:
        r.check(always_followed_by(ctx, fn, s, upd + [cfg.raise_exit], NORMAL_KINDS), "every normal path from MARKER_SET passes the status update", key_of(fn, "status update skipped"), fn.loc(s.stmt),
                "a normal path leaves the marked region without _update_status")


def _in_finally(ctx, fn, stmt):
    pm = ctx.parents(fn)
    cur, child = pm.get(id(stmt)), stmt
    while cur is not None and cur is not fn.node:
        if isinstance(cur, ast.Try) and any(child is s for s in cur.finalbody):
            return True
        child, cur = cur, pm.get(id(cur))
    return False


@rule(P, "C11.4", "T6", "no scheduler status query between MARKER_SET and MARKER_CLEAR", min_obligations=2)
def c11_4(ctx, r):
    fn = ctx.fn(RUN, "C11.4")
    cfg = ctx.cfg(fn)
    tests, sets, clears, var = marker_nodes(ctx, fn)
    region = set()
    for s in sets:
        region |= reachable_from(ctx, fn, s, ALL_KINDS, avoid=clears)
    ahs = ctx.cls("AsyncHpcSubmitter")
    n_sites = 0
    for s in ctx.cg.sites_in(fn):
        ns = [n for n in ctx.nodes_of(fn, s.node) if n.id in region]
        if not ns or s.how == "cha":
            continue
        n_sites += 1
        # typed receivers only; dispatch JobQueue.* -> AsyncCliCommand is irrelevant for POLL
        polls = "POLL" in ctx.site_may(s) or "SQUEUE" in ctx.site_may(s)
        if polls:
            # find the chain for the report; ignore chains through is_complete of entries (only process_queue polls entries)
            via = _poll_chain(ctx, s)
            r.check(via is None, f"`{ctx.src(s.node)[:40]}` cannot query the scheduler", key_of(fn, f"POLL inside marked region via {ctx.src(s.node.func)}"), s.loc,
                    f"a scheduler status query is reachable inside the marked region ({via}): a transient squeue failure now leaves submitter.lock behind and every later round refuses to run",
                    "After a transient failure of the scheduler's status query the next round proceeds normally")
        else:
            r.ok(f"`{ctx.src(s.node)[:50]}`: no status query reachable")
    if n_sites < 3:
        raise AnalysisError("C11.4", "marked region has fewer call sites than expected")
    # the poll happens before the marker
    polls = [n for n in ctx.nodes_with_effect(fn, "POLL")]
    r.check(bool(polls) and all(all(dominated_by(ctx, fn, s, [p], NORMAL_KINDS) for s in sets) for p in polls[:1]), "the status poll of the round precedes MARKER_SET", key_of(fn, "poll order"), fn.loc(),
            "the round no longer polls statuses before setting the marker")


def _poll_chain(ctx, site, depth=8):
    """A resolved (non-CHA) call chain from site to HpcStatusCollector.check_status / check_statuses."""
    seen = set()

    def rec(q, d, via):
        if (q, id(via)) in seen or d == 0:
            return None
        seen.add((q, id(via)))
        f = ctx.ix.functions.get(q)
        if f is None:
            return None
        from ..lib import const_param_blocks

        for s in ctx.cg.sites_in(f):
            if s.how == "cha":
                continue
            if via is not None and const_param_blocks(ctx, via, f, s):
                continue  # e.g. HpcManager.submit(..., wait=False): _wait_for_completion is unreachable
            if {"POLL", "SQUEUE"} & ctx.site_effects(s):
                return f"{f.short}[{ctx.src(s.node.func)}]"
            for q2 in s.targets():
                sub = rec(q2, d - 1, s)
                if sub:
                    return f"{f.short} -> {sub}"
        return None

    if {"POLL", "SQUEUE"} & ctx.site_effects(site):
        return ctx.src(site.node.func)
    for q in site.targets():
        sub = rec(q, depth, site)
        if sub:
            return sub
    return None


@rule(P, "C11.5", "T4", "the submitting call lies under a try/finally that demotes", min_obligations=3)
def c11_5(ctx, r):
    for spec in ("try_submit_jobs.try_submit_jobs", "JobSubmitter.run_submit_jobs", "resubmit_jobs.resubmit_jobs"):
        fn = ctx.fn(spec, "C11.5")
        for s in ctx.some_sites(fn, "C11.5", short="JobSubmitter.submit_jobs"):
            def is_demote(st):
                return isinstance(st, ast.Call) and ctx.cg.site_of(fn, st) is not None and ctx.cg.site_of(fn, st).calls_short(ctx.ix, "Cluster.demote_from_submitter")

            ok = in_try_with_finally(ctx, fn, s.node, is_demote)
            r.check(ok, f"{fn.short}: submit_jobs() under try/finally: demote_from_submitter()", key_of(fn, "submit_jobs outside try/finally demote"), s.loc,
                    "an ordinary exception in the round (squeue failure, sbatch error, full quota) leaves the submitter field set: no other node can ever be promoted and the submission hangs",
                    "After a transient failure of the scheduler's status query the next round proceeds normally")
    # the node-side one-shot update too
    fn = ctx.fn("JobRunner._complete_hpc_job", "C11.5")
    for s in ctx.some_sites(fn, "C11.5", short="Cluster.complete_hpc_job_id"):
        def is_demote2(st):
            return isinstance(st, ast.Call) and ctx.cg.site_of(fn, st) is not None and ctx.cg.site_of(fn, st).calls_short(ctx.ix, "Cluster.demote_from_submitter")

        r.check(in_try_with_finally(ctx, fn, s.node, is_demote2), "complete_hpc_job_id() under try/finally: demote", key_of(fn, "complete_hpc_job_id outside try/finally"), s.loc,
                "a failure while removing the finished batch id leaves the role held")


@rule(P, "C11.6", "T2", "a collected row is appended before the node file is deleted (a kill never loses a result)", min_obligations=2)
def c11_6(ctx, r):
    from .c08 import c08_3

    c08_3(ctx, r)


@rule(P, "C11.7", "T2", "after an exception under the cluster lock the lock file is re-created before re-raising", min_obligations=3)
def c11_7(ctx, r):
    fn = ctx.fn("Cluster._do_action_under_lock_internal", "C11.7")
    cfg = ctx.cfg(fn)
    fcall = [n for n in cfg.nodes for c in cfg.calls_at(n) if isinstance(c.func, ast.Name) and c.func.id == "func"]
    if not fcall:
        raise AnalysisError("C11.7", "func(...) call not found")
    # handler reached from func()'s exception edge
    handlers = [d for n in fcall for d, k, _ in n.succ if k == "exc" and d.kind == "except"]
    if not handlers:
        r.bad(key_of(fn, "no handler"), fn.loc(), "an exception under the cluster lock is not intercepted: the lock file is removed by release() and the half-updated state is overwritten by the next submitter",
              "later submitter invocations either continue consistently or refuse to act")
        return
    creates = []
    for n in cfg.nodes:
        for c in cfg.calls_at(n):
            t = ctx.src(c).replace(" ", "")
            if (ctx.src(c.func) == "os.open" and "O_CREAT" in t and "lock_file" in t) or (ctx.src(c.func) == "open" and "lock_file" in t and any(m in t for m in ('"x"', '"w"', "'x'", "'w'"))) or (t.endswith(".touch()") and "lock" in t):
                creates.append(n)
    hasts = {id(h.ast) for h in handlers}
    if not creates and any("lock_file" in ctx.src(n.stmt) and any(id(e) in hasts for e in ctx.enclosing(fn, n.stmt, (ast.ExceptHandler,))) for n in cfg.nodes if n.kind == "stmt"):
        raise AnalysisError("C11.7", "lock file re-creation has an unrecognised form")
    raises = [n for n in cfg.nodes if n.kind == "stmt" and isinstance(n.ast, ast.Raise) and ctx.enclosing(fn, n.ast, (ast.ExceptHandler,)) and any(h.ast in ctx.enclosing(fn, n.ast, (ast.ExceptHandler,)) for h in handlers)]
    r.check(bool(raises), "the handler re-raises", key_of(fn, "handler swallows"), fn.loc(handlers[0].ast), "the handler swallows the exception: callers continue with a half-updated state")
    for rs in raises:
        r.check(bool(creates) and dominated_by(ctx, fn, rs, creates + [h for h in cfg.nodes if h.kind == "except" and h not in handlers], ALL_KINDS) and any(reachable_from(ctx, fn, c, ALL_KINDS) & {rs.id} for c in creates),
                "the lock file is re-created on the way to the re-raise", key_of(fn, "lock file not re-created"), fn.loc(rs.ast),
                "after an exception while holding the cluster lock the lock file is not re-created: another node takes over a state that is known to be inconsistent",
                "later submitter invocations either continue consistently or refuse to act")
    # release happens before the re-creation (SoftFileLock deletes the file on release)
    rel = [n for n in cfg.nodes for c in cfg.calls_at(n) if isinstance(c.func, ast.Attribute) and c.func.attr == "release" and ctx.enclosing(fn, c, (ast.ExceptHandler,))]
    for c in creates:
        r.check(bool(rel) and dominated_by(ctx, fn, c, rel, ALL_KINDS), "release() precedes the re-creation (release deletes the file)", key_of(fn, "create before release"), fn.loc(c.stmt),
                "the lock file is created before release(): release deletes it again and the deadlock marker is lost")


@rule(P, "C11.8", "T5", "mutating calls only while promoted (a second submitter cannot act on the same state)", min_obligations=4)
def c11_8(ctx, r):
    from .common import ROLE_SITES

    report_role(ctx, r, ROLE_SITES, {"mutate"}, "later submitter invocations either continue consistently or refuse to act")


@rule(P, "C11.9", "L0", "an error raised while the cluster lock is held reaches the caller (a failed status update is never taken for done)", min_obligations=3)
def c11_9(ctx, r):
    from .c10 import _check_wrapper

    _check_wrapper(ctx, r, ctx.fn("Cluster._do_action_under_lock_internal", "C11.9"), "C11.9")


@rule(P, "C11.10", "T4", "local mode: the cluster files are removed on every exit of the submission, also a failing one (they are what lets a later submitter act)", min_obligations=1)
def c11_10(ctx, r):
    """In local mode the jobs are run by the submitting process itself; the cluster files it created are unused and are
    deleted so that a later `try-submit-jobs` finds nothing to promote on.  If an exception skips the deletion, that later
    command is promoted on the leftover state (every job still 'not submitted') and starts all jobs again."""
    fn = ctx.fn("JobSubmitter.run_submit_jobs", "C11.10")
    dels = ctx.sites(fn, short="Cluster.delete_files_internal")
    if not dels:
        r.bad(key_of(fn, "local cluster files never deleted"), fn.loc(), "run_submit_jobs never deletes the cluster files of a local run", "no job is ... started twice")
        return
    from ..lib import in_try_with_finally

    def deletes(st):
        return isinstance(st, ast.Call) and isinstance(st.func, ast.Attribute) and st.func.attr == "delete_files_internal"

    for s9 in ctx.some_sites(fn, "C11.10", short="JobSubmitter.submit_jobs"):
        sn = s9.node
        escaped = not in_try_with_finally(ctx, fn, sn, deletes)
        r.check(not escaped, "a failing local run still removes the cluster files", key_of(fn, "local cluster files survive a failed run"), fn.loc(sn),
                "an exception out of mgr.submit_jobs() leaves run_submit_jobs without cluster.delete_files_internal() in local mode: a later `jade try-submit-jobs <output>` is promoted on the leftover "
                "cluster state and JobRunner starts every job again", "no job is handed to the HPC twice or started twice")


@rule(P, "C11.11", "T4", "a status update that failed is seen by the round: no handler between the hand-off and the marker removal swallows it", min_obligations=3)
def c11_11(ctx, r):
    """The round removes the crashed-round marker only because _update_status returned.  If the update failed (lock timeout, I/O error) and some
    function on the way - Cluster.update_job_status, HpcSubmitter._update_status, run itself - catches the exception and carries on, the round
    ends 'normally': marker removed, role released, while job_status.json still says not_submitted and the batch index is not advanced.  The
    next round hands every one of those jobs to the HPC again."""
    from ..lib import swallowing_handlers

    chain = [("HpcSubmitter.run", "HpcSubmitter._update_status"), ("HpcSubmitter._update_status", "Cluster.update_job_status"), ("Cluster.update_job_status", "Cluster._do_action_under_lock")]
    for caller, callee in chain:
        fn = ctx.fn(caller, "C11.11")
        sites = ctx.some_sites(fn, "C11.11", short=callee)
        for s in sites:
            hs = swallowing_handlers(ctx, fn, s.node)
            what = ", ".join(sorted({ctx.src(h.type) if h.type is not None else "everything" for h in hs}))
            r.check(not hs, f"{caller}: a failure of {callee.split('.')[-1]}() propagates", key_of(fn, f"swallows a failed {callee.split('.')[-1]}"), s.loc,
                    f"{caller} catches {what} around {callee.split('.')[-1]}() and goes on: when the status update fails after batches were handed to the HPC, the round still removes its marker and releases the role, "
                    "with the jobs recorded as not_submitted - the next round submits them again", "no job handed to the HPC twice ... later invocations refuse to act")


@rule(P, "C11.12", "T4", "every file the results code writes is closed before the function returns (a failed flush raises there, not in a finaliser)", min_obligations=3)
def c11_12(ctx, r):
    """_move_results deletes a node file right after _append_processed_results returned.  A write error (quota, full disk) surfaces when the
    buffered data is flushed - at close.  With `with open(...)` the close happens inside the function and the error propagates: the node file
    is kept and the next sweep moves it.  A file left to the garbage collector is flushed in its finaliser, where the error is swallowed; the
    rows are then in neither file.  Decided: every open() for writing/appending in ResultsAggregator is the context expression of a `with`."""
    cls = ctx.cls("ResultsAggregator", "C11.12")
    n = 0
    for m in cls.methods.values():
        withs = {id(it.context_expr) for w in iter_own(m.node) if isinstance(w, ast.With) for it in w.items}
        for c in iter_own(m.node):
            if not (isinstance(c, ast.Call) and ctx.src(c.func) == "open"):
                continue
            mode = c.args[1] if len(c.args) > 1 else next((k.value for k in c.keywords if k.arg == "mode"), None)
            if not (isinstance(mode, ast.Constant) and isinstance(mode.value, str) and set(mode.value) & set("wa+x")):
                continue
            n += 1
            r.check(id(c) in withs, f"{m.short}: the written file is managed by `with`", key_of(m, "file written without with"), m.loc(c),
                    f"{m.short} opens `{ctx.src(c)}` for writing outside a `with`: the data is flushed when the object is collected, and a write error at that point is silently dropped - the caller goes on "
                    "(deletes the node file it just 'moved'), and the results exist nowhere", "every result produced so far remains on disk")
    if n < 3:
        raise AnalysisError("C11.12", f"{n} writing open() calls found in ResultsAggregator")

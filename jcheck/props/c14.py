"""C14 - cancel is final."""

import ast

from .. import AnalysisError
from ..cfg import ALL_KINDS, NORMAL_KINDS
from ..lib import dominated_by, always_followed_by, attr_stores, fresh_queue_poll, hpc_queue_confined, gated_sites, guard_forms, key_of, render, type_is, ungated_chain
from ..report import describe, rule
from .common import report_role, spawn_sites

P = "C14"

describe(
    P,
    "Decides that (1) every call-graph path from a command that loads the cluster state from disk (try-submit-jobs - the "
    "command that cancel-jobs, show-status and every finishing node spawn -, resubmit-jobs, and submit-jobs for uniformity) "
    "to the scheduler hand-off crosses a branch on ClusterConfig.is_canceled with the hand-off on the not-canceled side; "
    "(2) cancel_jobs asks the scheduler to cancel every persisted active id unconditionally and then marks the submission "
    "canceled on every normal path; (3) the mark stores the flag and serialises it under the cluster lock; (4) the "
    "cancel-jobs command acts only while promoted; (5) the flag is never reset by code outside the constructor."
    " After a cancel the completion step still completes: with no active id completion is forced without further conditions.",
    [
        "the scheduler honours scancel",
        "ClusterConfig.is_canceled read by a submitter is the persisted value (C10: promotion loads the file under the lock)",
    ],
    "that the scheduler honours scancel; timing of the 15 s delay; that results recorded before the cancel are kept "
    "(that is C08/C11 append-before-delete).",
)

# commands that load an existing submission's state from disk and may submit
ENTRIES = ("try_submit_jobs.try_submit_jobs", "resubmit_jobs.resubmit_jobs")


def _gate(form, pol):
    return form == "<ClusterConfig.is_canceled>" and pol is False


@rule(P, "C14.1", "T15", "every path from a state-loading command to the scheduler hand-off crosses a not-canceled gate", min_obligations=2)
def c14_1(ctx, r):
    facts = hpc_queue_confined(ctx)
    hs = ctx.cls("HpcSubmitter")
    ahs = ctx.cls("AsyncHpcSubmitter")

    def in_hpc(f):
        return f.cls is hs

    def edge_inf(f, s, callee, flag):
        # JobQueue.* -> AsyncHpcSubmitter.* only for queues fed by HpcSubmitter (confinement facts)
        return callee.cls is ahs and f.cls is not None and f.cls.name == "JobQueue" and not flag

    for fact in facts:
        r.note("confinement: " + fact)
    for spec in ENTRIES:
        fn = ctx.fn(spec, "C14.1")
        if "HANDOFF" not in ctx.may(fn):
            raise AnalysisError("C14.1", f"{fn.short} no longer reaches the hand-off (call graph changed)")
        skipped = []

        def infeasible(f, s):
            why = fresh_queue_poll(ctx, f, s)
            if why:
                skipped.append(f"{f.short}: {ctx.src(s.node)} - {why}")
            return bool(why)

        chain = ungated_chain(ctx, fn, "HANDOFF", _gate, infeasible=infeasible, flag_fn=in_hpc, edge_infeasible=edge_inf)
        for why in sorted(set(skipped)):
            r.note("infeasible edge discharged: " + why)
        if chain is None:
            gs = gated_sites(ctx, fn, "HANDOFF", _gate)
            r.ok(f"{fn.short}: every chain to HANDOFF is gated on not is_canceled", gates=sorted({f"{f.short}: {ctx.src(s.node)[:60]}" for f, s in gs}))
        else:
            path = " -> ".join(f"{f.short}[{ctx.src(s.node.func)}]" for f, s in chain)
            last_f, last_s = chain[-1]
            r.bad(
                f"{fn.short}=>HANDOFF ungated",
                last_s.loc,
                f"call path {path} reaches the scheduler hand-off without any branch on ClusterConfig.is_canceled: "
                "a submitter round after cancel-jobs (cancel-jobs' own try-submit-jobs, show-status, a finishing node) batches every still-unsubmitted job",
                "After cancel-jobs has marked a submission canceled, JADE never hands another batch to the HPC for it",
                path=path,
            )


@rule(P, "C14.2", "T3", "cancel_jobs cancels every persisted active id, then marks the submission canceled", min_obligations=3)
def c14_2(ctx, r):
    fn = ctx.fn("JobSubmitter.cancel_jobs", "C14.2")
    cfg = ctx.cfg(fn)
    sc = [s for s in ctx.cg.sites_in(fn) if "SCANCEL" in ctx.site_may(s)]
    if not sc:
        r.bad(key_of(fn, "SCANCEL missing"), fn.loc(), "cancel_jobs no longer reaches the scheduler's cancel command")
        return
    mk = [n for s in ctx.sites(fn, short="Cluster.mark_canceled") for n in ctx.nodes_of(fn, s.node)]
    if not mk:
        r.bad(key_of(fn, "mark_canceled missing"), fn.loc(), "cancel_jobs never marks the submission canceled: later rounds keep submitting")
        return
    for s in sc:
        loops = ctx.enclosing(fn, s.node, (ast.For,))
        ok_loop = False
        if loops:
            lp = loops[0]
            from ..lib import render

            it = render(ctx, fn, lp.iter)
            ok_iter = it in ("<JobStatus.hpc_job_ids>", "list(<JobStatus.hpc_job_ids>)") or (it.startswith("call:Cluster.iter_hpc_job_ids()") and "[" not in it)
            tgt = lp.target.id if isinstance(lp.target, ast.Name) else None
            passes = any(isinstance(a, ast.Name) and a.id == tgt for a in s.node.args)
            ok_loop = ok_iter and passes
            r.check(ok_loop, "SCANCEL is called for each persisted hpc_job_id", key_of(fn, "SCANCEL loop"), s.loc,
                    f"the cancel loop does not iterate JobStatus.hpc_job_ids / pass its element (iter={ctx.src(lp.iter)})", iter=it)
            # unconditional inside the loop body: guards of the call mention nothing but loop membership
            for n in ctx.nodes_of(fn, s.node):
                forms = guard_forms(ctx, fn, n)
                forms = {(f, p) for f, p in forms if "cancel_job" not in f}
                r.check(not forms, "SCANCEL is unconditional inside the loop", key_of(fn, "SCANCEL conditional"), s.loc,
                        f"the scheduler cancel is skipped under {sorted(f for f, _ in forms)}: an active batch may keep running", guards=sorted(f for f, _ in forms))
            # the loop must not change the list it walks
            for s3 in ctx.cg.sites_in(fn):
                if any(l is lp for l in ctx.enclosing(fn, s3.node, (ast.For,))) and "HPC_IDS_WRITE" in ctx.site_may(s3):
                    r.bad(key_of(fn, f"cancel loop mutates hpc_job_ids via {ctx.src(s3.node.func)}"), s3.loc,
                          f"`{ctx.src(s3.node)[:60]}` (re)writes JobStatus.hpc_job_ids while the cancel loop iterates that same list: every second active batch is skipped and never canceled",
                          "every batch that was active is asked to be canceled")
        else:
            r.bad(key_of(fn, "SCANCEL not in loop"), s.loc, "scheduler cancel is not issued per persisted active id")
    # mark follows on all normal paths from entry
    from ..lib import dominated_by

    seen_exit = always_followed_by(ctx, fn, cfg.entry, mk, NORMAL_KINDS)
    r.check(seen_exit, "mark_canceled() on every normal path of cancel_jobs", key_of(fn, "mark_canceled skipped"), fn.loc(),
            "a normal path through cancel_jobs returns without marking the submission canceled")
    for n in mk:
        forms = guard_forms(ctx, fn, n)
        r.check(not forms, "mark_canceled() is unconditional", key_of(fn, "mark_canceled conditional"), fn.loc(n.stmt),
                f"mark_canceled is skipped under {sorted(f for f, _ in forms)}")
    # ... and only after the sweep *completed*: not from a finally / handler around it (a scancel that raised leaves the later ids un-asked)
    from ..lib import on_exception_path_of

    sc_nodes = {id(s.node) for s in sc}
    for s in ctx.sites(fn, short="Cluster.mark_canceled"):
        t = on_exception_path_of(ctx, fn, s.node, lambda x: id(x) in sc_nodes)
        r.check(t is None, "mark_canceled() runs only after the whole sweep succeeded", key_of(fn, "mark_canceled on the sweep's exception path"), s.loc,
                "mark_canceled() sits in the finally / except of the try around the scancel sweep: when one scancel raises (fork failure, missing executable, interrupt) the submission is recorded as canceled "
                "although the batches after the failing id were never asked to cancel - they keep running, and nothing will ask again", "every batch that was active is asked to be canceled")


@rule(P, "C14.3", "T7+T2", "the canceled flag is stored, serialised under the lock, and never reset", min_obligations=4)
def c14_3(ctx, r):
    fn = ctx.fn("Cluster._mark_canceled", "C14.3")
    stores = [(f, n, kind) for f, n, attr, t, kind in attr_stores(ctx, {"is_canceled"}) if t is None or type_is(ctx, t, "ClusterConfig")]
    found = False
    for f, n, kind in stores:
        st = ctx.stmt_of(f, n)
        val = st.value if isinstance(st, ast.Assign) else None
        if f is fn:
            ok = isinstance(val, ast.Constant) and val.value is True
            r.check(ok, "_mark_canceled stores True", key_of(f, "is_canceled store"), f.loc(n), f"_mark_canceled stores {ctx.src(val) if val is not None else kind}, not True")
            found = found or ok
        else:
            r.bad(key_of(f, "is_canceled store"), f.loc(n),
                  f"ClusterConfig.is_canceled is written outside Cluster._mark_canceled ({f.short}: {ctx.src(st)[:60]}): a canceled submission can become submittable again",
                  "Cancel is final")
    if not found:
        r.bad(key_of(fn, "is_canceled never set"), fn.loc(), "Cluster._mark_canceled does not set ClusterConfig.is_canceled = True")
    r.check(ctx.must(fn, "SERIALIZE_CONFIG"), "_mark_canceled reaches _serialize on every normal path", key_of(fn, "serialize after mark"), fn.loc(),
            "the canceled flag is set in memory but not serialised on every path: the next round loads is_canceled=False")
    r.check(ctx.is_locked_only(fn, "cluster"), "_mark_canceled runs only under the cluster lock", key_of(fn, "locked-only"), fn.loc(),
            "Cluster._mark_canceled is reachable without the cluster lock")
    pub = ctx.fn("Cluster.mark_canceled", "C14.3")
    ss = [s for s in ctx.cg.sites_in(pub) if s.via_wrapper and fn.qual in s.wrapped]
    r.check(bool(ss), "mark_canceled() wraps _mark_canceled in the lock wrapper", key_of(pub, "wrapper"), pub.loc(), "Cluster.mark_canceled no longer calls _mark_canceled through the lock wrapper")


@rule(P, "C14.4", "T5", "cancel-jobs acts only while promoted and releases the role", min_obligations=3)
def c14_4(ctx, r):
    report_role(ctx, r, ["cancel_jobs.cancel_jobs"], {"demote", "mutate", "leak"}, "cancel-jobs marks the submission canceled (as the one submitter)")


@rule(P, "C14.5", "X0", "cancel-jobs' completion step is the gated try-submit-jobs command", min_obligations=1)
def c14_5(ctx, r):
    fn = ctx.fn("cancel_jobs.cancel_jobs", "C14.5")
    ss = spawn_sites(ctx, fn, "jade try-submit-jobs")
    others = [s for s in ctx.cg.sites_in(fn) if "HANDOFF" in ctx.site_may(s)]
    r.check(not others, "cancel-jobs itself never reaches the hand-off in-process", key_of(fn, "in-process HANDOFF"), fn.loc(),
            "cancel_jobs reaches the scheduler hand-off directly: " + ", ".join(ctx.src(s.node)[:40] for s in others))
    if ss:
        r.ok("completion step spawns `jade try-submit-jobs` (entry of C14.1)", at=ss[0].loc)
    else:
        r.note("cancel-jobs spawns no try-submit-jobs (completion step removed or renamed)")


@rule(P, "C14.6", "T8", "the id asked to be canceled reaches the scheduler's cancel command", min_obligations=3)
def c14_6(ctx, r):
    hm = ctx.fn("HpcManager.cancel_job", "C14.6")
    ss = [s for s in ctx.cg.sites_in(hm) if "SCANCEL" in ctx.site_effects(s)]
    r.check(len(ss) == 1 and ss[0].node.args and ctx.src(ss[0].node.args[0]) == "job_id" and not [f for n in ctx.nodes_of(hm, ss[0].node) for f in guard_forms(ctx, hm, n)],
            "HpcManager.cancel_job passes its job_id to the interface, unconditionally", key_of(hm, "forward id"), hm.loc(), "HpcManager.cancel_job does not (unconditionally) call intf.cancel_job(job_id)",
            "every batch that was active is asked to be canceled")
    sm = ctx.fn("SlurmManager.cancel_job", "C14.6")
    from ..lib import _single_return

    rx = _single_return(sm)
    ok = rx is not None and isinstance(rx, ast.Call) and ctx.cg.site_of(sm, rx) is not None and ctx.cg.site_of(sm, rx).calls_short(ctx.ix, "run_command.run_command") and render(ctx, sm, rx.args[0]) == "f'scancel {job_id}'"
    r.check(ok, "SLURM: cancel = run_command(f'scancel {job_id}')", key_of(sm, "scancel"), sm.loc(), f"SlurmManager.cancel_job is `{ctx.src(rx) if rx is not None else None}`", "asked to be canceled")
    cj = ctx.fn("cancel_jobs.cancel_jobs", "C14.6")
    s2 = ctx.some_sites(cj, "C14.6", short="JobSubmitter.cancel_jobs")
    from ..lib import bound_from, first_node

    r.check(len(s2) == 1 and len(s2[0].node.args) == 1 and bound_from(ctx, cj, s2[0].node.args[0], first_node(ctx, cj, s2[0].node), "Cluster.deserialize", 0), "the command cancels on the handle it was promoted with", key_of(cj, "handle"), s2[0].loc, "cancel_jobs is given another cluster handle")
    # the handle was loaded with its job status (the ids to cancel)
    ds = ctx.some_sites(cj, "C14.6", short="Cluster.deserialize")
    dz = ctx.fn("Cluster.deserialize")
    a = ctx.arg_for(ds[0], dz, "deserialize_jobs")
    r.check(isinstance(a, ast.Constant) and a.value is True, "the handle carries the persisted job status (deserialize_jobs=True)", key_of(cj, "deserialize_jobs"), ds[0].loc, "cancel-jobs loads the cluster without its job status: there are no ids to cancel")


@rule(P, "C14.7", "T13", "after a cancel the completion step still completes: with no active batch completion is forced unconditionally (never-run jobs become missing)", min_obligations=3)
def c14_7(ctx, r):
    from .c05 import completion_decision

    completion_decision(ctx, r, "C14.7")
    # ... and the commands that run a submitter round reach it for a canceled submission too (the round collects the
    # results recorded before the cancel and forces completion; only the hand-off inside it is gated)
    ss = ctx.fn("show_status.show_status", "C14.7")
    for s2 in spawn_sites(ctx, ss, "jade try-submit-jobs"):
        for n in ctx.nodes_of(ss, s2.node):
            forms = guard_forms(ctx, ss, n, ALL_KINDS, kill=False)
            bad = sorted(("" if p else "not ") + f for f, p in forms if "is_canceled" in f)
            r.check(not bad, "show-status offers the recovery round for a canceled submission too", key_of(ss, "recovery not offered for a canceled submission"), s2.loc,
                    f"show-status runs try-submit-jobs only under {bad}: after `cancel-jobs --no-complete` (or a completion step that ran while the scheduler was still draining) nothing ever finishes the submission - "
                    "no results.json, nothing collected, nothing reported missing", "neither in cancel-jobs' own completion step nor in any later try-submit-jobs or show-status ... jobs that never ran are reported missing")
    for spec in ("try_submit_jobs.try_submit_jobs",):
        fn = ctx.fn(spec, "C14.7")
        for s2 in ctx.some_sites(fn, "C14.7", short="JobSubmitter.submit_jobs"):
            for n in ctx.nodes_of(fn, s2.node):
                forms = guard_forms(ctx, fn, n, ALL_KINDS, kill=False)
                bad = sorted(("" if p else "not ") + f for f, p in forms if "is_canceled" in f)
                r.check(not bad, f"{fn.short}: the submitter round does not depend on the canceled flag", key_of(fn, "round skipped for a canceled submission"), s2.loc,
                        f"the submitter round is reached only under {bad}: after a cancel no round ever collects the results written before the cancel, results.json (with the never-run jobs as missing) "
                        "is never written and the submission stays incomplete for ever", "Results recorded before the cancel are kept and jobs that never ran are reported missing")


@rule(P, "C14.8", "T6", "a canceled submission is completed only through a submitter round (which collects the results recorded before the cancel)", min_obligations=4)
def c14_8(ctx, r):
    from .c03 import c03_2

    c03_2(ctx, r)


@rule(P, "C14.9", "T8", "jobs that never ran are reported missing also when no result exists at all", min_obligations=4)
def c14_9(ctx, r):
    from .c03 import c03_3

    c03_3(ctx, r)


@rule(P, "C14.10", "T2", "the completion step writes results.json before any step of it that can fail (teardown command, error-log scan)", min_obligations=2)
def c14_10(ctx, r):
    """After a cancel the completion step typically runs where the submission was not started (the login node the user typed `jade cancel-jobs`
    on): the teardown executable may not exist there, a half-written *.e file may not decode.  results.json - the results recorded before the
    cancel and the never-run jobs as missing - must already exist when such a step raises: write_results_summary() dominates every external
    command and every file scan of _handle_completion."""
    fn = ctx.fn("JobSubmitter._handle_completion", "C14.10")
    sw = ctx.nodes_with_effect(fn, "SUMMARY_WRITE")
    if not sw:
        raise AnalysisError("C14.10", "no write_results_summary call in _handle_completion")
    n = 0
    for s in ctx.cg.sites_in(fn):
        ext = (s.external or "")
        risky = s.calls_short(ctx.ix, "run_command.run_command") or s.calls_short(ctx.ix, "run_command.check_run_command") or s.calls_short(ctx.ix, "JobSubmitter._log_error_log_messages") \
            or s.calls_short(ctx.ix, "JobSubmitter.generate_reports")
        if not risky or "submit-next-stage" in ctx.src(s.node):
            continue
        for nd in ctx.nodes_of(fn, s.node):
            n += 1
            r.check(dominated_by(ctx, fn, nd, sw, ALL_KINDS), f"results.json is written before {ctx.src(s.node.func)}()", key_of(fn, f"{ctx.src(s.node.func).split('.')[-1]} before the summary"), s.loc,
                    f"`{ctx.src(s.node)[:70]}` can run (and fail) before write_results_summary(): if it raises - a teardown executable that exists on compute nodes only, an undecodable error log - the completion step "
                    "ends without results.json, so neither the results recorded before the cancel nor the missing jobs are reported", "results recorded before the cancel are kept and jobs that never ran are reported as missing")
    if n < 2:
        raise AnalysisError("C14.10", f"{n} failing steps recognised in _handle_completion")


@rule(P, "C14.11", "T6", "what is persisted about a submission is what is loaded: no validator of ClusterConfig rewrites a stored field (the canceled flag survives completion)", min_obligations=1)
def c14_11(ctx, r):
    """`cancel is final` holds across reloads only if is_canceled read back from cluster_config.json is the value written.  A field validator that
    derives the flag from other fields (False once is_complete is set, say) makes every reload of a completed, canceled submission forget the
    cancel: a later resubmit-jobs round passes the not-canceled gate and hands the never-run jobs to the HPC."""
    from ..lib import validators_changing_value

    cls = ctx.cls("ClusterConfig", "C14.11")
    examined, bad = validators_changing_value(ctx, {"ClusterConfig"})
    for f, n in bad:
        r.bad(key_of(f, "validator rewrites a persisted field"), f.loc(n), f"the validator {f.short} returns `{ctx.src(n.value)}` instead of the value it was given: the field loaded from cluster_config.json differs from "
              "the field written - a canceled flag can be dropped on reload, and later rounds submit again", "once a submission is marked canceled no process ever hands another batch to the HPC")
    # no assignment hook either: is_canceled is an ordinary field
    r.check("is_canceled" in cls.ann_fields, "ClusterConfig.is_canceled is a declared field", key_of_cls(cls, "is_canceled field"), f"{cls.module.relpath}:{cls.node.lineno}", "ClusterConfig.is_canceled is no longer a plain field")
    r.ok(f"{examined} field validators of ClusterConfig examined")


def key_of_cls(cls, what):
    return f"{cls.name}::{what}"

"""C20 - reports are faithful: events lossless, statistics and tallies correct."""

import ast
import re

from .. import AnalysisError
from ..cfg import ALL_KINDS, NORMAL_KINDS, iter_own
from ..guards import canon
from ..lib import inlined, inlined_expr, inlined_guards, guard_forms, key_of, render
from ..report import describe, rule

P = "C20"

describe(
    P,
    "Decides the structural clauses: (1) every running {maximum, minimum} update either evaluates both comparisons on "
    "every path of the update or - when written as if/elif - both tables are initialised from the same expression (the "
    "first sample), the only situation in which at most one of the two can change; the running sum is updated "
    "unconditionally and the sample count once per update; (2) the three Result predicates partition every producible "
    "(return code, status) cell of a finite abstraction (predicate ASTs are folded over abstract values; nothing is run); "
    "(3) each tally loop increments exactly one counter per result on every path of its body; (4) event consolidation "
    "reads every line of every event file with no conditional skip, sorts per name by timestamp, writes every non-resource "
    "event, and runs only when the consolidated directory is empty."
    " The samples folded into the running statistics are the reading taken by this call (loop-nest provenance down to the _get_*stats() call).",
    ["producible (return code, status) cells: any return code x finished (AsyncCliCommand._complete) and non-zero x canceled (C04.1)"],
    "that each event appears 'exactly once with all fields intact' and the mean as a value are value-level and not decided; "
    "parquet output of resource statistics is not analysed.",
)


def _subscript_key_path(e):
    """self._summaries['maximum'][a][b] -> ('self._summaries', ['maximum', <a>, <b>])"""
    keys = []
    while isinstance(e, ast.Subscript):
        keys.append(e.slice)
        e = e.value
    keys.reverse()
    return ast.unparse(e), keys


def _extreme_kind(e):
    base, keys = _subscript_key_path(e)
    if keys and isinstance(keys[0], ast.Constant) and keys[0].value in ("maximum", "minimum", "max", "min"):
        return base, keys[0].value[:3], [ast.unparse(k) for k in keys[1:]]
    return None


@rule(P, "C20.1", "T3+T8", "running extremes: both comparisons on every path, or both tables initialised from the same sample", min_obligations=4)
def c20_1(ctx, r):
    cls = ctx.cls("ResourceMonitorAggregator", "C20.1")
    fn = ctx.ix.lookup_method(cls, "update_resource_stats")
    if fn is None:
        raise AnalysisError("C20.1", "ResourceMonitorAggregator.update_resource_stats not found")
    # all stores into extreme tables of the class, by table base
    stores = {}  # base -> list of (fn, stmt, kind(max/min), value expr)
    for m in cls.methods.values():
        for n in iter_own(m.node):
            if isinstance(n, ast.Assign) and len(n.targets) == 1:
                k = _extreme_kind(n.targets[0])
                if k:
                    stores.setdefault(k[0], []).append((m, n, k[1], n.value))
    found = 0
    for n in iter_own(fn.node):
        if not isinstance(n, ast.If):
            continue
        cmp1 = _cmp_extreme(n.test)
        if cmp1 is None:
            continue
        base, kind1, var = cmp1
        # elif form?
        is_elif = len(n.orelse) == 1 and isinstance(n.orelse[0], ast.If) and _cmp_extreme(n.orelse[0].test) is not None
        if not is_elif:
            # is this the second half of an elif (handled above) or an independent if?
            par = ctx.parents(fn).get(id(n))
            if isinstance(par, ast.If) and n in par.orelse and _cmp_extreme(par.test) is not None:
                continue
            # independent ifs: the sibling comparison must exist in the same block
            blk = _block_of(ctx, fn, n)
            sib = [s for s in blk if isinstance(s, ast.If) and s is not n and (_cmp_extreme(s.test) or (None, None, None))[0] == base and (_cmp_extreme(s.test) or (None, "", None))[1] != kind1]
            found += 1
            r.check(bool(sib), f"{base}: max and min comparisons are independent statements", key_of(fn, f"{base} {kind1} without sibling"), fn.loc(n),
                    f"only the {kind1} of {base} is updated in this block")
            # independent comparisons are exact only if the table starts at the neutral element (or at a value that is
            # itself a counted sample - not decidable here): min from +inf, max from 0 / -inf
            neutral = {"min": ("sys.maxsize", "float('inf')", "math.inf", "inf"), "max": ("0.0", "0", "float('-inf')", "-math.inf", "-sys.maxsize")}
            for (m2, st2, k2, v2) in stores.get(base, []):
                if k2 == kind1 and not _inside(ctx, m2, st2, n) and m2 is not fn:
                    txt = ast.unparse(v2).replace('"', "'")
                    r.check(txt in neutral[kind1], f"{base}['{'minimum' if kind1 == 'min' else 'maximum'}'] starts at the neutral element", key_of(m2, f"{base} {kind1} initialised with {txt}"), m2.loc(st2),
                            f"{m2.short} initialises the running {kind1} of {base} with `{txt}`, a value that is not one of the samples folded in by update_resource_stats (the sum and the count do not include it): "
                            f"if every later sample lies {'above' if kind1 == 'min' else 'below'} it the reported {kind1}imum is a value that was never sampled",
                            "report the true minimum, maximum and mean of the samples taken")
            continue
        found += 1
        # elif form: sound only if every other store pair into (max,min) of this base uses the same value
        others = [(m, st, k, v) for (m, st, k, v) in stores.get(base, []) if not _inside(ctx, m, st, n)]
        inits_max = [(m, st, v) for (m, st, k, v) in others if k == "max"]
        inits_min = [(m, st, v) for (m, st, k, v) in others if k == "min"]
        same = bool(inits_max) and len(inits_max) == len(inits_min)
        detail = []
        if same:
            for (m1, s1, v1), (m2, s2, v2) in zip(inits_max, inits_min):
                detail.append(f"{m1.short}: max={ast.unparse(v1)} min={ast.unparse(v2)}")
                if m1 is not m2 or ast.dump(v1) != ast.dump(v2) or _block_of(ctx, m1, s1) is not _block_of(ctx, m2, s2):
                    same = False
        r.check(
            same,
            f"{base}: if/elif update with both tables initialised from the same sample",
            key_of(fn, f"{base} if/elif extremes with different initial values"),
            fn.loc(n),
            f"{base}['maximum'] / ['minimum'] are updated with `if ... elif ...` but initialised from different values ({'; '.join(detail) or 'no paired initialisation'}): "
            "while samples do not decrease the first branch is taken every time and the minimum keeps its initial value",
            "Aggregated resource statistics report the true minimum, maximum and mean of the samples taken",
            inits=detail,
        )
    if found < 2:
        raise AnalysisError("C20.1", f"only {found} running-extreme updates recognised in update_resource_stats")
    # sum updated unconditionally inside the same loop body; count once per call
    cfg = ctx.cfg(fn)
    for node in cfg.nodes:
        a = node.ast
        if node.kind == "stmt" and isinstance(a, ast.AugAssign) and isinstance(a.op, ast.Add):
            k = _subscript_key_path(a.target)
            if k[1] and isinstance(k[1][0], ast.Constant) and k[1][0].value == "sum":
                forms = {key for key, pol, e in ctx.guards(fn).at(node) if _cmp_extreme(e) is not None}
                r.check(not forms, f"{k[0]}['sum'] is updated for every sample", key_of(fn, f"{k[0]} sum conditional"), fn.loc(a),
                        f"the running sum is updated only under {sorted(forms)}: the mean is wrong")
            if ast.unparse(a.target) == "self._count":
                pd = ctx.pdom(fn)
                r.check(node.id in pd.get(cfg.entry.id, set()) and not cfg.in_loop(node), "sample count incremented exactly once per update", key_of(fn, "count"), fn.loc(a),
                        "self._count is not incremented exactly once per update_resource_stats call: the mean is wrong")
    # the values folded in are this call's reading: the loop nest around every sum update bottoms out in a local bound
    # by a _get_*stats() call of this invocation (not the reading kept from the previous call)
    nsrc = 0
    for node in cfg.nodes:
        a = node.ast
        if not (node.kind == "stmt" and isinstance(a, ast.AugAssign) and isinstance(a.op, ast.Add) and isinstance(a.value, ast.Name)):
            continue
        k = _subscript_key_path(a.target)
        if not (k[1] and isinstance(k[1][0], ast.Constant) and k[1][0].value == "sum"):
            continue
        loops = ctx.enclosing(fn, a, (ast.For,))          # innermost first
        name, src_ok, origin = a.value.id, False, None
        for lp in loops:
            tnames = {x.id for x in ast.walk(lp.target) if isinstance(x, ast.Name)}
            if name in tnames:
                e = lp.iter
                direct = False
                while isinstance(e, (ast.Call, ast.Attribute, ast.Subscript)):
                    if isinstance(e, ast.Call):
                        st0 = ctx.cg.site_of(fn, e)
                        if st0 is not None and any(st0.calls_short(ctx.ix, f"ResourceMonitorAggregator.{m}") for m in ("_get_stats", "_get_process_stats")):
                            direct = True   # the reading is taken in the loop header itself
                            break
                    e = e.func if isinstance(e, ast.Call) else e.value
                if direct:
                    src_ok, origin = True, ast.unparse(lp.iter)
                    break
                if not isinstance(e, ast.Name):
                    origin = ast.unparse(lp.iter)
                    break
                name, origin = e.id, ast.unparse(lp.iter)
                if name == "self":
                    break
        else:
            heads = [x for x in cfg.nodes if x.kind == "for" and loops and x.ast is loops[-1]]
            ud = ctx.rd(fn).unique_def(heads[0], name) if heads and name != "self" else None
            site = ctx.cg.site_of(fn, ud[1]) if ud and isinstance(ud[1], ast.Call) else None
            src_ok = site is not None and any(site.calls_short(ctx.ix, f"ResourceMonitorAggregator.{m}") for m in ("_get_stats", "_get_process_stats"))
        nsrc += 1
        r.check(src_ok, f"{k[0]}: the samples folded in are read by this call", key_of(fn, f"{k[0]} sample source {origin}"), fn.loc(a),
                f"the value added to {k[0]}['sum'] iterates `{origin}`, which is not a reading taken by this update_resource_stats() call: the previous interval's sample is aggregated again and the newest one never",
                "report the true minimum, maximum and mean of the samples taken")
    if nsrc < 2:
        raise AnalysisError("C20.1", f"only {nsrc} sum updates recognised")
    # finalize divides each sum by the counter that is advanced together with that sum
    fin = ctx.ix.lookup_method(cls, "finalize")
    want = {"self._summaries": "self._count", "self._process_summaries": "self._process_sample_count[process_name]"}
    seen = set()
    for n in iter_own(fin.node):
        if isinstance(n, ast.Assign) and len(n.targets) == 1:
            base, keys = _subscript_key_path(n.targets[0])
            if keys and isinstance(keys[0], ast.Constant) and keys[0].value == "average" and base in want:
                seen.add(base)
                v = n.value
                # roles: numerator = the value variable of the innermost `for <k>, <v> in <...>.items()` loop; for the per-process table the
                # divisor is indexed by the same key variable that indexes the average being stored
                lps = ctx.enclosing(fin, n, (ast.For,))
                num = ast.unparse(lps[0].target.elts[1]) if lps and isinstance(lps[0].target, ast.Tuple) and len(lps[0].target.elts) == 2 else None
                wantd = want[base]
                if "[process_name]" in wantd and len(keys) >= 2:
                    wantd = wantd.replace("process_name", ast.unparse(keys[1]))
                okd = isinstance(v, ast.BinOp) and isinstance(v.op, ast.Div) and ast.unparse(v.right) == wantd and num is not None and ast.unparse(v.left) == num
                r.check(okd, f"{base}: average = sum / {want[base]}", key_of(fin, f"{base} average divisor"), fin.loc(n),
                        f"{base}['average'] is computed as `{ast.unparse(v)}`; the sum it divides was accumulated once per `{want[base]}` increment, so any other divisor gives a wrong mean "
                        "(a process that was not sampled in every interval gets too small an average)", "report the true minimum, maximum and mean of the samples taken")
    r.check(seen == set(want), "both average tables are computed in finalize", key_of(fin, "average tables"), fin.loc(), f"average computed for {sorted(seen)} only")
    # the per-process counter advances exactly where the per-process sum does
    src = ast.unparse(fn.node)
    r.check(bool(re.search(r"self\._process_sample_count\[(\w+)\] \+= 1", src)) and bool(re.search(r"self\._process_sample_count\[(\w+)\] = 1", src)), "the per-process sample counter advances with the per-process sum", key_of(fn, "process sample count"), fn.loc(),
            "the per-process sample counter is not advanced together with the per-process sum")


def _cmp_extreme(test):
    """val > X['maximum'][..] / val < X['minimum'][..]  ->  (base, 'max'|'min', var)"""
    if isinstance(test, ast.Compare) and len(test.ops) == 1 and isinstance(test.ops[0], (ast.Gt, ast.Lt, ast.GtE, ast.LtE)):
        a, b, op = test.left, test.comparators[0], test.ops[0]
        for x, y, flip in ((a, b, False), (b, a, True)):
            k = _extreme_kind(y)
            if k and isinstance(x, ast.Name):
                return k[0], k[1], x.id
    return None


def _block_of(ctx, fn, stmt):
    par = ctx.parents(fn).get(id(stmt))
    for field in ("body", "orelse", "finalbody"):
        seq = getattr(par, field, None)
        if isinstance(seq, list) and any(s is stmt for s in seq):
            return seq
    return None


def _inside(ctx, m, st, outer):
    cur = st
    pm = ctx.parents(m)
    while cur is not None:
        if cur is outer:
            return True
        cur = pm.get(id(cur))
    return False


# ----------------------------------------------------------- C20.2 partition
def _fold(e, rc, status):
    """Abstractly evaluate a Result predicate body for a cell (sign of the return code in {-1, 0, 1}, status).
    Negative codes exist: Popen.returncode is -N for a process killed by signal N."""
    if isinstance(e, ast.BoolOp):
        vals = [_fold(v, rc, status) for v in e.values]
        if any(v is None for v in vals):
            return None
        return all(vals) if isinstance(e.op, ast.And) else any(vals)
    if isinstance(e, ast.UnaryOp) and isinstance(e.op, ast.Not):
        v = _fold(e.operand, rc, status)
        return None if v is None else not v
    if isinstance(e, ast.Compare) and len(e.ops) == 1:
        l, rgt, op = ast.unparse(e.left), ast.unparse(e.comparators[0]), e.ops[0]
        if rgt == "self.return_code" and l == "0":
            l, rgt = rgt, l
            op = {ast.Lt: ast.Gt(), ast.Gt: ast.Lt(), ast.LtE: ast.GtE(), ast.GtE: ast.LtE()}.get(type(op), op)
        if l == "self.return_code" and rgt == "0":
            table = {ast.Eq: rc == 0, ast.NotEq: rc != 0, ast.Gt: rc > 0, ast.GtE: rc >= 0, ast.Lt: rc < 0, ast.LtE: rc <= 0}
            return table.get(type(op))
        if rgt == "self.status" and l.startswith("JobCompletionStatus.") and l.endswith(".value"):
            l, rgt = rgt, l
        if l == "self.status" and rgt.startswith("JobCompletionStatus.") and rgt.endswith(".value"):
            name = rgt.split(".")[1]
            if isinstance(op, ast.Eq):
                return status == name
            if isinstance(op, ast.NotEq):
                return status != name
    if isinstance(e, ast.Attribute) and ast.unparse(e) == "self.return_code":
        return rc != 0
    return None


@rule(P, "C20.2", "T11", "the three Result predicates partition every producible (return code, status) cell", min_obligations=3)
def c20_2(ctx, r):
    from ..lib import _single_return

    cls = ctx.cls("result.Result", "C20.2")
    preds = {}
    for name in ("is_successful", "is_failed", "is_canceled"):
        m = cls.methods.get(name)
        if m is None:
            raise AnalysisError("C20.2", f"Result.{name} not found")
        rx = _single_return(m)
        if rx is None:
            raise AnalysisError("C20.2", f"Result.{name} is not a single return expression")
        preds[name] = rx
    cells = [(0, "FINISHED"), (1, "FINISHED"), (-1, "FINISHED"), (1, "CANCELED")]
    for rc, st in cells:
        vals = {n: _fold(e, rc, st) for n, e in preds.items()}
        if any(v is None for v in vals.values()):
            raise AnalysisError("C20.2", f"predicate outside the abstraction: {vals}")
        true = [n for n, v in vals.items() if v]
        want = "is_canceled" if st == "CANCELED" else ("is_successful" if rc == 0 else "is_failed")
        rcd = {0: "0", 1: "positive", -1: "negative (killed by a signal)"}[rc]
        r.check(
            true == [want],
            f"cell rc {rcd}/{st}: exactly {want}",
            key_of(cls.methods[want], f"cell rc {'=' if rc == 0 else ('>' if rc > 0 else '<')} 0/{st} -> {true}"),
            cls.methods[want].loc(),
            f"a result with return code {rcd} and status {st} satisfies {true or 'no predicate'} instead of exactly [{want}]: it is tallied in the wrong class or in none (the tally assertion fails and results.json is never written)",
            "the results summary counts each job in exactly one of successful / failed / canceled / missing",
            cell=[rcd, st],
        )


@rule(P, "C20.3", "T3", "each tally loop increments exactly one counter per result", min_obligations=4)
def c20_3(ctx, r):
    for spec in ("JobSubmitter._build_results", "ResultsSummary.show_results"):
        fn = ctx.fn(spec, "C20.3")
        loops = [n for n in iter_own(fn.node) if isinstance(n, ast.For) and any(isinstance(x, ast.AugAssign) and ast.unparse(x.target).startswith("num_") for x in ast.walk(n))]
        if len(loops) != 1:
            raise AnalysisError("C20.3", f"{fn.short}: expected one tally loop, found {len(loops)}")
        lp = loops[0]
        cfg = ctx.cfg(fn)
        head = [n for n in cfg.nodes if n.kind == "for" and n.ast is lp][0]
        counters = {}
        for n in cfg.nodes:
            a = n.ast
            if n.kind == "stmt" and isinstance(a, ast.AugAssign) and isinstance(a.target, ast.Name) and a.target.id.startswith("num_") and _inside(ctx, fn, a, lp):
                ok_inc = isinstance(a.op, ast.Add) and isinstance(a.value, ast.Constant) and a.value.value == 1
                r.check(ok_inc, f"{fn.short}: {a.target.id} += 1", key_of(fn, f"{a.target.id} increment"), fn.loc(a), f"{ast.unparse(a)} is not an increment by one")
                counters[n.id] = a.target.id
        if len(set(counters.values())) != 3:
            raise AnalysisError("C20.3", f"{fn.short}: expected three counters, found {sorted(set(counters.values()))}")
        # every normal path of one iteration (head -iter-> ... -> head) passes exactly one counter node
        bad = None
        starts = [d for d, k, _ in head.succ if k == "iter"]
        stack = [(s, 0, frozenset()) for s in starts]
        seen = set()
        npaths = 0
        while stack:
            n, cnt, vis = stack.pop()
            if n is head:
                npaths += 1
                if cnt != 1:
                    bad = cnt
                continue
            if n.id in vis:
                continue
            c2 = cnt + (1 if n.id in counters else 0)
            key = (n.id, c2)
            if key in seen:
                continue
            seen.add(key)
            for d, k, _ in n.succ:
                if k in NORMAL_KINDS:
                    stack.append((d, c2, vis | {n.id}))
        ctx.counters["paths"] += npaths
        r.check(bad is None, f"{fn.short}: every iteration increments exactly one counter", key_of(fn, "tally per iteration"), fn.loc(lp),
                f"an iteration of the tally loop can increment {bad} counters (a result is counted in no class or in two)",
                "counts each job in exactly one of successful / failed / canceled / missing")
        # branch conditions are the three predicates
        tests = set()
        for n in ast.walk(lp):
            if isinstance(n, ast.If):
                t = n.test
                while isinstance(t, ast.UnaryOp) and isinstance(t.op, ast.Not):
                    t = t.operand
                tests.add(ast.unparse(t))
        want = {f"{ast.unparse(lp.target)}.{p}()" for p in ("is_successful", "is_failed")}
        r.check(want <= tests, f"{fn.short}: classes are decided by Result.is_successful / is_failed (else canceled, asserted)", key_of(fn, "tally predicates"), fn.loc(lp),
                f"tally branches test {sorted(tests)}")
    # num_missing = len(missing_jobs)
    fn = ctx.fn("JobSubmitter._build_results", "C20.3")
    ok = any(isinstance(n, ast.Dict) and any(isinstance(k, ast.Constant) and k.value == "num_missing" and ast.unparse(v) == "len(missing_jobs)" for k, v in zip(n.keys, n.values)) for n in iter_own(fn.node))
    r.check(ok, "num_missing = len(missing_jobs)", key_of(fn, "num_missing"), fn.loc(), "summary num_missing is not len(missing_jobs)")


@rule(P, "C20.4", "T1", "event consolidation has no conditional skip, sorts by timestamp, and runs once", min_obligations=5)
def c20_4(ctx, r):
    fn = ctx.fn("EventsSummary._consolidate_events", "C20.4")
    skips = [n for n in iter_own(fn.node) if isinstance(n, (ast.If, ast.Continue, ast.Break, ast.Try, ast.IfExp))]
    r.check(not skips, "no conditional skip / swallow in the consolidation loops", key_of(fn, "conditional skip"), fn.loc(skips[0]) if skips else fn.loc(),
            "a branch, continue, break or try inside _consolidate_events can drop events: " + ", ".join(type(s).__name__ for s in skips))
    appends = [n for n in iter_own(fn.node) if isinstance(n, ast.Call) and isinstance(n.func, ast.Attribute) and n.func.attr == "append"]
    ok = False
    for a in appends:
        ev = a.args[0] if a.args else None
        if isinstance(ev, ast.Name) and ast.unparse(a.func.value) == f"self._events[{ev.id}.name]":
            for nd in ctx.nodes_of(fn, a):
                d = inlined(ctx, fn, ev, nd)
                ok = ok or bool(re.fullmatch(r"deserialize_event\(json\.loads\(\w+\)\)", d or ""))
    r.check(ok, "every deserialised line is appended under its event name", key_of(fn, "append event"), fn.loc(), "_consolidate_events does not append each event under self._events[event.name]")
    loops = [n for n in iter_own(fn.node) if isinstance(n, ast.For)]
    ok_files = any("_iter_event_files" in ast.unparse(l.iter) for l in loops)
    r.check(ok_files, "all *events.log files are read", key_of(fn, "files"), fn.loc(), "_consolidate_events does not iterate self._iter_event_files()")
    itf = ctx.fn("EventsSummary._iter_event_files", "C20.4")
    r.check('glob("*events.log")' in ast.unparse(itf.node).replace("'", '"'), "event files = <output>/*events.log", key_of(itf, "glob"), itf.loc(), "_iter_event_files no longer globs *events.log")
    sorts = [n for n in iter_own(fn.node) if isinstance(n, ast.Call) and isinstance(n.func, ast.Attribute) and n.func.attr == "sort"]
    ok_sort = any("timestamp" in ast.unparse(k.value) for s in sorts for k in s.keywords if k.arg == "key") and not any(
        isinstance(k.value, ast.Constant) and k.value.value for s in sorts for k in s.keywords if k.arg == "reverse"
    )
    r.check(ok_sort, "events sorted ascending by timestamp within each name", key_of(fn, "sort"), fn.loc(), "events are not sorted by timestamp (ascending) per name")
    # re-consolidation guarded by an empty events directory
    init = ctx.fn("EventsSummary.__init__", "C20.4")
    cs = ctx.sites(init, short="EventsSummary._consolidate_events")
    if not cs:
        raise AnalysisError("C20.4", "no _consolidate_events call in EventsSummary.__init__")
    for s in cs:
        for n in ctx.nodes_of(init, s.node):
            forms = guard_forms(ctx, init, n)
            ok = any((not p) and ("iterdir" in f or f == "event_files") for f, p in forms)
            r.check(ok, "consolidation only when the consolidated directory is empty", key_of(init, "reconsolidate"), s.loc,
                    "consolidation runs although consolidated files exist: events are appended a second time",
                    "consolidating again does not change it", guards=sorted(("" if p else "not ") + f for f, p in forms))
    # rows appended inside a loop must be fresh objects (an object created outside the loop and mutated inside is
    # appended repeatedly: every row ends up with the fields of the last one)
    svf = ctx.fn("EventsSummary._save_events_summary", "C20.4")
    cfgs = ctx.cfg(svf)
    for n in cfgs.nodes:
        for c in cfgs.calls_at(n):
            if isinstance(c.func, ast.Attribute) and c.func.attr == "append" and c.args and isinstance(c.args[0], ast.Name):
                v = c.args[0].id
                loops = ctx.enclosing(svf, c, (ast.For,))
                if not loops:
                    continue
                inner = loops[0]
                defs = ctx.rd(svf).reaching(n, v)
                outside = [d for d in defs if not any(l is inner for l in ctx.enclosing(svf, cfgs.nodes[d].stmt, (ast.For,)))]
                mutated = any(isinstance(x, ast.Call) and isinstance(x.func, ast.Attribute) and isinstance(x.func.value, ast.Name) and x.func.value.id == v and x.func.attr in ("update", "setdefault", "pop", "clear")
                              or (isinstance(x, ast.Subscript) and isinstance(x.ctx, ast.Store) and isinstance(x.value, ast.Name) and x.value.id == v) for x in ast.walk(inner))
                r.check(not (outside and mutated), f"`{ast.unparse(c)}`: the appended row is created inside the loop that appends it", key_of(svf, f"shared row object {v}"), svf.loc(c),
                        f"`{v}` is created outside the innermost loop, mutated inside it and appended on every iteration: all rows of one event are the same object and carry the fields of the last process",
                        "appears exactly once in the consolidated event summary with all fields intact")
    # save: every non-resource event list is written in full
    sv = ctx.fn("EventsSummary._save_events_summary", "C20.4")
    from ..lib import collections_from

    cols = [c for c in collections_from(ctx, sv, lambda e: isinstance(e, ast.Name)) if "to_dict" in c["elt"]]
    r.check(bool(cols) and all(not c["conds"] for c in cols), "every event of a name is written (no filter)", key_of(sv, "filter"), sv.loc(),
            "_save_events_summary filters the events it writes: events are missing from the consolidated summary")


@rule(P, "C20.5", "T9", "event writer and reader agree on keys (every attribute written is read back into the same parameter)", min_obligations=7)
def c20_5(ctx, r):
    cls = ctx.cls("StructuredLogEvent", "C20.5")
    init = cls.methods["__init__"]
    written = set()
    for n in iter_own(init.node):
        if isinstance(n, ast.Attribute) and isinstance(n.ctx, ast.Store) and isinstance(n.value, ast.Name) and n.value.id == "self":
            written.add(n.attr)
    s = cls.methods["__str__"]
    r.check("json.dumps(self.__dict__" in ast.unparse(s.node), "an event is written as the JSON of its attribute dict", key_of(s, "writer"), s.loc(), "StructuredLogEvent.__str__ no longer dumps self.__dict__")
    de = cls.methods["deserialize"]
    calls = [n for n in iter_own(de.node) if isinstance(n, ast.Call) and isinstance(n.func, ast.Name) and n.func.id == "cls"]
    if len(calls) != 1:
        raise AnalysisError("C20.5", "deserialize does not construct cls(...) once")
    read = {}
    for k in calls[0].keywords:
        if k.arg is None:
            t = ast.unparse(k.value)
            if t.replace("'", '"') == 'record["data"]':
                read["data"] = "**"
            continue
        v = k.value
        key = None
        if isinstance(v, ast.Call) and ast.unparse(v.func) == "record.get" and v.args and isinstance(v.args[0], ast.Constant):
            key = v.args[0].value
        elif isinstance(v, ast.Subscript) and ast.unparse(v.value) == "record" and isinstance(v.slice, ast.Constant):
            key = v.slice.value
        read[k.arg] = key
    for attr in sorted(written - {"event_class"}):
        if attr == "data":
            r.check(read.get("data") == "**", "the free-form data dict is read back whole (**record['data'])", key_of(de, "data"), de.loc(), "deserialize no longer passes **record['data']: user fields of events are dropped",
                    "with all fields intact")
        else:
            r.check(read.get(attr) == attr, f"attribute '{attr}' is read back from key '{attr}' into parameter '{attr}'", key_of(de, f"reads {attr} from {read.get(attr)}"), de.loc(),
                    f"deserialize passes {attr}=record[{read.get(attr)!r}]: the consolidated event carries another field's value (or an empty string) in `{attr}`", "with all fields intact")
    params = set(init.params[1:]) | {"timestamp", "data"}
    r.check(set(read) <= params, "deserialize passes only constructor parameters", key_of(de, "unknown parameters"), de.loc(), f"deserialize passes {sorted(set(read) - params)}")
    dv = ctx.fn("events.deserialize_event", "C20.5")
    cfgd = ctx.cfg(dv)
    dp = dv.params[0]
    seen_cls, okd = set(), True
    for n in cfgd.nodes:
        if n.kind == "stmt" and isinstance(n.ast, ast.Return) and isinstance(n.ast.value, ast.Call) and isinstance(n.ast.value.func, ast.Attribute) and n.ast.value.func.attr == "deserialize":
            cname = ast.unparse(n.ast.value.func.value)
            forms = {f.replace('"', "'") for f, p in inlined_guards(ctx, dv, n) if p}
            okd = okd and (f"{dp}['event_class']=='{cname}'" in forms or f"'{cname}'=={dp}['event_class']" in forms) and [ast.unparse(x) for x in n.ast.value.args] == [dp]
            seen_cls.add(cname)
    raises = [n for n in cfgd.nodes if n.kind == "stmt" and isinstance(n.ast, ast.Raise)]
    r.check(okd and seen_cls == {"StructuredLogEvent", "StructuredErrorLogEvent"} and bool(raises),
            "the class is chosen by the written event_class; unknown classes raise", key_of(dv, "dispatch"), dv.loc(), "deserialize_event no longer dispatches on event_class / no longer raises on unknown classes")
    # timestamp given on read is kept (not replaced by now)
    ok = False
    for n in ctx.cfg(init).nodes:
        if n.kind == "stmt" and isinstance(n.ast, ast.Assign) and ast.unparse(n.ast.targets[0]) == "self.timestamp" and "kwargs.pop" in ast.unparse(n.ast.value):
            ok = any(p and f.replace('"', "'") == "'timestamp' in kwargs" for f, p in guard_forms(ctx, init, n))
    r.check(ok, "a timestamp passed in is kept (consolidating again does not re-stamp)", key_of(init, "timestamp"), init.loc(), "StructuredLogEvent.__init__ no longer keeps a passed timestamp", "consolidating again does not change it")
    le = ctx.fn("loggers.log_event", "C20.5")
    okle = False
    for c in iter_own(le.node):
        if isinstance(c, ast.Call) and isinstance(c.func, ast.Attribute) and c.func.attr == "info" and len(c.args) == 1 and ast.unparse(c.args[0]) == le.params[0]:
            for nd in ctx.nodes_of(le, c):
                okle = okle or inlined(ctx, le, c.func.value, nd) == "logging.getLogger(_EVENT_LOGGER_NAME)"
    r.check(okle, "log_event writes one line per event to the event logger", key_of(le, "log_event"), le.loc(), "log_event changed")


@rule(P, "C20.6", "T2", "one row per job after a resubmission: old rows of every rerun job (dependents included) are pruned before the tallies are rebuilt", min_obligations=2)
def c20_6(ctx, r):
    from .c13 import closure_before_consumers

    closure_before_consumers(ctx, r, "C20.6")


@rule(P, "C20.7", "T10+T8", "every process opens its event file for appending (the files are shared by successive commands of one submission)", min_obligations=6)
def c20_7(ctx, r):
    sel = ctx.fn("loggers.setup_event_logging", "C20.7")
    n = 0
    for f in ctx.ix.functions.values():
        for s in ctx.cg.sites_in(f):
            if not s.calls_short(ctx.ix, "loggers.setup_event_logging"):
                continue
            n += 1
            m = ctx.arg_for(s, sel, "mode")
            r.check(isinstance(m, ast.Constant) and m.value == "a", f"{f.short}: event log opened with mode='a'", key_of(f, "event log truncated"), s.loc,
                    f"`{ctx.src(s.node)}` opens the event file with mode {ctx.src(m) if m is not None else repr('w') + ' (the default)'}: the events that earlier commands / rounds of this submission wrote to the same file are erased "
                    "and are missing from the consolidated summary", "Every structured event written by any JADE process of a submission appears exactly once")
    if n < 6:
        raise AnalysisError("C20.7", f"only {n} setup_event_logging call sites found (6 confirmed by reading)")
    # the mode reaches the file handler
    ok = False
    for d in ast.walk(sel.node):
        if isinstance(d, ast.Dict):
            for k, v in zip(d.keys, d.values):
                if isinstance(k, ast.Constant) and k.value == "mode" and isinstance(v, ast.Name) and v.id == "mode":
                    ok = True
    r.check(ok, "the handler is configured with the requested mode", key_of(sel, "handler mode"), sel.loc(), "setup_event_logging no longer passes `mode` to the file handler")


@rule(P, "C20.8", "T10", "statistics summaries: minimum, maximum and average of one entry are taken over the same sample set", min_obligations=3)
def c20_8(ctx, r):
    """Sibling agreement inside each summary builder of jade.resource_monitor: the three `entry[<stat>].update(<frame>[cols].<agg>()...)`
    statements of one loop body aggregate the same data frame (the per-name group inside a groupby loop)."""
    n = 0
    for f in ctx.ix.functions.values():
        if not f.module.name.endswith("resource_monitor"):
            continue
        for lp in [x for x in ast.walk(f.node) if isinstance(x, ast.For)]:
            ups = {}
            for st in lp.body:
                c = st.value if isinstance(st, ast.Expr) else None
                if isinstance(c, ast.Call) and isinstance(c.func, ast.Attribute) and c.func.attr == "update" and isinstance(c.func.value, ast.Subscript) and isinstance(c.func.value.slice, ast.Constant) \
                        and c.func.value.slice.value in ("average", "minimum", "maximum") and c.args:
                    arg0 = c.args[0]
                    for nd in ctx.nodes_of(f, c):
                        arg0 = __import__("jcheck.lib", fromlist=["inline_locals"]).inline_locals(ctx, f, c.args[0], nd)
                    frames = [ast.unparse(x.value) for x in ast.walk(arg0) if isinstance(x, ast.Subscript) and isinstance(x.value, ast.Name)]
                    aggs = [x.func.attr for x in ast.walk(c.args[0]) if isinstance(x, ast.Call) and isinstance(x.func, ast.Attribute) and x.func.attr in ("mean", "min", "max")]
                    ups[c.func.value.slice.value] = (frames[0] if frames else None, aggs[0] if aggs else None, st)
            if len(ups) < 3:
                continue
            n += 1
            frames = {v[0] for v in ups.values()}
            gv = None
            if isinstance(lp.iter, ast.Call) and isinstance(lp.iter.func, ast.Attribute) and lp.iter.func.attr == "groupby" and isinstance(lp.target, ast.Tuple):
                gv = ast.unparse(lp.target.elts[1])
            ok = len(frames) == 1 and (gv is None or frames == {gv})
            r.check(ok, f"{f.short}: the three statistics of an entry aggregate one frame", key_of(f, f"statistics over different frames {sorted(str(x) for x in frames)}"), f.loc(ups["maximum"][2]),
                    f"{f.short} computes average / minimum / maximum of one entry over {sorted(str(x) for x in frames)}" + (f" inside the groupby loop whose group frame is `{gv}`" if gv else "") +
                    ": one of the statistics is taken over the whole batch instead of this entry's samples", "report the true minimum, maximum and mean of the samples taken")
            want = {"average": "mean", "minimum": "min", "maximum": "max"}
            for k, (fr, ag, st) in ups.items():
                r.check(ag == want[k], f"{f.short}: `{k}` is computed with .{want[k]}()", key_of(f, f"{k} computed with {ag}"), f.loc(st), f"`{ast.unparse(st)[:70]}` computes the {k} with .{ag}()")
    if n < 1:
        raise AnalysisError("C20.8", "no summary builder with the three statistics found in jade.resource_monitor")


@rule(P, "C20.9", "T3+T6", "events are moved, not copied, into the node log; closing the event log keeps its handler attached", min_obligations=2)
def c20_9(ctx, r):
    # (1) JobRunner._aggregate_events: every job event file read into the node log is removed in the same iteration (the job files
    #     are opened in append mode by the jobs: a rerun of the job in the same output directory would otherwise re-deliver the old events)
    ag = ctx.fn("JobRunner._aggregate_events", "C20.9")
    cfg = ctx.cfg(ag)
    opens = []
    for lp in [x for x in iter_own(ag.node) if isinstance(x, ast.For)]:
        for w in [x for x in ast.walk(lp) if isinstance(x, ast.With)]:
            for it in w.items:
                c = it.context_expr
                if isinstance(c, ast.Call) and ast.unparse(c.func) == "open" and c.args and isinstance(c.args[0], ast.Name) and (len(c.args) == 1 or (isinstance(c.args[1], ast.Constant) and "r" in str(c.args[1].value))):
                    opens.append((lp, w, c.args[0].id))
    if not opens:
        raise AnalysisError("C20.9", "_aggregate_events: the read of the per-job event file was not recognised")
    for lp, w, var in opens:
        rems = [nd for c in ast.walk(lp) if isinstance(c, ast.Call) and ast.unparse(c.func) in ("os.remove", "os.unlink") and c.args and ast.unparse(c.args[0]) == var for nd in ctx.nodes_of(ag, c)]
        rems += [nd for c in ast.walk(lp) if isinstance(c, ast.Call) and isinstance(c.func, ast.Attribute) and c.func.attr == "unlink" and ast.unparse(c.func.value) == var for nd in ctx.nodes_of(ag, c)]
        wn = [nd for nd in cfg.nodes if nd.kind == "with" and nd.ast is w]
        ok = bool(rems) and bool(wn) and all(__import__("jcheck.lib", fromlist=["always_followed_by"]).always_followed_by(ctx, ag, x, rems, NORMAL_KINDS, exits=[cfg.exit] + [h for h in cfg.nodes if h.kind == "for" and h.ast is lp]) for x in wn)
        r.check(ok, "a job's event file is removed once its lines were copied into the node log", key_of(ag, f"{var} copied but not removed"), ag.loc(w),
                f"_aggregate_events copies `{var}` into the node's event log but does not remove it in the same iteration: the job writes that file in append mode, so when the job runs again in this output directory "
                "(resubmit-jobs) its old events are copied a second time and appear twice in the consolidated summary", "appears exactly once in the consolidated event summary")
    # (2) close_event_logging only closes: a closed FileHandler reopens (append mode) on the next record, a removed one is gone
    ce = ctx.fn("loggers.close_event_logging", "C20.9")
    rm = [c for c in iter_own(ce.node) if isinstance(c, ast.Call) and isinstance(c.func, ast.Attribute) and c.func.attr in ("removeHandler", "clear") or (isinstance(c, ast.Call) and ast.unparse(c.func).endswith("handlers.clear"))]
    cl = [c for c in iter_own(ce.node) if isinstance(c, ast.Call) and isinstance(c.func, ast.Attribute) and c.func.attr == "close"]
    r.check(bool(cl) and not rm, "close_event_logging closes the handlers and leaves them attached", key_of(ce, "event handler detached"), ce.loc(rm[0]) if rm else ce.loc(),
            "close_event_logging detaches the event log handler: in a process that goes on logging events afterwards (local mode: the submitter's completion events follow the runner's aggregation) "
            "every later event is dropped silently", "Every structured event written by any JADE process of a submission appears exactly once")


@rule(P, "C20.10", "T2", "the submitter logs its completion events before the reports consolidate the event files", min_obligations=2)
def c20_10(ctx, r):
    """generate_reports() runs `jade show-events` / `jade stats ...`, whose EventsSummary consolidates the *.log event files once and caches the
    result (events.json); an event logged by the completing submitter after that call is in its log file but in no summary, so
    list_events()/get_bytes_consumed() silently miss it.  Decided on the CFG of _handle_completion: no log_event() call is reachable from the
    generate_reports() call."""
    from ..lib import reachable_from

    fn = ctx.fn("JobSubmitter._handle_completion", "C20.10")
    gens = [n for s in ctx.sites(fn, short="JobSubmitter.generate_reports") for n in ctx.nodes_of(fn, s.node)]
    logs = [(c, n) for c in iter_own(fn.node) if isinstance(c, ast.Call) and ctx.src(c.func).split(".")[-1] == "log_event" for n in ctx.nodes_of(fn, c)]
    if not gens or len(logs) < 2:
        raise AnalysisError("C20.10", f"{len(gens)} generate_reports calls and {len(logs)} log_event calls in _handle_completion")
    after = set()
    for g in gens:
        after |= set(reachable_from(ctx, fn, g, kinds=NORMAL_KINDS))
    for c, n in logs:
        arg = ctx.src(c.args[0]) if c.args else ""
        what = ""
        if c.args and isinstance(c.args[0], ast.Name):
            g = ctx.guards(fn).expand(c.args[0], n)
            names = [ctx.src(k.value) for k in getattr(g, "keywords", []) if k.arg == "name"]
            what = names[0] if names else arg
        r.check(n.id not in after, f"log_event({what or arg}) precedes generate_reports", key_of(fn, f"event {what or arg} logged after the reports"), fn.loc(c),
                f"the submitter logs the event `{what or arg}` after generate_reports() has consolidated the event files: it never reaches the events summary the reports and `jade show-events` read",
                "every structured event ... appears in the consolidated summary exactly once")


@rule(P, "C20.11", "T8", "each node's resource statistics go to a file of their own: the monitor is named after the batch *and* the node", min_obligations=1)
def c20_11(ctx, r):
    """stats/<name>_resource_stats.json (aggregation) and the <name> source of periodic events are keyed by the monitor's name.  Every node of a
    multi-node batch runs JobRunner._run_jobs with the same batch id; only the node id tells them apart.  Without it the last node overwrites
    the others' file, and the reported min / max / mean are those of one node (or, in periodic mode, of all nodes mixed under one source)."""
    fn = ctx.fn("JobRunner._run_jobs", "C20.11")
    n = 0
    for s in ctx.cg.sites_in(fn):
        cn = (s.constructs or "").split(".")[-1]
        if cn not in ("ResourceMonitorAggregator", "ResourceMonitorLogger"):
            continue
        n += 1
        a = s.node.args[0] if s.node.args else next((k.value for k in s.node.keywords if k.arg == "name"), None)
        e = inlined_expr(ctx, fn, a) if a is not None else None
        attrs = {x.attr for x in ast.walk(e) if isinstance(x, ast.Attribute) and isinstance(x.value, ast.Name) and x.value.id == fn.params[0]} if e is not None else set()
        r.check({"_batch_id", "_node_id"} <= attrs, f"{cn} is named after batch and node", key_of(fn, f"{cn} name lacks {sorted({'_batch_id', '_node_id'} - attrs)}"), s.loc,
                f"the {cn} is named `{ctx.src(e) if e is not None else None}`, which does not depend on {sorted({'_batch_id', '_node_id'} - attrs)}: the nodes of a multi-node batch write the same stats file / event source, "
                "so the statistics reported are not those of the samples taken on each node", "the true minimum, maximum and mean of the samples taken")
    if n < 1:
        raise AnalysisError("C20.11", "no resource monitor constructed in JobRunner._run_jobs")

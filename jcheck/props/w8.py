"""Rules written from the misses of seeded wave 8.  Each function decides one necessary condition; the table at the end registers it
under the properties whose statement it is a necessary condition of (rule ids continue each property's numbering)."""

import ast

from .. import AnalysisError
from ..cfg import ALL_KINDS, NORMAL_KINDS, iter_own
from ..lib import inline_locals, inlined_expr, iteration_paths, key_of, swallowing_handlers
from ..report import RULES, rule


# ------------------------------------------------------------------------------------------------ sbatch at most once per hand-off
def sbatch_once(ctx, r, rid):
    """SlurmManager.submit hands one script to sbatch.  run_command's own retry loop repeats the process only after a non-zero exit.  A loop
    around the call inside submit() that comes back to it after exit 0 (output not understood, say) submits the same script again although
    SLURM accepted it the first time: two allocations run the same batch."""
    fn = ctx.fn("SlurmManager.submit", rid)
    sites = [s for s in ctx.cg.sites_in(fn) if s.node.args and "sbatch" in ctx.src(s.node.args[0])]
    if not sites:
        raise AnalysisError(rid, "no sbatch call found in SlurmManager.submit")
    for s in sites:
        loops = ctx.enclosing(fn, s.node, (ast.For, ast.While))
        if not loops:
            r.ok("the sbatch call is not inside a loop of submit()")
            continue
        st = ctx.stmt_of(fn, s.node)
        var = st.targets[0].id if isinstance(st, ast.Assign) and isinstance(st.targets[0], ast.Name) else None
        call_nodes = {n.id for n in ctx.nodes_of(fn, st)}
        for loop in loops:
            for end, conds, last, path in iteration_paths(ctx, fn, loop, with_path=True):
                if end != "next":
                    continue
                seen_call = False
                failed = False
                for n, k, c in path:
                    if n.id in call_nodes:
                        seen_call = True
                    elif seen_call and k in ("T", "F") and c is not None:
                        txt = ctx.src(c).replace(" ", "")
                        refers = (var is not None and var in {x.id for x in ast.walk(c) if isinstance(x, ast.Name)}) or "sbatch" in txt
                        if refers and ((k == "T" and "!=0" in txt) or (k == "F" and "==0" in txt) or (k == "T" and txt in (var,)) or (k == "F" and txt == f"not{var}")):
                            failed = True
                if seen_call:
                    r.check(failed, "a new iteration after the sbatch call is reached only when sbatch exited non-zero", key_of(fn, "sbatch repeated after exit 0"), fn.loc(s.node),
                            "submit() loops back to `sbatch <script>` on a path where sbatch exited 0: SLURM accepted the batch (only its answer was not understood) and the same script is submitted again - "
                            "the batch's jobs run twice under two allocations and one batch identifier", "never reuses a batch identifier, never starts a job's command more than once / no job handed to the HPC twice")


# ------------------------------------------------------------------------------------------------ a failed status poll stops the round
def poll_failure_propagates(ctx, r, rid):
    """check_statuses raises ExecutionError when squeue fails.  The status table of a new process is empty, and an id missing from the table reads as
    NONE = finished.  If any function between the poll and the round swallows the failure, every active batch is taken for finished: its id is
    dropped from hpc_job_ids, new batches are submitted beyond max_nodes, cancel-jobs never scancels it, forced completion declares its jobs missing."""
    chain = [("HpcStatusCollector.check_status", "HpcManager.check_statuses"), ("AsyncHpcSubmitter.is_complete", "HpcStatusCollector.check_status")]
    for caller, callee in chain:
        fn = ctx.fn(caller, rid)
        for s in ctx.some_sites(fn, rid, short=callee):
            hs = swallowing_handlers(ctx, fn, s.node)
            what = ", ".join(sorted({ctx.src(h.type) if h.type is not None else "everything" for h in hs}))
            r.check(not hs, f"{caller}: a failed scheduler poll propagates", key_of(fn, f"swallows a failed {callee.split('.')[-1]}"), s.loc,
                    f"{caller} catches {what} around {callee.split('.')[-1]}() and goes on with the table it has: in a new process that table is empty, every tracked batch reads as NONE (finished), its id is "
                    "removed from hpc_job_ids - the round submits beyond max_nodes, a later cancel-jobs does not scancel it, forced completion reports its jobs missing",
                    "after a transient squeue failure the next round proceeds normally / every batch that was active is asked to be canceled / at most max_nodes batches active")
    fn = ctx.fn("HpcManager.check_statuses", rid)
    for s in ctx.cg.sites_in(fn):
        if isinstance(s.node.func, ast.Attribute) and s.node.func.attr == "check_statuses":
            hs = swallowing_handlers(ctx, fn, s.node)
            r.check(not hs, "HpcManager.check_statuses: the interface's failure propagates", key_of(fn, "swallows a failed poll"), s.loc, "HpcManager.check_statuses swallows the interface's failure and returns a partial table")


# ------------------------------------------------------------------------------------------------ every batch end triggers a submitter round
def runner_status_good(ctx, r, rid):
    """`jade-internal run-jobs` starts the next submitter round (try-submit-jobs) only if JobRunner.run_jobs answered Status.GOOD.  The answer must not
    depend on how the *jobs* ended: after a batch with a failed job the dependents in other batches still need their outcome (canceled or started)."""
    fn = ctx.fn("JobRunner._run_jobs", rid)
    rets = [n for n in iter_own(fn.node) if isinstance(n, ast.Return)]
    if not rets:
        raise AnalysisError(rid, "JobRunner._run_jobs has no return")
    for ret in rets:
        txt = ctx.src(inlined_expr(ctx, fn, ret.value)) if ret.value is not None else "None"
        r.check(txt == "Status.GOOD", "a batch that ran to its end answers GOOD whatever its jobs returned", key_of(fn, f"returns {txt}"), fn.loc(ret),
                f"JobRunner._run_jobs returns `{txt}`: run-jobs launches try-submit-jobs only for Status.GOOD, so after this answer no submitter round follows the batch - jobs waiting for its outcomes "
                "are neither canceled nor started unless some other batch ends later", "an unflagged job starts once its blockers have outcomes / the submission makes progress")


def _filled_from_results(ctx, fn, name):
    """`name` is a local set that starts empty and only ever receives `<r>.name` for r drawn from ResultsAggregator.process_results()."""
    adds = 0
    for x in iter_own(fn.node):
        if isinstance(x, ast.Assign) and any(isinstance(t, ast.Name) and t.id == name for t in x.targets):
            if ctx.src(x.value) != "set()":
                return False
        elif isinstance(x, ast.AugAssign) and isinstance(x.target, ast.Name) and x.target.id == name:
            return False
        elif isinstance(x, ast.Call) and isinstance(x.func, ast.Attribute) and isinstance(x.func.value, ast.Name) and x.func.value.id == name and x.func.attr in ("add", "update", "append", "extend", "union"):
            if x.func.attr != "add" or len(x.args) != 1 or not (isinstance(x.args[0], ast.Attribute) and x.args[0].attr == "name" and isinstance(x.args[0].value, ast.Name)):
                return False
            var = x.args[0].value.id
            loops = [l for l in ctx.enclosing(fn, x, (ast.For,)) if isinstance(l.target, ast.Name) and l.target.id == var]
            if not loops or "process_results()" not in ctx.src(loops[0].iter):
                return False
            adds += 1
    return adds >= 1

# ------------------------------------------------------------------------------------------------ a blocker leaves blocked_by only when it is DONE
def blockers_removed_when_done(ctx, r, rid):
    """Job.blocked_by of a waiting job shrinks by the names of jobs that *completed* (HpcSubmitter._update_completed_jobs: difference_update(newly
    completed)); it is emptied for a job that is itself submitted/done/canceled.  Removing a name because that job was merely *submitted* releases the
    waiting job while its blocker is still queued or running."""
    n = 0
    for fn in ctx.ix.functions.values():
        if not fn.module.name.startswith(("jade.jobs.cluster", "jade.hpc.hpc_submitter", "jade.models.jobs")):
            continue
        for call in [c for c in iter_own(fn.node) if isinstance(c, ast.Call) and isinstance(c.func, ast.Attribute)]:
            f = call.func
            if not (isinstance(f.value, ast.Attribute) and f.value.attr == "blocked_by" and f.attr in ("difference_update", "discard", "remove", "intersection_update", "symmetric_difference_update", "pop")):
                continue
            n += 1
            arg = call.args[0] if call.args else None
            ok = False
            why = ctx.src(call)
            if f.attr == "difference_update" and arg is not None:
                e = inline_locals(ctx, fn, arg, ctx.nodes_of(fn, ctx.stmt_of(fn, call))[0]) if isinstance(arg, ast.Name) else arg
                # the removed set must be a parameter / local that the callers fill with completed job names: accepted only in the one
                # function that receives the names of jobs whose results were just processed
                ok = fn.short == "HpcSubmitter._update_completed_jobs" and isinstance(arg, ast.Name) and _filled_from_results(ctx, fn, arg.id)
                if not ok and isinstance(e, (ast.SetComp, ast.ListComp, ast.GeneratorExp, ast.Set)):
                    txt = ctx.src(e)
                    ok = "JobState.DONE" in txt and "SUBMITTED" not in txt
            r.check(ok, "names are removed from blocked_by only for completed jobs", key_of(fn, f"{f.attr} on blocked_by"), fn.loc(call),
                    f"`{why[:120]}` in {fn.short} takes names out of a waiting job's remaining-blockers set that are not (only) names of *completed* jobs: a job whose blocker is submitted but still "
                    "running reads as unblocked and is handed to another batch", "no job is handed to the HPC while a blocker is unfinished and not in the same batch")
        for st in [s for s in iter_own(fn.node) if isinstance(s, ast.AugAssign) and isinstance(s.target, ast.Attribute) and s.target.attr == "blocked_by"]:
            n += 1
            r.bad(key_of(fn, "augmented assignment on blocked_by"), fn.loc(st), f"`{ctx.src(st)[:100]}` rewrites a remaining-blockers set outside the completed-jobs update")
    if n < 1:
        raise AnalysisError(rid, "no removal from blocked_by found (HpcSubmitter._update_completed_jobs expected)")


# ------------------------------------------------------------------------------------------------ the job name given to the scheduler is the batch name
def submit_name_unchanged(ctx, r, rid):
    """HpcManager.submit(directory, name, script, submission_group_name, ...) passes `name` to create_submission_script as the scheduler's job name;
    JADE later recognises its batches by that name.  The parameter must reach the call unchanged."""
    fn = ctx.fn("HpcManager.submit", rid)
    sites = [s for s in ctx.cg.sites_in(fn) if isinstance(s.node.func, ast.Attribute) and s.node.func.attr == "create_submission_script"]
    if not sites or "name" not in fn.params:
        raise AnalysisError(rid, "HpcManager.submit(name=...) -> create_submission_script anchor not found")
    rebinds = [st for st in iter_own(fn.node) if isinstance(st, (ast.Assign, ast.AugAssign)) and any(isinstance(t, ast.Name) and t.id == "name" for t in (st.targets if isinstance(st, ast.Assign) else [st.target]))]
    for s in sites:
        a0 = s.node.args[0] if s.node.args else next((k.value for k in s.node.keywords if k.arg == "name"), None)
        ok = isinstance(a0, ast.Name) and a0.id == "name" and not rebinds
        r.check(ok, "the job name handed to the script writer is submit()'s `name` parameter, unchanged", key_of(fn, "job name"), s.loc,
                f"create_submission_script receives `{ctx.src(a0) if a0 is not None else None}`" + (f" after `{ctx.src(rebinds[0])[:80]}` rebound the parameter" if rebinds else "") +
                ": the #SBATCH --job-name differs from the batch name JADE uses for the same batch", "generated sbatch scripts carry exactly the configured parameters and job name")


# ------------------------------------------------------------------------------------------------ one scheduler interface per submission group
def interface_per_group(ctx, r, rid):
    """HpcManager.__init__ builds, for every submission group, an interface from *that group's* hpc_config; the script writer reads the group's
    account / partition / walltime / ... from it.  An interface looked up by anything coarser than the group (hpc_type, say) gives every later
    group the first group's parameters."""
    fn = ctx.fn("HpcManager.__init__", rid)
    loops = [l for l in iter_own(fn.node) if isinstance(l, ast.For) and "submission_groups" in ctx.src(l.iter)]
    if len(loops) != 1:
        raise AnalysisError(rid, f"expected one loop over submission_groups in HpcManager.__init__, found {len(loops)}")
    loop = loops[0]
    gvar = loop.target.elts[1].id if isinstance(loop.target, ast.Tuple) and len(loop.target.elts) == 2 and isinstance(loop.target.elts[1], ast.Name) else (loop.target.id if isinstance(loop.target, ast.Name) else None)
    stores = [st for st in ast.walk(loop) if isinstance(st, ast.Assign) and any(isinstance(t, ast.Subscript) and ctx.src(t.value) == "self._intfs" for t in st.targets)]
    if not stores or gvar is None:
        raise AnalysisError(rid, "no store into self._intfs inside the loop over submission_groups")
    for st in stores:
        v = st.value
        e = inline_locals(ctx, fn, v, ctx.nodes_of(fn, st)[0]) if isinstance(v, ast.Name) else v
        ok = isinstance(e, ast.Call) and ctx.src(e.func).endswith("create_hpc_interface") and len(e.args) == 1
        if ok:
            a = e.args[0]
            a = inline_locals(ctx, fn, a, ctx.nodes_of(fn, st)[0]) if isinstance(a, ast.Name) else a
            ok = ctx.src(a) == f"{gvar}.submitter_params.hpc_config"
        guarded = [p for p in ctx.enclosing(fn, st, (ast.If,)) if any(p is x for x in ast.walk(loop))]
        r.check(ok and not guarded, "each group's interface is created from that group's own hpc_config", key_of(fn, "interface of a group"), fn.loc(st),
                f"`{ctx.src(st)[:110]}`: the interface stored for a submission group is not `create_hpc_interface(<that group>.submitter_params.hpc_config)` - groups that share the looked-up key get "
                "the first group's account / partition / walltime / memory in their sbatch script", "generated sbatch scripts carry exactly the configured parameters / submitted with that group's HPC parameters")


# ------------------------------------------------------------------------------------------------ the runner runs every job of its configuration
def runner_runs_all_jobs(ctx, r, rid):
    """The per-batch (or, in local mode, the whole) configuration handed to JobRunner lists exactly the jobs to run.  _generate_jobs must wrap every one
    of them: a filter (by submission group, say) leaves jobs without a result that nothing will ever run."""
    fn = ctx.fn("JobRunner._generate_jobs", rid)
    made = [c for c in iter_own(fn.node) if isinstance(c, ast.Call) and ctx.src(c.func) == "AsyncCliCommand"]
    if len(made) != 1:
        raise AnalysisError(rid, f"expected one AsyncCliCommand(...) in JobRunner._generate_jobs, found {len(made)}")
    loops = ctx.enclosing(fn, made[0], (ast.For,))
    comps = [c for c in ctx.enclosing(fn, made[0], (ast.ListComp, ast.GeneratorExp)) if c.elt is made[0]]
    if not loops and len(comps) == 1 and len(comps[0].generators) == 1:
        # comprehension form of the same loop: [AsyncCliCommand(...) for job in <source> (if ...)]
        g = comps[0].generators[0]
        txt = ctx.src(g.iter)
        r.check(txt in ("self._config.iter_jobs()", "self.config.iter_jobs()") and not g.ifs, "every job of the runner's configuration is wrapped and queued", key_of(fn, "job source"), fn.loc(comps[0]),
                f"JobRunner._generate_jobs builds commands from `{txt}`" + (" under a filter" if g.ifs else "") + ", not from every job of its configuration: the jobs left out are never run by anyone and end as missing",
                "exactly one entry per configured job, no missing jobs, independent of submission groups and local versus HPC mode")
        return
    if len(loops) != 1:
        raise AnalysisError(rid, "AsyncCliCommand(...) is not built in a single for loop")
    it = inlined_expr(ctx, fn, loops[0].iter)
    txt = ctx.src(it)
    ok = txt in ("self._config.iter_jobs()", "self.config.iter_jobs()")
    if not ok and isinstance(it, ast.Call):
        callee = [ctx.ix.functions.get(t) for s in ctx.cg.sites_in(fn) if s.node is loops[0].iter for t in s.targets()]
        callee = [c for c in callee if c is not None]
        if callee and all(not any(isinstance(x, (ast.If, ast.IfExp)) or (isinstance(x, ast.comprehension) and x.ifs) for x in ast.walk(c.node)) and "iter_jobs" in ast.unparse(c.node) for c in callee):
            ok = True
        elif not callee:
            raise AnalysisError(rid, f"job source `{txt}` of JobRunner._generate_jobs not understood")
    conds = [p for p in ctx.enclosing(fn, made[0], (ast.If,)) if any(p is x for x in ast.walk(loops[0]))]
    skips = [x for x in ast.walk(loops[0]) if isinstance(x, ast.Continue)]
    r.check(ok and not conds and not skips, "every job of the runner's configuration is wrapped and queued", key_of(fn, "job source"), fn.loc(loops[0]),
            f"JobRunner._generate_jobs builds commands from `{txt}`" + (" under a condition" if conds or skips else "") + ", not from every job of its configuration: the jobs left out are never run by anyone "
            "and end as missing", "exactly one entry per configured job, no missing jobs, independent of submission groups and local versus HPC mode")


# ------------------------------------------------------------------------------------------------ environment values are strings
def hook_env_strings(ctx, r, rid):
    """The environment given to the node hooks is a dict for subprocess: every value must be a str.  A value taken from a constructor parameter
    whose default is a number (batch_id=0 in local mode) makes Popen raise TypeError - the hook, and with it the whole batch, fails."""
    fn = ctx.fn("JobRunner.run_jobs", rid)
    init = ctx.fn("JobRunner.__init__", rid)
    nonstr = {}
    for p, d in init.defaults.items():
        if isinstance(d, ast.Constant) and not isinstance(d.value, str) and d.value is not None:
            nonstr[p] = d.value
    attr_from = {}
    for st in iter_own(init.node):
        if isinstance(st, ast.Assign) and isinstance(st.value, ast.Name) and st.value.id in nonstr:
            for t in st.targets:
                if isinstance(t, ast.Attribute) and isinstance(t.value, ast.Name) and t.value.id == "self":
                    attr_from[t.attr] = st.value.id
    n = 0
    for st in iter_own(fn.node):
        if isinstance(st, ast.Assign) and any(isinstance(t, ast.Subscript) and isinstance(t.value, ast.Name) and t.value.id == "env" for t in st.targets):
            n += 1
            v = st.value
            bad = isinstance(v, ast.Attribute) and isinstance(v.value, ast.Name) and v.value.id == "self" and v.attr in attr_from
            bad = bad or (isinstance(v, ast.Constant) and not isinstance(v.value, str))
            r.check(not bad, "hook environment values are strings", key_of(fn, f"env value {ctx.src(v)}"), fn.loc(st),
                    f"`{ctx.src(st)}`: the value comes from the constructor parameter `{attr_from.get(getattr(v, 'attr', ''), '?')}` whose default is {nonstr.get(attr_from.get(getattr(v, 'attr', ''), ''), '?')!r} (not a str) - "
                    "in local mode subprocess rejects the environment, the node hook raises TypeError and the batch's results are never consolidated",
                    "node setup runs before any job ... configuring them never prevents the batch's results from being recorded")
    if n < 2:
        raise AnalysisError(rid, f"{n} env[...] stores found in JobRunner.run_jobs")


# ------------------------------------------------------------------------------------------------ event time stamps sort as strings
def event_timestamp_sortable(ctx, r, rid):
    """EventsSummary orders each name's events with a plain string sort on `timestamp`.  That is chronological only for a most-significant-first
    rendering: str(datetime.now()) / isoformat() ('YYYY-MM-DD HH:MM:SS.ffffff') or a strftime format whose fields run %Y %m %d %H %M %S."""
    init = ctx.fn("StructuredLogEvent.__init__", rid)
    stores = [st for st in iter_own(init.node) if isinstance(st, ast.Assign) and any(isinstance(t, ast.Attribute) and t.attr == "timestamp" for t in st.targets)]
    if not stores:
        raise AnalysisError(rid, "no store of StructuredLogEvent.timestamp")
    n = 0
    for st in stores:
        v = inlined_expr(ctx, init, st.value)
        txt = ctx.src(v)
        if "kwargs" in txt:
            continue  # a deserialised event keeps the stamp it was written with
        n += 1
        ok = txt in ("str(datetime.now())", "str(datetime.datetime.now())", "datetime.now().isoformat()", "datetime.datetime.now().isoformat()")
        if not ok and isinstance(v, ast.Call) and isinstance(v.func, ast.Attribute) and v.func.attr == "strftime" and v.args:
            fmt = v.args[0]
            parts = []
            for x in ast.walk(fmt):
                if isinstance(x, ast.Constant) and isinstance(x.value, str):
                    parts.append(x.value)
                elif isinstance(x, ast.Name):
                    c = ctx.ix.canonical(init.module.imports.get(x.id, f"{init.module.name}.{x.id}"))
                    modname, _, cname = (c or "").rpartition(".")
                    m = ctx.ix.modules.get(modname)
                    cv = m.consts.get(cname) if m else None
                    if isinstance(cv, ast.Constant) and isinstance(cv.value, str):
                        parts.append(cv.value)
                    else:
                        raise AnalysisError(rid, f"time stamp format `{ctx.src(fmt)}` not resolved")
            import re as _re

            fields = _re.findall(r"%[A-Za-z]", "".join(parts))
            order = [f for f in fields if f in ("%Y", "%m", "%d", "%H", "%M", "%S", "%f", "%y", "%b", "%B", "%I", "%p", "%j")]
            ok = order[:6] == ["%Y", "%m", "%d", "%H", "%M", "%S"] and all(f == "%f" for f in order[6:])
        if not ok and not (isinstance(v, ast.Call) and isinstance(v.func, ast.Attribute) and v.func.attr == "strftime"):
            raise AnalysisError(rid, f"time stamp rendering `{txt[:80]}` is neither str(datetime.now()) / isoformat() nor a strftime format: its sort order is not decided here")
        r.check(ok, "a new event's time stamp is rendered most-significant field first", key_of(init, "timestamp rendering"), init.loc(st),
                f"StructuredLogEvent stamps new events with `{txt[:100]}`; the summary orders events by a string sort on that text, which is chronological only for year-month-day-time order - "
                "events of January sort before those of the preceding December", "every event appears once, ordered by time within its name")
    if n < 1:
        raise AnalysisError(rid, "no rendering of a new event's timestamp found")
    srt = ctx.fn("EventsSummary._consolidate_events", rid)
    keys = [c for c in iter_own(srt.node) if isinstance(c, ast.Call) and isinstance(c.func, ast.Attribute) and c.func.attr == "sort"]
    r.check(any("timestamp" in ctx.src(c) for c in keys), "events are sorted by timestamp per name", key_of(srt, "sort key"), srt.loc(), "the per-name event lists are not sorted by timestamp")


# ------------------------------------------------------------------------------------------------ the tallies count every result
def tally_domain(ctx, r, rid):
    """The successful / failed / canceled counters printed by show-results and stored in results.json are totals of the submission.  The loop that
    increments them must run over every result - a display filter (--failed / --successful) may suppress rows of the table, not rows of the count."""
    for spec in ("JobSubmitter._build_results", "ResultsSummary.show_results"):
        fn = ctx.fn(spec, rid)
        loops = [n for n in iter_own(fn.node) if isinstance(n, ast.For) and any(isinstance(x, ast.AugAssign) and ast.unparse(x.target).startswith("num_") for x in ast.walk(n))]
        if len(loops) != 1:
            raise AnalysisError(rid, f"{fn.short}: expected one tally loop, found {len(loops)}")
        it = loops[0].iter
        filtered = None
        if isinstance(it, ast.Name):
            defs = [x for x in iter_own(fn.node) if isinstance(x, ast.Assign) and any(isinstance(t, ast.Name) and t.id == it.id for t in x.targets)]
            for d in defs:
                for x in ast.walk(d.value):
                    if (isinstance(x, ast.comprehension) and x.ifs) or (isinstance(x, ast.Call) and isinstance(x.func, ast.Name) and x.func.id == "filter"):
                        filtered = d
        else:
            for x in ast.walk(it):
                if (isinstance(x, ast.comprehension) and x.ifs) or (isinstance(x, ast.Call) and isinstance(x.func, ast.Name) and x.func.id == "filter"):
                    filtered = loops[0]
        r.check(filtered is None, f"{fn.short}: the tally loop runs over every result", key_of(fn, "tally domain"), fn.loc(filtered if filtered is not None else loops[0]),
                f"{fn.short} counts successful / failed / canceled over a filtered selection (`{ctx.src(filtered)[:100] if filtered is not None else ''}`): results outside the selection are counted in no class, "
                "the printed totals are not the submission's", "the results summary counts each job in exactly one of successful / failed / canceled / missing")
        # an increment is not skipped by a display filter: no `continue` precedes the counters inside the loop
        first_inc = min((x.lineno for x in ast.walk(loops[0]) if isinstance(x, ast.AugAssign) and ast.unparse(x.target).startswith("num_")), default=None)
        early = [x for x in ast.walk(loops[0]) if isinstance(x, ast.Continue) and first_inc is not None and x.lineno < first_inc]
        r.check(not early, f"{fn.short}: no result is skipped before it is counted", key_of(fn, "skip before tally"), fn.loc(early[0]) if early else fn.loc(loops[0]),
                "a `continue` precedes the counters in the tally loop: the results it skips are counted in no class")


# ------------------------------------------------------------------------------------------------ the completion step does not choke on log content
def completion_scan_total(ctx, r, rid):
    """_handle_completion scans the batches' stderr files for known error strings after results.json is written and before mark_complete.  Whatever
    stands in those files, the scan must come back: a regex match object used without the test that it matched raises AttributeError on the first line
    worded differently (SLURM's `*** STEP ... DUE TO TIME LIMIT`), every later round dies at the same place, and the submission never completes."""
    from ..lib import requires

    n = 0
    for spec in ("JobSubmitter.find_error_log_messages", "JobSubmitter._log_error_log_messages"):
        fn = ctx.fn(spec, rid)
        matches = {}
        for st in iter_own(fn.node):
            if isinstance(st, ast.Assign) and len(st.targets) == 1 and isinstance(st.targets[0], ast.Name) and isinstance(st.value, ast.Call) and isinstance(st.value.func, ast.Attribute) \
                    and st.value.func.attr in ("search", "match", "fullmatch"):
                matches[st.targets[0].id] = st
        for x in iter_own(fn.node):
            direct = isinstance(x, ast.Attribute) and x.attr in ("group", "groups", "groupdict", "start", "end", "span") and isinstance(x.value, ast.Call) and isinstance(x.value.func, ast.Attribute) \
                and x.value.func.attr in ("search", "match", "fullmatch")
            if direct:
                n += 1
                r.bad(key_of(fn, "match used unchecked"), fn.loc(x), f"`{ctx.src(x)[:90]}` uses the result of a regex search without testing that it matched: a log line worded differently raises AttributeError in the completion step")
                continue
            if isinstance(x, ast.Attribute) and isinstance(x.value, ast.Name) and x.value.id in matches and x.attr in ("group", "groups", "groupdict", "start", "end", "span"):
                n += 1
                var = x.value.id
                ok, descs = requires(ctx, fn, ctx.stmt_of(fn, x), lambda f, p, var=var: (p and f in (var, f"{var} is not None")) or (not p and f in (f"not {var}", f"{var} is None")))
                r.check(ok, f"{fn.short}: a match object is used only where it matched", key_of(fn, f"{var}.{x.attr} unchecked"), fn.loc(x),
                        f"`{ctx.src(x)}` is reachable although `{ctx.src(matches[var].value)[:70]}` may have returned None: a line of a batch's stderr file that contains the searched substring in another wording "
                        "raises AttributeError - after results.json was written and before the submission is marked complete; every later try-submit-jobs forces completion again and dies at the same line",
                        "the submission still reaches completion after the documented try-submit-jobs")
        raises = [x for x in iter_own(fn.node) if isinstance(x, ast.Raise)]
        r.check(not raises, f"{fn.short}: the scan never refuses a file's content", key_of(fn, "raise in the error-log scan"), fn.loc(raises[0]) if raises else fn.loc(), "the error-log scan raises on some content")
        n += 1
    return n


# ------------------------------------------------------------------------------------------------ what check_job_dependencies may refuse
def dependency_check_refusals(ctx, r, rid):
    """check_job_dependencies refuses a configuration for one reason: a blocker name that no job has.  Any further refusal reachable from it decides
    which configurations are 'valid'; this analysis cannot tell whether a new test rejects only impossible orderings (a cycle) or also valid DAGs
    (a shared ancestor met twice), so it reports the new refusal as not understood (exit 2) instead of passing it silently."""
    fn = ctx.fn("JobConfiguration.check_job_dependencies", rid)
    seen, todo, raises = set(), [fn], []
    while todo:
        f = todo.pop()
        if f.qual in seen:
            continue
        seen.add(f.qual)
        raises += [(f, x) for x in iter_own(f.node) if isinstance(x, ast.Raise)]
        for s in ctx.cg.sites_in(f):
            for t in s.targets():
                g = ctx.ix.functions.get(t)
                if g is not None and g.cls is not None and g.cls.name == "JobConfiguration" and g.name.startswith("_"):
                    todo.append(g)
    own = [x for f, x in raises if f is fn]
    if len(raises) != len(own) or len(own) != 1:
        extra = [f"{f.short}:{x.lineno}" for f, x in raises if not (f is fn and x is own[0])] if own else [f"{f.short}:{x.lineno}" for f, x in raises]
        raise AnalysisError(rid, f"check_job_dependencies can refuse a configuration at {extra}: no rule decides whether that test rejects only invalid orderings")
    from ..lib import guard_forms

    forms = {f for n in ctx.nodes_of(fn, own[0]) for f, p in guard_forms(ctx, fn, n) if p}
    r.check(any("missing_jobs" in f or "difference" in f for f in forms), "the only refusal is for blocker names that no job has", key_of(fn, "refusal condition"), fn.loc(own[0]),
            f"check_job_dependencies raises under {sorted(forms)}", "every valid configuration is accepted")


# ------------------------------------------------------------------------------------------------ rows pruned = jobs reset
def pruned_set_is_reset_set(ctx, r, rid):
    """resubmit-jobs removes the old rows of a set of jobs from the results file and sets a set of jobs back to not_submitted.  The two must be the
    same set: a job whose row is pruned but whose state stays `done` is counted as completed with no result and is never rerun; a job reset but not
    pruned ends with two rows."""
    fn = ctx.fn("resubmit_jobs.resubmit_jobs", rid)
    resets = ctx.some_sites(fn, rid, short="Cluster.prepare_for_resubmission")
    prunes = [s for s in ctx.cg.sites_in(fn) if "RESULT_WRITE" in ctx.site_may(s) and not s.calls_short(ctx.ix, "Cluster.deserialize") and not (ctx.site_may(s) & {"HANDOFF", "LAUNCH"})]
    if not prunes:
        raise AnalysisError(rid, "no result pruning call found in resubmit_jobs")
    for s in resets:
        a0 = s.node.args[0] if s.node.args else None
        if not isinstance(a0, ast.Name):
            raise AnalysisError(rid, "the set handed to prepare_for_resubmission is not a local")
        pruned = {x.id for p_ in prunes for x in list(p_.node.args) + [k.value for k in p_.node.keywords] if isinstance(x, ast.Name)}
        defs = [st for st in iter_own(fn.node) if isinstance(st, ast.Assign) and any(a0.id in {n.id for n in ast.walk(t) if isinstance(n, ast.Name)} for t in st.targets)]
        r.check(a0.id in pruned and len(defs) == 1, "the jobs reset are the jobs whose rows were pruned (one variable, bound once)", key_of(fn, "reset set differs from pruned set"), s.loc,
                f"prepare_for_resubmission receives `{a0.id}` while the result pruning receives {sorted(pruned)}: jobs in one set and not the other are either `done` without a result (never rerun, "
                "counted as completed) or reset with their old row still in place", "every done job has a recorded result / afterwards the results again hold one entry per job")


TABLE = {
    "C01": [("C01.20", "T2", "sbatch is not repeated after SLURM accepted the script", 1, sbatch_once)],
    "C11": [("C11.13", "T2", "sbatch is not repeated after SLURM accepted the script", 1, sbatch_once),
            ("C11.14", "T4", "a failed scheduler poll stops the round: nothing between squeue and the round swallows it", 3, poll_failure_propagates)],
    "C14": [("C14.12", "T4", "a failed scheduler poll stops the round (a swallowed failure reads every active batch as finished, and cancel-jobs never scancels it)", 3, poll_failure_propagates)],
    "C06": [("C06.14", "T4", "a failed scheduler poll stops the round (a swallowed failure frees every node slot)", 3, poll_failure_propagates)],
    "C04": [("C04.13", "T13", "a batch that ran to its end always triggers the next submitter round (dependents in other batches get their outcome)", 1, runner_status_good)],
    "C07": [("C07.14", "T6", "a name leaves a waiting job's blocked_by only when that job completed", 1, blockers_removed_when_done)],
    "C02": [("C02.15", "T6", "a name leaves a waiting job's blocked_by only when that job completed", 1, blockers_removed_when_done)],
    "C18": [("C18.9", "T8", "the scheduler's job name is the batch name passed to HpcManager.submit", 1, submit_name_unchanged),
            ("C18.10", "T8", "each submission group's sbatch script is written by an interface built from that group's hpc_config", 1, interface_per_group)],
    "C03": [("C03.16", "T9", "the runner wraps every job of the configuration it was given", 1, runner_runs_all_jobs)],
    "C16": [("C16.13", "T8", "the node hooks' environment holds strings only", 2, hook_env_strings)],
    "C12": [("C12.12", "T1", "the completion step's error-log scan is total: no unchecked regex match, no raise", 2, completion_scan_total)],
    "C05": [("C05.24", "T1", "the completion step's error-log scan is total: no unchecked regex match, no raise", 2, completion_scan_total),
            ("C05.23", "T13", "a batch that ran to its end always triggers the next submitter round (the runner's answer does not depend on the jobs' return codes)", 1, runner_status_good)],
    "C09": [("C09.17", "T8", "resubmit-jobs resets exactly the jobs whose result rows it pruned", 1, pruned_set_is_reset_set)],
    "C13": [("C13.11", "T8", "resubmit-jobs resets exactly the jobs whose result rows it pruned", 1, pruned_set_is_reset_set)],
    "C17": [("C17.12", "T1", "check_job_dependencies refuses only for a blocker that does not exist (any other refusal is not understood, exit 2)", 1, dependency_check_refusals)],
    "C20": [("C20.13", "T3", "the printed / stored tallies run over every result, whatever the display filter", 4, tally_domain),
            ("C20.12", "T9", "event time stamps are rendered so that the summary's string sort is chronological", 2, event_timestamp_sortable)],
}


# A rule of another property that is also a necessary condition of this one (a wave-8 change written against this property broke exactly that
# mechanism and was, at first, reported only under the other property's id): (own id, source property, source rule id)
ALIASES = {
    "C01": [("C01.21", "C08", "C08.3"), ("C01.22", "C10", "C10.4")],
    "C02": [("C02.16", "C08", "C08.3")],
    "C03": [("C03.17", "C18", "C18.3")],
    "C04": [("C04.14", "C13", "C13.5")],
    "C05": [("C05.25", "C10", "C10.1"), ("C05.26", "C08", "C08.5")],
    "C06": [("C06.15", "C10", "C10.1"), ("C06.16", "C11", "C11.3")],
    "C07": [("C07.15", "C13", "C13.5"), ("C07.16", "C18", "C18.1")],
    "C09": [("C09.15", "C01", "C01.2"), ("C09.16", "C01", "C01.17")],
    "C10": [("C10.10", "C15", "C15.3"), ("C10.11", "C09", "C09.1")],
    "C11": [("C11.15", "C15", "C15.4"), ("C11.16", "C12", "C12.3")],
    "C14": [("C14.13", "C10", "C10.1"), ("C14.14", "C18", "C18.3")],
    "C15": [("C15.14", "C05", "C05.3"), ("C15.15", "C18", "C18.3"), ("C15.16", "C06", "C06.8")],
    "C16": [("C16.14", "C20", "C20.2"), ("C16.15", "C10", "C10.1")],
    "C20": [("C20.14", "C03", "C03.3")],
}
_loading = set()


def register(prop):
    import importlib

    for rid, tmpl, title, mino, func in TABLE.get(prop, []):
        if any(x.id == rid for x in RULES.get(prop, [])):
            continue
        rule(prop, rid, tmpl, title, min_obligations=mino)(lambda ctx, r, func=func, rid=rid: func(ctx, r, rid))
    if prop in _loading:
        return
    _loading.add(prop)
    try:
        for rid, sprop, srid in ALIASES.get(prop, []):
            if any(x.id == rid for x in RULES.get(prop, [])):
                continue
            importlib.import_module(f"jcheck.props.{sprop.lower()}")
            register(sprop)
            src = [x for x in RULES.get(sprop, []) if x.id == srid]
            if not src:
                raise AnalysisError(rid, f"source rule {srid} not found")
            sd = src[0]
            rule(prop, rid, sd.template, f"{sd.title} (shared with {srid})", min_obligations=sd.min_obligations)(sd.func)
    finally:
        _loading.discard(prop)

"""C02 - no job starts before every job blocking it has finished."""

import ast

from .. import AnalysisError
from ..cfg import ALL_KINDS, NORMAL_KINDS, iter_own
from ..lib import comp_norm, inlined_expr, _single_return, always_followed_by, attr_stores, dominated_by, guard_forms, key_of, norm, render, return_conditions, type_is
from ..report import describe, rule
from .c01 import _must_pass, _try_append_test

P = "C02"

describe(
    P,
    "Decides the gates dependency order rests on, on all paths: every start of a queue entry is dominated by an "
    "empty-blockers test on that same entry; a node removes a blocker from a waiting entry only for names whose process it "
    "observed complete, and empties the set only together with cancelling the entry; a job enters a batch only if the batch "
    "says it is not blocked, which is true only without remaining blockers or (try-add-blocked) with all of them aboard; "
    "the batch's name set is kept in step with its job list; the submitter removes blockers from the persisted set only for "
    "names of collected results; the first observation of a process exit records the result before is_complete() returns "
    "(so a blocker's outcome is on disk before anyone can act on its completion); the persisted blocker sets have exactly "
    "four writers; the batch config carries the remaining blockers of the status model."
    " On resubmission the remaining blockers of a rerun dependent are recomputed on every pass of the closure loop from the closed rerun set.",
    ["shared-filesystem visibility of appended result rows", "Popen.poll() reports exit truthfully"],
    "the end-to-end order over all schedules and batches (which round sees which result); local mode beyond the same JobQueue gate.",
)

GB = "call:AsyncJobInterface.get_blocking_jobs()@"


@rule(P, "C02.1", "T1", "launch gate: every start of a queue entry is dominated by its own empty-blockers test", min_obligations=2)
def c02_1(ctx, r):
    for spec in ("JobQueue.submit", "JobQueue.process_queue"):
        fn = ctx.fn(spec, "C02.1")
        for s in ctx.some_sites(fn, "C02.1", short="JobQueue._run_job"):
            a = s.node.args[0] if s.node.args else None
            if not isinstance(a, ast.Name):
                raise AnalysisError("C02.1", f"{s.loc}: _run_job argument is not a local")
            for n in ctx.nodes_of(fn, s.node):
                forms = guard_forms(ctx, fn, n)
                r.check(
                    (GB + a.id, False) in forms,
                    f"{fn.short}: _run_job({a.id}) only if {a.id}.get_blocking_jobs() is empty",
                    key_of(fn, "_run_job without empty-blockers guard"),
                    s.loc,
                    f"_run_job({a.id}) is reachable without `{a.id}.get_blocking_jobs()` having tested empty: a job starts before its blockers finished",
                    "A job's command is never started until every job named in its blocked_by list has a recorded outcome",
                    guards=sorted(("" if p else "not ") + f for f, p in forms),
                )
    # _run_job is called from nowhere else
    rj = ctx.fn("JobQueue._run_job", "C02.1")
    for s in ctx.callers_of(rj):
        r.check(s.fn.short in ("JobQueue.submit", "JobQueue.process_queue"), f"_run_job caller {s.fn.short}", key_of(s.fn, "calls _run_job"), s.loc,
                f"{s.fn.short} starts queue entries outside the two gated sites")
    # job.run() on a queue entry only inside _run_job
    for fn in ctx.ix.all_functions():
        if fn.cls is not None and fn.cls.name == "JobQueue" and fn is not rj:
            for s in ctx.cg.sites_in(fn):
                if any(ctx.ix.functions[q].name == "run" and ctx.ix.functions[q].cls is not None and any(c.name == "AsyncJobInterface" for c in ctx.ix.mro(ctx.ix.functions[q].cls)) for q in s.callees if q in ctx.ix.functions):
                    r.bad(key_of(fn, "direct entry.run()"), s.loc, f"{fn.short} calls run() on a queue entry directly, bypassing the gated _run_job")


@rule(P, "C02.2", "T1+T8", "a node shrinks an entry's blockers only for observed completions (or empties them only when cancelling)", min_obligations=5)
def c02_2(ctx, r):
    fn = ctx.fn("JobQueue._check_completions", "C02.2")
    cfg = ctx.cfg(fn)
    rm = [c for n in cfg.nodes for c in cfg.calls_at(n) if isinstance(c.func, ast.Attribute) and c.func.attr == "remove_blocking_job"]
    if not rm:
        raise AnalysisError("C02.2", "no remove_blocking_job call in _check_completions")
    for c in rm:
        a = c.args[0] if c.args else None
        loops = ctx.enclosing(fn, c, (ast.For,))
        src = next((l for l in loops if isinstance(l.target, ast.Name) and isinstance(a, ast.Name) and l.target.id == a.id), None)
        ok = src is not None and isinstance(src.iter, ast.Name)
        lst = src.iter.id if ok else None
        r.check(ok, "the removed name is the element of the completed list being processed", key_of(fn, "remove_blocking_job source"), fn.loc(c),
                f"remove_blocking_job({ctx.src(a) if a is not None else ''}) does not take its name from the loop over the completed entries")
        if not ok:
            continue
        # insertions into that list are dominated by is_complete() on the entry whose name is inserted
        ins = [(n2, c2) for n2 in cfg.nodes for c2 in cfg.calls_at(n2) if isinstance(c2.func, ast.Attribute) and c2.func.attr in ("append", "add", "extend", "insert") and ctx.src(c2.func.value) == lst]
        if not ins:
            raise AnalysisError("C02.2", f"no insertion into {lst}")
        for n2, c2 in ins:
            forms = guard_forms(ctx, fn, n2)
            okc = any(p and f.startswith("call:AsyncJobInterface.is_complete()@") for f, p in forms)
            lp = ctx.enclosing(fn, c2, (ast.For,))
            from_out = bool(lp) and "_outstanding_jobs" in ctx.src(lp[0].iter)
            r.check(okc and from_out, f"{lst} receives a name only after is_complete() of that outstanding entry", key_of(fn, f"insert into {lst}"), fn.loc(c2),
                    f"`{ctx.src(c2)}` adds a name to the completed list without `is_complete()` having returned True for an outstanding entry: waiting jobs are unblocked early",
                    "never started until every job named in its blocked_by list has a recorded outcome",
                    guards=sorted(("" if p else "not ") + f for f, p in forms))
        for n in ctx.nodes_of(fn, c):
            forms = guard_forms(ctx, fn, n)
            r.check(any(p and f.startswith(f"{a.id} in ") for f, p in forms), "only a name that is in the entry's blocking set is removed", key_of(fn, "remove guard"), fn.loc(c),
                    "remove_blocking_job is not guarded by membership (KeyError aborts the poll loop)")
    sb = [c for n in cfg.nodes for c in cfg.calls_at(n) if isinstance(c.func, ast.Attribute) and c.func.attr == "set_blocking_jobs"]
    for c in sb:
        recv = ctx.src(c.func.value)
        empty = c.args and ctx.src(c.args[0]) in ("set()", "frozenset()")
        blk = None
        st = ctx.stmt_of(fn, c)
        par = ctx.parents(fn).get(id(st))
        blk = next((getattr(par, f) for f in ("body", "orelse") if isinstance(getattr(par, f, None), list) and st in getattr(par, f)), [])
        canc = any(isinstance(x, ast.Expr) and isinstance(x.value, ast.Call) and ctx.src(x.value.func) == f"{recv}.cancel" for x in blk)
        r.check(bool(empty and canc), "blockers are emptied only together with cancelling the same entry", key_of(fn, "set_blocking_jobs"), fn.loc(c),
                f"`{ctx.src(c)}` changes an entry's blockers without cancelling it in the same block: the entry becomes startable",
                "its command is never started")
    # callers of the interface methods
    for name, allowed in (("remove_blocking_job", {"JobQueue._check_completions", "AsyncCliCommand.remove_blocking_job"}),
                          ("set_blocking_jobs", {"JobQueue._check_completions", "AsyncCliCommand.set_blocking_jobs", "HpcSubmitter._make_batch", "config._handle_indices_by_pairs", "config.assign_blocked_by"})):
        for f in ctx.ix.all_functions():
            for s in ctx.cg.sites_in(f):
                fnm = s.node.func.attr if isinstance(s.node.func, ast.Attribute) else None
                if fnm == name and not f.module.name.startswith("jade.extensions.demo"):
                    ok = f.short in allowed or f.module.name.startswith("jade.cli.config")
                    r.check(ok, f"{name}() caller {f.short}", key_of(f, f"calls {name}"), s.loc, f"{f.short} calls {name}() - blockers of a job change outside the completion / cancel / batch-construction sites")


@rule(P, "C02.3", "T1", "batch admission: a job is appended only if the batch says it is not blocked", min_obligations=3)
def c02_3(ctx, r):
    mb = ctx.fn("HpcSubmitter._make_batch", "C02.3")
    site, ta = _try_append_test(ctx, mb)
    forms = guard_forms(ctx, mb, ta)
    blocked = [(f, p) for f, p in forms if f.startswith("call:_BatchJobs.is_job_blocked(")]
    r.check(any(not p for f, p in blocked), "try_append is dominated by `not batch.is_job_blocked(job)`", key_of(mb, "try_append without blocked check"), mb.loc(site.node),
            "try_append is reachable for a job the batch considers blocked (or without asking): a job with unfinished blockers is handed to a node that does not hold them",
            "A job with unfinished blockers is included only if try-add-blocked is enabled and all its unfinished blockers are in the same batch",
            guards=sorted(("" if p else "not ") + f for f, p in forms))
    # the job tested is the status job whose configuration job is appended
    arg = site.node.args[0]
    tested = None
    for f, p in blocked:
        tested = f[len("call:_BatchJobs.is_job_blocked("):].split(")")[0]
    ud = ctx.rd(mb).unique_def(ta, arg.id) if isinstance(arg, ast.Name) else None
    ok = ud is not None and isinstance(ud[1], ast.Call) and ctx.src(ud[1]).replace(" ", "") == f"self._config.get_job({tested}.name)"
    r.check(ok, "the appended configuration job is the one looked up by the tested status job's name", key_of(mb, "tested vs appended job"), mb.loc(site.node),
            f"is_job_blocked tests `{tested}` but try_append receives `{ctx.src(arg)}` defined as `{ctx.src(ud[1]) if ud and isinstance(ud[1], ast.AST) else None}`")
    # C05.8: the batch config carries the remaining blockers of the status model
    cfg = ctx.cfg(mb)
    sets = [n for n in cfg.nodes for c in cfg.calls_at(n) if isinstance(c.func, ast.Attribute) and c.func.attr == "set_blocking_jobs" and ctx.src(c.func.value) == ctx.src(arg) and c.args and ctx.src(c.args[0]) == f"{tested}.blocked_by"]
    r.check(bool(sets) and dominated_by(ctx, mb, ta, sets), "the configuration job receives the status job's remaining blockers before it is appended", key_of(mb, "set remaining blockers"), mb.loc(site.node),
            "the job written to config_batch_N.json keeps its original blockers instead of the remaining ones: the node waits for ever for a blocker that finished in an earlier batch",
            "No job starts before every job blocking it has finished / progress")


@rule(P, "C02.4", "T13", "is_job_blocked is false only without blockers or with all of them aboard", min_obligations=5)
def c02_4(ctx, r):
    fn = ctx.fn("_BatchJobs.is_job_blocked", "C02.4")
    n_false = 0
    for ret, conds, path in return_conditions(ctx, fn):
        val = ret.value if isinstance(ret, ast.Constant) else None
        if val is False:
            n_false += 1
            no_blockers = ("<Job.blocked_by>", False) in conds
            aboard = ("<_BatchJobs._try_add_blocked_jobs>", True) in conds and any(p and "issubset(<_BatchJobs._job_names>)" in f.replace(" ", "") or (p and "are_blocking_jobs_present" in f) for f, p in conds)
            r.check(no_blockers or aboard, "is_job_blocked()==False only if no blockers, or try-add-blocked and all blockers aboard", key_of(fn, f"returns False under {sorted(f for f, p in conds)}"), fn.loc(ret),
                    f"is_job_blocked returns False under {sorted(('' if p else 'not ') + f for f, p in conds)}: a job with unfinished blockers outside the batch is admitted",
                    "included only if try-add-blocked is enabled and all its unfinished blockers are in the same batch",
                    conds=sorted(("" if p else "not ") + f for f, p in conds))
        elif val is True:
            r.ok("a True path", conds=sorted(("" if p else "not ") + f for f, p in conds))
        else:
            raise AnalysisError("C02.4", f"is_job_blocked returns non-constant {ctx.src(ret) if ret is not None else None}")
    if n_false == 0:
        raise AnalysisError("C02.4", "is_job_blocked never returns False")
    ab = ctx.fn("_BatchJobs.are_blocking_jobs_present", "C02.4")
    rx = _single_return(ab)
    txt = ctx.src(rx).replace(" ", "") if rx is not None else ""
    p0 = ab.bound_params[0] if ab.bound_params else "?"
    ok = txt in (f"{p0}.issubset(self._job_names)", f"{p0}<=self._job_names", f"self._job_names.issuperset({p0})", f"self._job_names>={p0}", f"not{p0}-self._job_names", f"not{p0}.difference(self._job_names)")
    r.check(ok, "are_blocking_jobs_present = subset test against the batch's names", key_of(ab, "subset test"), ab.loc(), f"are_blocking_jobs_present returns `{ctx.src(rx) if rx is not None else None}`, not a subset test of its argument against self._job_names",
            "all its unfinished blockers are in the same batch")
    # the argument passed is the job's remaining blockers
    for s in ctx.some_sites(fn, "C02.4", short="_BatchJobs.are_blocking_jobs_present"):
        r.check(render(ctx, fn, s.node.args[0]) == "<Job.blocked_by>", "the subset test is applied to job.blocked_by", key_of(fn, "subset argument"), s.loc, f"are_blocking_jobs_present({ctx.src(s.node.args[0])})")
    # name set in step with job list
    ta = ctx.fn("_BatchJobs.try_append", "C02.4")
    body = ta.node.body
    apps = [st for st in body if isinstance(st, ast.Expr) and isinstance(st.value, ast.Call) and ctx.src(st.value.func) == "self._jobs.append"]
    adds = [st for st in body if isinstance(st, ast.Expr) and isinstance(st.value, ast.Call) and ctx.src(st.value.func) == "self._job_names.add"]
    ok = len(apps) == 1 and len(adds) == 1 and ctx.src(adds[0].value.args[0]) == ctx.src(apps[0].value.args[0]) + ".name"
    r.check(ok, "_job_names.add(job.name) paired with _jobs.append(job) in one block", key_of(ta, "names/jobs pairing"), ta.loc(), "the batch's name set is not updated together with its job list: the all-blockers-aboard test reads a stale set")
    for fn2, node, attr, t, kind in attr_stores(ctx, {"_job_names"}):
        if fn2.cls is not None and fn2.cls.name == "_BatchJobs":
            r.check(fn2.name in ("__init__", "try_append"), f"_job_names written in {fn2.short}", key_of(fn2, "writes _job_names"), fn2.loc(node), f"{fn2.short} writes _BatchJobs._job_names")


@rule(P, "C02.5", "T8", "the submitter removes persisted blockers only for names of collected results", min_obligations=3)
def c02_5(ctx, r):
    fn = ctx.fn("HpcSubmitter._update_completed_jobs", "C02.5")
    cfg = ctx.cfg(fn)
    dus = [c for n in cfg.nodes for c in cfg.calls_at(n) if isinstance(c.func, ast.Attribute) and c.func.attr in ("difference_update", "discard", "remove", "clear", "intersection_update", "pop") and ctx.src(c.func.value).endswith(".blocked_by")]
    if not dus:
        raise AnalysisError("C02.5", "no shrinking of blocked_by in _update_completed_jobs")
    rets = [n for n in iter_own(fn.node) if isinstance(n, ast.Return)]
    done_var = rets[0].value.elts[0].id if rets and isinstance(rets[0].value, ast.Tuple) and isinstance(rets[0].value.elts[0], ast.Name) else None
    for c in dus:
        ok = c.func.attr == "difference_update" and c.args and isinstance(c.args[0], ast.Name) and c.args[0].id == done_var
        r.check(ok, "blocked_by.difference_update(<names of collected results>)", key_of(fn, f"shrink blocked_by via {c.func.attr}"), fn.loc(c),
                f"`{ctx.src(c)}` shrinks a persisted blocker set by something other than the set of names collected in this pass (C09.5 shows that set holds only result names)",
                "never started until every job named in its blocked_by list has a recorded outcome")
    # the loop is over not-submitted jobs of the cluster; the names set is the returned one (C09.5 checks its insertions)
    r.check(done_var is not None, "the collected-names set is the first returned value", key_of(fn, "returned names"), fn.loc(), "return shape changed")
    loops = [l for c in dus for l in ctx.enclosing(fn, c, (ast.For,))[:1]]
    r.check(all("iter_jobs" in ctx.src(l.iter) for l in loops), "blockers are updated on the cluster's job objects", key_of(fn, "loop domain"), fn.loc(), "loop domain changed")


@rule(P, "C02.6", "T3", "the first observation of a process exit records the result before is_complete() returns", min_obligations=4)
def c02_6(ctx, r):
    fn = ctx.fn("AsyncCliCommand.is_complete", "C02.6")
    cfg = ctx.cfg(fn)
    clears = [n for n in cfg.nodes if n.kind == "stmt" and isinstance(n.ast, ast.Assign) and ctx.src(n.ast.targets[0]) == "self._is_pending" and isinstance(n.ast.value, ast.Constant) and n.ast.value.value is False]
    comp = [n for s in ctx.sites(fn, short="AsyncCliCommand._complete") for n in ctx.nodes_of(fn, s.node)]
    if not clears:
        raise AnalysisError("C02.6", "is_complete: clearing of _is_pending not found")
    if not comp:
        r.bad(key_of(fn, "pending cleared without _complete"), fn.loc(clears[0].ast), "is_complete() declares completion but never calls _complete(): no result is recorded for a finished job", "has a recorded outcome")
        return
    for n in clears:
        r.check(always_followed_by(ctx, fn, n, comp, NORMAL_KINDS) or dominated_by(ctx, fn, n, comp), "_is_pending=False is paired with _complete() before any return", key_of(fn, "pending cleared without _complete"), fn.loc(n.ast),
                "is_complete() can report completion without having recorded the result: a dependent job starts while its blocker has no outcome on disk",
                "has a recorded outcome")
        forms = guard_forms(ctx, fn, n)
        r.check(any((not p) and "poll()" in f and "is None" in f for f, p in forms), "completion is declared only after poll() returned an exit status", key_of(fn, "poll guard"), fn.loc(n.ast),
                "completion is declared without poll() having returned a non-None status", guards=sorted(("" if p else "not ") + f for f, p in forms))
    # a failure to record the result is not swallowed: is_complete() must not return normally after _complete() raised
    for n in comp:
        seen, stack = set(), [d for d, k, _ in n.succ if k == "exc"]
        while stack:
            x = stack.pop()
            if x.id in seen:
                continue
            seen.add(x.id)
            stack.extend(d for d, k, _ in x.succ)
        r.check(cfg.exit.id not in seen, "an exception from _complete() propagates out of is_complete()", key_of(fn, "failed result write swallowed"), fn.loc(n.stmt),
                "is_complete() can return (True) after _complete() raised - e.g. a results-lock timeout or an I/O error while appending the row: the queue takes the job for finished and starts its dependents "
                "although no outcome was recorded", "has a recorded outcome (finished, failed or canceled)")
    # True is returned only if _is_complete or not pending
    for ret, conds, path in return_conditions(ctx, fn):
        txt = ctx.src(ret) if ret is not None else "None"
        r.check(txt in ("True", "not self._is_pending"), f"is_complete returns {txt}", key_of(fn, f"return {txt}"), fn.loc(ret) if ret is not None else fn.loc(), f"unexpected return `{txt}`")
    cp = ctx.fn("AsyncCliCommand._complete", "C02.6")
    aps = ctx.sites(cp, short="ResultsAggregator.append")
    if not aps:
        r.bad(key_of(cp, "no append"), cp.loc(), "_complete never appends a result", "has a recorded outcome")
        return
    cfgc = ctx.cfg(cp)
    ap_nodes = [n for s in aps for n in ctx.nodes_of(cp, s.node)]
    # every normal path either appends or leaves through the non-manager-node return
    seen = set()
    stack = [cfgc.entry]
    while stack:
        n = stack.pop()
        if n.id in seen or n in ap_nodes:
            continue
        seen.add(n.id)
        for d, k, c in n.succ:
            if k not in NORMAL_KINDS:
                continue
            if k in ("T", "F") and c is not None:
                form, pol = norm(ctx, cp, c, n, pol=(k == "T"))
                if form == "<AsyncCliCommand._is_manager_node>" and pol is False:
                    continue
            stack.append(d)
    r.check(cfgc.exit.id not in seen, "_complete appends the result on every manager-node path", key_of(cp, "append skipped"), cp.loc(),
            "on the manager node _complete can return without appending the result", "has a recorded outcome")


@rule(P, "C02.7", "T6", "the persisted blocker sets have exactly four writers", min_obligations=5)
def c02_7(ctx, r):
    from .c09 import OWNERS

    allowed = OWNERS[("Job", "blocked_by")]
    n = 0
    for fn, node, attr, t, kind in attr_stores(ctx, {"blocked_by"}):
        if not type_is(ctx, t, "Job"):
            if t is None:
                raise AnalysisError("C02.7", f"{fn.loc(node)}: write to .blocked_by on an untyped receiver")
            continue
        n += 1
        r.check(fn.short in allowed, f"Job.blocked_by written ({kind}) in {fn.short}", key_of(fn, f"{kind} Job.blocked_by"), fn.loc(node),
                f"{fn.short} writes the persisted remaining-blockers set; only {list(allowed)} may")


@rule(P, "C02.8", "T3", "a job that returns to not_submitted (resubmission) gets its remaining blockers restored", min_obligations=1)
def c02_8(ctx, r):
    from .c13 import reset_restores_blockers

    pf = ctx.ix.try_func("Cluster._prepare_for_resubmission") or ctx.fn("Cluster.prepare_for_resubmission", "C02.8")
    ctx.counters["functions"].add(pf.qual)
    reset_restores_blockers(ctx, r, pf)


@rule(P, "C02.9", "T3", "an entry whose blockers were emptied by a cancel leaves the queue before the next poll can start it", min_obligations=6)
def c02_9(ctx, r):
    from .c01 import c01_7

    c01_7(ctx, r)


@rule(P, "C02.10", "T8", "a job's blocker set is the model's: read, removal of exactly one name, replacement", min_obligations=5)
def c02_10(ctx, r):
    gp = ctx.cls("GenericCommandParameters", "C02.10")
    rx = _single_return(gp.methods["get_blocking_jobs"])
    r.check(rx is not None and ctx.src(rx) == "self._model.blocked_by", "get_blocking_jobs returns the model's set (not a copy that removal would miss)", key_of(gp.methods["get_blocking_jobs"], "read"), gp.methods["get_blocking_jobs"].loc(),
            f"get_blocking_jobs returns `{ctx.src(rx) if rx is not None else None}`")
    rm = gp.methods["remove_blocking_job"]
    body = [s for s in rm.node.body if not (isinstance(s, ast.Expr) and isinstance(s.value, ast.Constant))]
    r.check(len(body) == 1 and ctx.src(body[0]) in ("self._model.blocked_by.remove(name)", "self._model.blocked_by.discard(name)"), "remove_blocking_job removes exactly the named blocker", key_of(rm, "remove"), rm.loc(),
            f"remove_blocking_job is `{'; '.join(ctx.src(s) for s in body)}`: more (or other) blockers than the completed one disappear", "never started until every job named in its blocked_by list has a recorded outcome")
    sb = gp.methods["set_blocking_jobs"]
    body = [s for s in sb.node.body if not (isinstance(s, ast.Expr) and isinstance(s.value, ast.Constant))]
    r.check(len(body) == 1 and ctx.src(body[0]) == f"self._model.blocked_by = {sb.params[1]}", "set_blocking_jobs replaces the set with its argument", key_of(sb, "set"), sb.loc(), f"set_blocking_jobs is `{'; '.join(ctx.src(s) for s in body)}`")
    ac = ctx.cls("AsyncCliCommand")
    for name, want in (("get_blocking_jobs", "return self._job.get_blocking_jobs()"), ("remove_blocking_job", "self._job.remove_blocking_job(name)"), ("set_blocking_jobs", "self._job.set_blocking_jobs(jobs)")):
        m = ac.methods[name]
        body = [s for s in m.node.body if not (isinstance(s, ast.Expr) and isinstance(s.value, ast.Constant))]
        r.check(len(body) == 1 and ctx.src(body[0]) == want, f"AsyncCliCommand.{name} delegates to its job", key_of(m, "delegate"), m.loc(), f"AsyncCliCommand.{name} is `{'; '.join(ctx.src(s) for s in body)}`")
    # serialised blockers are the model's field (what the node reads back)
    mdl = ctx.cls("GenericCommandParametersModel")
    r.check("blocked_by" in mdl.ann_fields and "blocked_by" not in ctx.src(mdl.methods["dict"].node), "blocked_by is a model field and is never dropped on output", key_of(mdl.methods["dict"], "blocked_by kept"), mdl.methods["dict"].loc(), "blocked_by can be dropped from the serialised job")
    hv = mdl.methods.get("handle_blocked_by")
    from ..lib import collections_from as _cf

    hcols = _cf(ctx, hv, lambda e: isinstance(e, ast.Name) and e.id in hv.params) if hv is not None else []
    okn = len(hcols) == 1 and hcols[0]["elt"] == "str(_)" and not hcols[0]["conds"]
    if okn:
        rets = [n for n in iter_own(hv.node) if isinstance(n, ast.Return)]
        okn = len(rets) == 1 and ((hcols[0]["form"] == "comprehension" and hcols[0]["at"] is rets[0].value and isinstance(rets[0].value, ast.SetComp)) or (isinstance(rets[0].value, ast.Name) and rets[0].value.id == hcols[0]["into"]))
    r.check(okn, "integer blockers are normalised to the job-name strings", key_of(hv, "normalise") if hv is not None else "GenericCommandParametersModel::normalise", hv.loc() if hv is not None else "?", "blocked_by normalisation changed")


@rule(P, "C02.11", "T14", "resubmission: a rerun dependent's remaining blockers are recomputed on every closure pass, from the closed rerun set", min_obligations=6)
def c02_11(ctx, r):
    from .c13 import c13_5

    c13_5(ctx, r)


@rule(P, "C02.12", "T3+T6", "a job canceled by JADE has its 'canceled' row on disk at the moment it is marked done / its dependents can be released", min_obligations=5)
def c02_12(ctx, r):
    from .c09 import c09_5

    c09_5(ctx, r)
    from .c12 import c12_4

    c12_4(ctx, r)


@rule(P, "C02.13", "T6+T3", "a queue entry reports itself complete only where an outcome is recorded for it", min_obligations=2)
def c02_13(ctx, r):
    """JobQueue releases the dependents of an entry as soon as is_complete() answers True.  `_is_complete = True` is therefore stored only in the
    functions that also record the entry's result in the same breath - cancel() (CANCELED row) - while a started process completes through
    _complete() (FINISHED row).  A third place that sets the flag (a launch error handled in run(), say) releases every unflagged dependent
    although the blocker has no recorded outcome."""
    ACC = "AsyncCliCommand"
    n = 0
    for f2, node, attr, t, kind in attr_stores(ctx, {"_is_complete"}):
        if f2.cls is None or f2.cls.name != ACC:
            continue
        st = ctx.stmt_of(f2, node)
        val = ctx.src(st.value) if isinstance(st, ast.Assign) else None
        if val == "False":
            continue
        n += 1
        appends = [s for s in ctx.cg.sites_in(f2) if s.calls_short(ctx.ix, "ResultsAggregator.append")]
        r.check(bool(appends), f"{f2.short} sets _is_complete where it records a result", key_of(f2, "complete without a recorded outcome"), f2.loc(node),
                f"{f2.short} sets `_is_complete = {val}` but records no result (no ResultsAggregator.append in it): the queue takes the entry for finished and releases its dependents, although the "
                "job has no outcome - a dependent not flagged cancel-on-failure starts after a blocker that never ran", "no job starts before each of its blockers has a recorded result")
    if n < 1:
        raise AnalysisError("C02.13", "no store of _is_complete = True found in AsyncCliCommand")
    r.ok("writers of AsyncCliCommand._is_complete enumerated")


@rule(P, "C02.14", "T8", "the status update persists each blocked job's remaining blockers as the round computed them - nothing is subtracted on the way to disk", min_obligations=1)
def c02_14(ctx, r):
    """Blockers leave a job's persisted `blocked_by` only because the round collected their results (_update_completed_jobs, C02.5).  The write
    to disk in Cluster._update_job_status must store exactly `<blocked job>.blocked_by` of the record it was handed; an expression that drops
    names there (minus the jobs submitted in this round, say - they are running, not finished) releases the dependent in the next round
    while its blocker is still on a node."""
    fn = ctx.fn("Cluster._update_job_status", "C02.14")
    n = 0
    for f2, node, attr, t, kind in attr_stores(ctx, {"blocked_by"}):
        if f2 is not fn or kind != "store":
            continue
        st = ctx.stmt_of(fn, node)
        if not isinstance(st, ast.Assign):
            continue
        n += 1
        loops = ctx.enclosing(fn, st, (ast.For,))
        lv = loops[0].target.id if loops and isinstance(loops[0].target, ast.Name) else None
        val = inlined_expr(ctx, fn, st.value)
        ok = lv is not None and isinstance(val, ast.Attribute) and val.attr == "blocked_by" and isinstance(val.value, ast.Name) and val.value.id == lv
        r.check(ok, "blocked_by on disk = blocked_by of the record handed in", key_of(fn, "persisted blockers are a computed value"), fn.loc(st),
                f"`{ctx.src(st)}`: the persisted blocker set is not `{lv}.blocked_by` itself - names can leave it although no result was collected for them, and the next round hands the job to a node while that "
                "blocker is still running", "no job starts before each of its blockers has a recorded result")
    if n < 1:
        raise AnalysisError("C02.14", "no store to blocked_by in Cluster._update_job_status")

"""C13 - resubmission reruns exactly the selected jobs and their dependents."""

import ast

from .. import AnalysisError
from ..cfg import ALL_KINDS, NORMAL_KINDS, iter_own
from ..guards import canon
from ..lib import collections_from, inlined_expr, reachable_from, dominated_by, inline_locals, inlined, inlined_guards, iteration_paths, only_return, guard_forms, key_of, norm, render, type_is
from ..report import describe, rule
from .common import report_role, role_typestate

P = "C13"

describe(
    P,
    "Decides, on all paths of the resubmit-jobs command and the two helpers it relies on: every destructive effect "
    "(result pruning, state reset, event-file removal, submission) is dominated by `cluster.is_complete()`; the refusal "
    "path never demotes a role that was not obtained (typestate); no exception can escape the command after the first "
    "destructive effect while the submitter role is still held (every such statement lies under a try/finally that "
    "demotes) - otherwise a failure leaves results erased, counters reset and the submitter field set for ever; pruning "
    "keeps exactly the rows whose name is not selected and the state reset touches only selected names; the "
    "dependent-closure loop can only stop early when a pass added nothing and is bounded by the number of jobs; "
    "resubmission loads the submitter with is_new=False so that setup is not rerun.",
    ["results.json of the completed submission is the source of the selected names (ResultsSummary)"],
    "set equality 'exactly the selected jobs and their dependents', preservation of untouched result values, dependency "
    "order of the rerun (C02), and repeated resubmission are value/history-level and are not decided.",
)

FN = "resubmit_jobs.resubmit_jobs"


def _destructive(ctx, fn):
    """predicate over call nodes of fn: the call (may) destroy or mutate persistent submission data."""
    prep = ctx.ix.find_func("Cluster.prepare_for_resubmission").qual

    def pred(call):
        s = ctx.cg.site_of(fn, call)
        if s is None:
            return False
        if s.calls_short(ctx.ix, "Cluster.demote_from_submitter") or s.calls_short(ctx.ix, "Cluster.deserialize"):
            return False
        may = ctx.site_may(s)
        if prep in s.callees:
            return True
        if may & {"RESULT_WRITE", "HANDOFF", "LAUNCH"}:
            return True
        ext = s.external or ""
        if ext.split(".")[-1] in ("unlink", "remove", "rmtree", "rmdir") and "sys" not in ext:
            return True
        return False

    return pred


@rule(P, "C13.1", "T1", "every destructive effect of resubmit-jobs is dominated by cluster.is_complete()", min_obligations=4)
def c13_1(ctx, r):
    fn = ctx.fn(FN, "C13.1")
    pred = _destructive(ctx, fn)
    n = 0
    for s in ctx.cg.sites_in(fn):
        if not pred(s.node):
            continue
        n += 1
        for node in ctx.nodes_of(fn, s.node):
            forms = guard_forms(ctx, fn, node, ALL_KINDS, kill=False)
            r.check(
                ("<ClusterConfig.is_complete>", True) in forms,
                f"{ctx.src(s.node.func)}() only on a complete submission",
                key_of(fn, f"{ctx.src(s.node.func)} without is_complete"),
                s.loc,
                f"destructive call {ctx.src(s.node.func)}() is reachable on a submission that is not complete: jobs, results and counters of a running submission are changed",
                "On a submission that is not complete it refuses and leaves jobs, results and counters as they were",
            )
    if n < 4:
        raise AnalysisError("C13.1", f"only {n} destructive call sites recognised in resubmit_jobs (expected result pruning, state reset, event removal, submission)")


@rule(P, "C13.2", "T5", "the refusal path does not demote a role it does not hold; mutators only while promoted", min_obligations=4)
def c13_2(ctx, r):
    report_role(ctx, r, [FN], {"demote", "mutate", "leak"}, "it refuses and leaves jobs, results and counters as they were - even while another node is submitter")


@rule(P, "C13.3", "T4", "after the first destructive effect no exception escapes with the role still held", min_obligations=4)
def c13_3(ctx, r):
    fn = ctx.fn(FN, "C13.3")
    rep = role_typestate(ctx, fn, dirty_pred=_destructive(ctx, fn))
    if not rep.dirty_sites:
        raise AnalysisError("C13.3", "no destructive site on any path")
    bad_nodes = {}
    for f, node in rep.dirty_exc:
        bad_nodes[node.id] = node
    cfg = ctx.cfg(fn)
    for f, call in rep.dirty_sites:
        nodes = ctx.nodes_of(fn, call)
        offenders = [n for n in nodes if n.id in bad_nodes]
        r.check(
            not offenders,
            f"a failure in/after {ctx.src(call.func)}() releases the role",
            key_of(fn, f"exception from {ctx.src(call.func)} keeps role"),
            fn.loc(call),
            f"if {ctx.src(call.func)}() raises, the exception leaves resubmit-jobs with results/state already changed and the submitter role still held "
            "(no try/finally demotes on this path): every later try-submit-jobs is refused",
            "a failure of the command never leaves the submission with results erased and no way forward",
        )
        for n in nodes:
            bad_nodes.pop(n.id, None)
    for node in bad_nodes.values():
        r.bad(
            key_of(fn, f"exception from `{ctx.src(node.stmt)[:50]}` keeps role"),
            fn.loc(node.stmt),
            f"after a destructive effect, an exception raised by `{ctx.src(node.stmt)[:70]}` escapes with the submitter role still held (statement is outside the try/finally that demotes)",
            "a failure of the command never leaves the submission with results erased and no way forward",
        )


@rule(P, "C13.4", "T1", "pruning keeps every unselected row; the state reset touches only selected names", min_obligations=4)
def c13_4(ctx, r):
    fn = ctx.fn("ResultsAggregator.clear_results_for_resubmission", "C13.4")
    def all_rows(e):
        site = ctx.cg.site_of(fn, e) if isinstance(e, ast.Call) else None
        return site is not None and any(site.calls_short(ctx.ix, x) for x in ("ResultsAggregator.get_results", "ResultsAggregator.get_results_unsafe", "ResultsAggregator._get_results", "ResultsAggregator._get_all_results"))

    cols = collections_from(ctx, fn, all_rows)
    ok = False
    kept_var = None
    for c in cols:
        # exactly one condition on the row: its name is not selected (both spellings / operand orders are in the set)
        if c["elt"] == "_" and c["conds"] and all(f in ("_.name in jobs_to_resubmit", "<Result.name> in jobs_to_resubmit") and p is False for f, p in c["conds"]):
            ok, kept_var = True, c["into"]
    r.check(ok, "kept rows = [x for x in get_results() if x.name not in jobs_to_resubmit]", key_of(fn, "kept rows filter"), fn.loc(),
            "the rows kept by clear_results_for_resubmission are not selected by `name not in jobs_to_resubmit` over all current results: results of untouched jobs are lost or rerun jobs keep stale rows",
            "results of all other jobs are preserved")
    ws = ctx.sites(fn, short="ResultsAggregator._write_results")
    if not ws:
        raise AnalysisError("C13.4", "no _write_results call in clear_results_for_resubmission")
    for s in ws:
        a = s.node.args[0] if s.node.args else None
        r.check(isinstance(a, ast.Name) and kept_var is not None and a.id == kept_var, "the filtered list is what is written back", key_of(fn, "write filtered"), s.loc, "_write_results is not given the filtered list")
    # writer: header + all rows, no filtering
    wf = ctx.fn("ResultsAggregator._write_results", "C13.4")
    conds = [n for n in iter_own(wf.node) if isinstance(n, (ast.If, ast.IfExp))]
    r.check(all(ctx.src(c.test) in ("results", "_results") for c in conds), "_write_results writes every row it is given", key_of(wf, "conditional rows"), wf.loc(),
            "_write_results drops rows conditionally")
    # state reset
    pf = ctx.ix.try_func("Cluster._prepare_for_resubmission") or ctx.fn("Cluster.prepare_for_resubmission", "C13.4")
    ctx.counters["functions"].add(pf.qual)
    for n in iter_own(pf.node):
        if isinstance(n, ast.Assign):
            for t in n.targets:
                if isinstance(t, ast.Attribute) and t.attr in ("state", "blocked_by") and type_is(ctx, ctx.ty.expr_type(pf, t.value), "Job"):
                    for node in ctx.nodes_of(pf, n):
                        forms = guard_forms(ctx, pf, node)
                        recv = ctx.src(t.value)
                        r.check((f"{recv}.name in jobs_to_resubmit", True) in forms or (f"<Job.name> in jobs_to_resubmit", True) in forms,
                                f"reset of Job.{t.attr} only for selected names", key_of(pf, f"reset {t.attr} unguarded"), pf.loc(n),
                                f"Job.{t.attr} is reset for jobs that are not being resubmitted (their recorded outcome is discarded)",
                                guards=sorted(f for f, p in forms))
    reset_restores_blockers(ctx, r, pf)
    closure_before_consumers(ctx, r, "C13.4")
    # the reset visits every job (a selected job may be in any state: a missing job of a killed batch is still 'submitted')
    rl = [n for n in iter_own(pf.node) if isinstance(n, ast.For) and any(isinstance(x, ast.Assign) and any(isinstance(t, ast.Attribute) and t.attr == "state" for t in x.targets) for x in ast.walk(n))]
    if len(rl) != 1:
        raise AnalysisError("C13.4", f"expected one reset loop in {pf.short}, found {len(rl)}")
    it = rl[0].iter
    site = ctx.cg.site_of(pf, it) if isinstance(it, ast.Call) else None
    ok_dom = (site is not None and site.calls_short(ctx.ix, "Cluster.iter_jobs") and not it.args and not it.keywords) or render(ctx, pf, it) in ("<JobStatus.jobs>",)
    r.check(ok_dom, "the state reset visits every job, whatever its state", key_of(pf, "reset loop domain"), pf.loc(rl[0]),
            f"the reset loop iterates `{ctx.src(it)}`: a selected job that is not in that subset (a missing job of a killed batch is still 'submitted') is never reset and never rerun",
            "reruns exactly the jobs selected by its flags (failed/canceled, missing, successful)")
    # completed counter: recounted from jobs that stay DONE
    cnt = [n for n in ast.walk(rl[0]) if isinstance(n, ast.AugAssign) and ctx.src(n.target).endswith(".completed_jobs")]
    for n in cnt:
        for node in ctx.nodes_of(pf, n):
            forms = guard_forms(ctx, pf, node)
            r.check(any(p and "JobState.DONE" in f and "state" in f for f, p in forms), "completed_jobs counts jobs that stay DONE", key_of(pf, "completed recount"), pf.loc(n), f"completed_jobs is recounted under {sorted(f for f, p in forms)}")
    # is_complete asserted then cleared; counters recomputed
    cfg = ctx.cfg(pf)
    for node in cfg.nodes:
        if node.kind == "stmt" and isinstance(node.ast, ast.Assign) and ctx.src(node.ast.targets[0]).endswith("is_complete"):
            forms = guard_forms(ctx, pf, node, ALL_KINDS, kill=False)
            r.check(("<ClusterConfig.is_complete>", True) in forms, "is_complete cleared only after asserting it was set", key_of(pf, "clear is_complete"), pf.loc(node.ast),
                    "prepare_for_resubmission clears is_complete without asserting completeness")


def closure_before_consumers(ctx, r, rid):
    """The rerun set is closed under 'depends on' before anything reads it: every other call in resubmit_jobs that
    receives the set handed to (and grown in place by) _update_with_blocking_jobs is dominated by that call."""
    fn = ctx.fn(FN, rid)
    cl = ctx.one_site(fn, rid, short="resubmit_jobs._update_with_blocking_jobs")
    a0 = cl.node.args[0] if cl.node.args else None
    if not isinstance(a0, ast.Name):
        raise AnalysisError(rid, "the rerun set handed to _update_with_blocking_jobs is not a local")
    cnodes = ctx.nodes_of(fn, cl.node)
    n = 0
    for s in ctx.cg.sites_in(fn):
        if s is cl or not (s.callees or s.external):
            continue
        uses = [x for x in list(s.node.args) + [k.value for k in s.node.keywords] if isinstance(x, ast.Name) and x.id == a0.id]
        if not uses or ctx.src(s.node.func) in ("len", "print", "sorted"):
            continue
        n += 1
        for node in ctx.nodes_of(fn, s.node):
            r.check(dominated_by(ctx, fn, node, cnodes), f"{ctx.src(s.node.func)}() reads the rerun set after the dependent closure", key_of(fn, f"{ctx.src(s.node.func)} before the closure"), s.loc,
                    f"{ctx.src(s.node.func)}({a0.id}) runs before _update_with_blocking_jobs() added the transitive dependents: it acts on the selected jobs only, so the dependents that are rerun "
                    "keep their old rows (two entries per job afterwards) or are not reset", "afterwards the results again hold one entry per job")
    if n < 2:
        raise AnalysisError(rid, f"only {n} consumers of the rerun set recognised (expected the result pruning and the state reset)")
    # pruning first, state reset second: if the pruning fails the submission is still complete and untouched; the other way
    # round a failed pruning leaves a re-opened submission with every old row in place (try-submit-jobs then reruns the
    # jobs and the results hold two entries per job)
    prunes = [n for s in ctx.cg.sites_in(fn) if "RESULT_WRITE" in ctx.site_may(s) and not s.calls_short(ctx.ix, "Cluster.deserialize") and not (ctx.site_may(s) & {"HANDOFF", "LAUNCH"}) for n in ctx.nodes_of(fn, s.node)]
    resets = [(s, n) for s in ctx.sites(fn, short="Cluster.prepare_for_resubmission") for n in ctx.nodes_of(fn, s.node)]
    if not prunes or not resets:
        raise AnalysisError(rid, f"result pruning ({len(prunes)}) / state reset ({len(resets)}) not found in resubmit_jobs")
    for s, n in resets:
        r.check(dominated_by(ctx, fn, n, prunes), "the results are pruned before the submission is re-opened", key_of(fn, "state reset before the result pruning"), s.loc,
                "prepare_for_resubmission() runs before the old rows were pruned: if the pruning then fails (results lock timeout, I/O error) the submission is already re-opened with all old rows in place, "
                "the documented way forward (try-submit-jobs) reruns the jobs and the results end up with two entries per job", "a failure of the command never leaves the submission with ... no way forward / one entry per job")


def reset_restores_blockers(ctx, r, pf):
    """Every `job.state = NOT_SUBMITTED` of the reset is paired, in the same block, with restoring the job's
    remaining blockers from the closure's mapping: the old set was emptied when the job was submitted."""
    n_st = 0
    for n in iter_own(pf.node):
        if isinstance(n, ast.Assign) and any(isinstance(t, ast.Attribute) and t.attr == "state" for t in n.targets) and ctx.src(n.value) == "JobState.NOT_SUBMITTED":
            n_st += 1
            par = ctx.parents(pf).get(id(n))
            blk = next((getattr(par, f) for f in ("body", "orelse") if isinstance(getattr(par, f, None), list) and n in getattr(par, f)), [])
            recv = ctx.src(n.targets[0].value)
            paired = any(isinstance(x, ast.Assign) and ctx.src(x.targets[0]) == f"{recv}.blocked_by" and "updated_blocking_jobs_by_name" in ctx.src(x.value) for x in blk)
            r.check(paired, "a job set back to not_submitted gets its remaining blockers restored in the same block", key_of(pf, "state reset without blockers restore"), pf.loc(n),
                    f"`{ctx.src(n)}` is not paired with restoring {recv}.blocked_by: a resubmitted job that had been submitted (its blocker set was emptied then) comes back with no blockers "
                    "and is started before the jobs it depends on have outcomes", "each once and in dependency order")
    if n_st == 0:
        raise AnalysisError("C13.4", "no reset of Job.state to NOT_SUBMITTED found")


@rule(P, "C13.5", "T14", "the dependent-closure loop stops early only on a fixpoint and is bounded by the number of jobs", min_obligations=3)
def c13_5(ctx, r):
    """Roles instead of spellings: S = the rerun set (first parameter), M = the mapping returned, v = the scan variable,
    `v.get_blocking_jobs()` = the job's blockers; conditions are compared with intermediate locals inlined."""
    fn = ctx.fn("resubmit_jobs._update_with_blocking_jobs", "C13.5")
    S = fn.params[0]
    rebinds = [n for n in iter_own(fn.node) if isinstance(n, (ast.Assign, ast.AugAssign, ast.AnnAssign)) and any(isinstance(t, ast.Name) and t.id == S for t in (n.targets if isinstance(n, ast.Assign) else [n.target]))]
    r.check(not rebinds, "the rerun set is grown in place (the caller's set object)", key_of(fn, f"{S} rebound"), fn.loc(rebinds[0]) if rebinds else fn.loc(),
            f"`{ctx.src(rebinds[0]) if rebinds else ''}` rebinds the parameter: the dependents are added to a private copy, while resubmit-jobs goes on to prune results and reset states with its own (unclosed) set - "
            "dependents that were not selected by the flags themselves are not rerun", "plus every job that transitively depends on one of them")
    loops = [n for n in fn.node.body if isinstance(n, (ast.For, ast.While))]
    if len(loops) != 1:
        raise AnalysisError("C13.5", f"expected one outer closure loop, found {len(loops)}")
    lp = loops[0]
    mret = only_return(ctx, fn)
    rn = [n for n in ctx.cfg(fn).nodes if n.kind == "stmt" and isinstance(n.ast, ast.Return)]
    M = rn[0].ast.value.id if rn and isinstance(rn[0].ast.value, ast.Name) else None
    if M is None:
        raise AnalysisError("C13.5", "the closure does not return a local mapping")
    # the mapping is returned only after the closure loop ran: it is filled nowhere else, and every selected job with a selected
    # blocker needs its entry even when no further dependent can be added
    cfg0 = ctx.cfg(fn)
    heads0 = [n for n in cfg0.nodes if n.kind in ("for", "loop_head") and n.ast is lp]
    for n in [x for x in cfg0.nodes if x.kind == "stmt" and isinstance(x.ast, ast.Return)]:
        r.check(dominated_by(ctx, fn, n, heads0, NORMAL_KINDS), "the closure loop runs before the mapping is returned", key_of(fn, "returns before the closure loop"), fn.loc(n.ast),
                f"`{ctx.src(n.ast)}` is reachable without the closure loop having run (an early exit, e.g. 'everything is selected already'): the mapping of restricted blockers is still empty, so "
                "prepare_for_resubmission gives every reset job an empty blocker set and the rerun starts dependents before the jobs they wait for", "each once and in dependency order")
    if isinstance(lp, ast.While):
        r.ok("closure loop is unbounded (while)")
    else:
        it = lp.iter
        ok = isinstance(it, ast.Call) and isinstance(it.func, ast.Name) and it.func.id == "range" and len(it.args) == 1
        bound = None
        if ok:
            a = it.args[0]
            nodes = ctx.cfg(fn).nodes_of(lp.iter)
            e = inline_locals(ctx, fn, a, nodes[0]) if nodes else a
            bound = render(ctx, fn, e)
            okb = bound in ("len(<JobConfiguration._jobs>)", "<JobConfiguration.get_num_jobs>()") or bound.startswith("call:JobConfiguration.get_num_jobs()")
        r.check(ok and okb, "pass bound = number of configured jobs", key_of(fn, "closure bound"), fn.loc(lp),
                f"the closure loop runs at most {bound} passes: a dependency chain listed in reverse order needs one pass per link, so dependents beyond the bound are not rerun",
                "plus every job that transitively depends on one of them", bound=bound)
    # early exits: every break in the outer loop is guarded by "this pass added nothing"
    brks = [n for n in ast.walk(lp) if isinstance(n, ast.Break) and ctx.enclosing(fn, n, (ast.For, ast.While))[0] is lp]
    import re as _re

    for b in brks:
        for node in ctx.nodes_of(fn, b):
            g = ctx.guards(fn)
            okb, seen_forms = False, []
            for key, pol, e in g.at(node):
                seen_forms.append(("" if pol else "not ") + key)
                if not (pol and isinstance(e, ast.Compare) and len(e.ops) == 1 and isinstance(e.ops[0], ast.Eq)):
                    continue
                l, rt = e.left, e.comparators[0]
                if isinstance(l, ast.Constant):
                    l, rt = rt, l
                tnode = g.origin[key][0] if key in g.origin else None
                # one level only: `first = len(S)` is a snapshot taken at the top of the pass and must stay a name
                if isinstance(l, ast.Name) and tnode is not None:
                    l = g.expand(l, tnode, depth=1)
                txt = ctx.src(l).replace(" ", "")
                m = None
                if isinstance(rt, ast.Constant) and rt.value == 0:
                    m = _re.fullmatch(rf"len\({S}\)-(\w+)", txt)
                elif isinstance(rt, ast.Name) and txt == f"len({S})":
                    m = _re.fullmatch(r"(\w+)", rt.id)
                if m:
                    first = m.group(1)
                    defs = [x for x in lp.body if isinstance(x, ast.Assign) and isinstance(x.targets[0], ast.Name) and x.targets[0].id == first]
                    okb = okb or (len(defs) == 1 and ctx.src(defs[0].value).replace(" ", "") == f"len({S})")
            r.check(okb, "early exit only when a pass added nothing", key_of(fn, "closure early exit"), fn.loc(b),
                    f"the closure loop breaks under {sorted(seen_forms)}, not on 'no job added in this pass' (len({S}) unchanged since the top of the pass): transitive dependents are missed",
                    guards=sorted(seen_forms))
    if not brks and isinstance(lp, ast.While):
        raise AnalysisError("C13.5", "unbounded closure loop without a break")
    # the inner scan is over all configured jobs, unconditionally adds a job that intersects
    inner = [n for n in ast.walk(lp) if isinstance(n, ast.For) and n is not lp]
    isite = ctx.cg.site_of(fn, inner[0].iter) if inner and isinstance(inner[0].iter, ast.Call) else None
    ok_inner = isite is not None and isite.calls_short(ctx.ix, "JobConfiguration.iter_jobs") and not inner[0].iter.args and not inner[0].iter.keywords
    r.check(ok_inner, "each pass scans every configured job", key_of(fn, "inner scan"), fn.loc(lp), "the closure pass does not iterate config.iter_jobs()")
    if not ok_inner:
        return
    v = ctx.src(inner[0].target)
    inter = (f"{v}.get_blocking_jobs().intersection({S})", f"{S}.intersection({v}.get_blocking_jobs())", f"{v}.get_blocking_jobs()&{S}", f"{S}&{v}.get_blocking_jobs()")
    adds = [n for n in ast.walk(lp) if isinstance(n, ast.Call) and isinstance(n.func, ast.Attribute) and n.func.attr == "add" and ctx.src(n.func.value) == S]
    for a in adds:
        for node in ctx.nodes_of(fn, a):
            forms = {f for f, p in inlined_guards(ctx, fn, node) if p}
            r.check(bool(forms & set(inter)), "a job is added when one of its blockers is selected", key_of(fn, "closure add"), fn.loc(a),
                    f"jobs are added to the rerun set under {sorted(forms)}")
    if not adds:
        r.bad(key_of(fn, "closure never adds"), fn.loc(lp), f"the closure loop never adds dependents to {S}")
    # the blockers handed to the state reset are the original blockers restricted to the rerun set
    stores = [n for n in ast.walk(lp) if isinstance(n, ast.Assign) and isinstance(n.targets[0], ast.Subscript) and ctx.src(n.targets[0].value) == M]
    if not stores:
        r.bad(key_of(fn, "no restricted blockers"), fn.loc(lp), "the closure no longer records the restricted blocker sets of rerun dependents")
    for st in stores:
        okv = False
        for node in ctx.nodes_of(fn, st):
            okv = inlined(ctx, fn, st.value, node) in inter
        r.check(okv, "remaining blockers of a rerun dependent = its blockers restricted to the rerun set", key_of(fn, "restricted blockers"), fn.loc(st),
                f"`{ctx.src(st)}`: a rerun dependent keeps blockers that are not rerun; those are already done, never complete again, so the dependent stays blocked for ever and ends up missing",
                "each once and in dependency order ... afterwards the results again hold one entry per job")
        r.check(ctx.src(st.targets[0].slice) == f"{v}.name", "stored under the dependent's name", key_of(fn, "restricted blockers key"), fn.loc(st), f"stored under {ctx.src(st.targets[0].slice)}")
    # every pass records the restricted set of every job with a selected blocker: the only ways past the store are
    # "no blockers" / "no selected blocker" (a job recorded by an earlier pass must be re-recorded: the rerun set grew)
    if stores and inner:
        snodes = [n for st in stores for n in ctx.nodes_of(fn, st)]
        cfg = ctx.cfg(fn)
        for end, conds, last, path in iteration_paths(ctx, fn, inner[0], avoid=snodes, with_path=True):
            falsy = set()
            for node, kind, cond in path:
                if kind in ("T", "F") and cond is not None:
                    k2, p2, _ = canon(inline_locals(ctx, fn, cond, node))
                    if (kind == "T") != p2:
                        falsy.add(k2.replace(" ", ""))
            okp = end == "next" and bool(falsy & (set(inter) | {f"{v}.get_blocking_jobs()"}))
            other = sorted(("" if p else "not ") + f for f, p in conds)
            r.check(okp, "a job is passed over only if it has no blockers / no selected blocker", key_of(fn, f"closure pass skips under {other}"), fn.loc(last.stmt if last.stmt is not None else inner[0]),
                    f"a closure pass {'leaves the scan' if end == 'leave' else 'skips a job'} under {other} without recording its restricted blockers: a dependent whose blockers join the rerun set in a later pass keeps "
                    "the stale (smaller) set, so it is released before all of its rerun blockers have finished", "each once and in dependency order")
    # prepare_for_resubmission reads that mapping for the job being reset
    pfn = ctx.ix.try_func("Cluster._prepare_for_resubmission") or ctx.fn("Cluster.prepare_for_resubmission", "C13.5")
    mp = pfn.params[-1]
    okr = False
    for n in iter_own(pfn.node):
        if isinstance(n, ast.Assign) and isinstance(n.targets[0], ast.Attribute) and n.targets[0].attr == "blocked_by":
            recv = ctx.src(n.targets[0].value)
            okr = okr or ctx.src(n.value).replace(" ", "") == f"{mp}.get({recv}.name,set())"
    r.check(okr, "the reset job's remaining blockers come from that mapping (empty if absent)", key_of(pfn, "blocked_by from mapping"), pfn.loc(), f"prepare_for_resubmission no longer sets blocked_by from {mp}.get(<job>.name, set())")


@rule(P, "C13.6", "T8", "resubmission loads the submitter as an existing submission (setup is not rerun)", min_obligations=2)
def c13_6(ctx, r):
    fn = ctx.fn(FN, "C13.6")
    ls = ctx.sites(fn, short="JobSubmitter.load")
    r.check(bool(ls), "resubmit-jobs obtains its JobSubmitter from JobSubmitter.load", key_of(fn, "JobSubmitter.load"), fn.loc(),
            "resubmit-jobs no longer uses JobSubmitter.load (create() would rerun setup and rewrite config.json)")
    load = ctx.fn("JobSubmitter.load", "C13.6")
    init = ctx.ix.lookup_method(ctx.cls("JobSubmitter"), "__init__")
    for s in ctx.cg.sites_in(load):
        if isinstance(s.node.func, ast.Name) and s.node.func.id == "cls":
            a = ctx.arg_for(s, init, "is_new")
            r.check(isinstance(a, ast.Constant) and a.value is False, "JobSubmitter.load constructs with is_new=False", key_of(load, "is_new"), s.loc,
                    f"JobSubmitter.load constructs with is_new={ctx.src(a) if a is not None else None}: setup command and ResultsAggregator.create rerun, erasing results")


@rule(P, "C13.7", "T1", "each selection flag selects its own class of jobs and nothing else decides it", min_obligations=4)
def c13_7(ctx, r):
    fn = ctx.fn("resubmit_jobs._get_jobs_to_resubmit", "C13.7")
    cfg = ctx.cfg(fn)
    flags = [p for p in fn.params if p in ("failed", "missing", "successful")]
    if len(flags) != 3:
        raise AnalysisError("C13.7", f"_get_jobs_to_resubmit flags are {flags}")
    want = {"canceled": "failed", "failed": "failed", "successful": "successful"}
    seen = set()
    # the selection is read from the completion summary (results.json), which resubmit-jobs never rewrites - not from processed_results.csv,
    # which the same command prunes before the cluster is reset: a retry after a failure in between must select the same jobs again
    live = [s_ for s_ in ctx.cg.sites_in(fn) if any(t.endswith(("ResultsAggregator.list_results", "ResultsAggregator.get_results", "ResultsAggregator.get_results_unsafe")) for t in s_.targets())]
    summ = [c for c in ast.walk(fn.node) if isinstance(c, ast.Call) and ctx.src(c.func) == "ResultsSummary"]
    r.check(bool(summ) and not live, "the jobs to rerun are chosen from the completion summary, which the command leaves untouched", key_of(fn, "selection source"), fn.loc(live[0].node) if live else fn.loc(),
            "_get_jobs_to_resubmit reads the live results file (" + (ctx.src(live[0].node)[:70] if live else "no ResultsSummary") + "): resubmit-jobs prunes that file before it resets the cluster, so when the command fails in "
            "between and is repeated, the pruned jobs are no longer 'failed' there - the retry selects nothing, the submission completes again and those jobs were never rerun",
            "a failure of the command never leaves the submission with results erased and no way forward")
    if live:
        return
    for n in cfg.nodes:
        a = n.ast
        if n.kind != "stmt" or not isinstance(a, (ast.AugAssign, ast.Expr, ast.Assign)):
            continue
        keys = [x.slice.value for x in ast.walk(a) if isinstance(x, ast.Subscript) and isinstance(x.slice, ast.Constant) and x.slice.value in want and isinstance(x.ctx, ast.Load)]
        miss = [c for c in ast.walk(a) if isinstance(c, ast.Call) and isinstance(c.func, ast.Attribute) and c.func.attr == "get_missing_jobs"]
        for what, flag in [(k, want[k]) for k in keys] + [("missing", "missing") for _ in miss]:
            if not isinstance(a, ast.AugAssign) and not any(isinstance(c, ast.Call) and isinstance(c.func, ast.Attribute) and c.func.attr in ("extend", "update") for c in ast.walk(a)):
                continue
            seen.add(what)
            forms = {(f, p) for f, p in guard_forms(ctx, fn, n) if f in flags}
            r.check(forms == {(flag, True)}, f"'{what}' jobs are selected iff --{flag}", key_of(fn, f"{what} selected under {sorted(('' if p else 'not ') + f for f, p in forms)}"), fn.loc(a),
                    f"the {what} jobs are added to the rerun set under {sorted(('' if p else 'not ') + f for f, p in forms)} instead of exactly `{flag}`: some flag combinations rerun other jobs than the ones selected "
                    "(the command still exits 0)", "reruns exactly the jobs selected by its flags (failed/canceled, missing, successful)")
    if seen != {"canceled", "failed", "successful", "missing"}:
        raise AnalysisError("C13.7", f"selections recognised: {sorted(seen)}")
    # `missing` = every configured job without a result: the scan is fed *all* jobs of the cluster, and get_missing_jobs() selects by `no result` alone
    gm = ctx.fn("ResultsSummary.get_missing_jobs", "C13.7")
    for s in ctx.cg.sites_in(fn):
        if not s.calls_short(ctx.ix, "ResultsSummary.get_missing_jobs"):
            continue
        a = ctx.arg_for(s, gm, gm.bound_params[0])
        e = inlined_expr(ctx, fn, a) if a is not None else None
        ok = isinstance(e, ast.Call) and isinstance(e.func, ast.Attribute) and e.func.attr == "iter_jobs" and isinstance(e.func.value, ast.Name) and e.func.value.id in fn.params and not e.args and not e.keywords
        r.check(ok, "the missing scan is fed every job of the cluster", key_of(fn, "missing scan over a subset of the jobs"), s.loc,
                f"get_missing_jobs() is given `{ctx.src(e) if e is not None else None}`, not cluster.iter_jobs() without a filter: a job that was handed to the HPC and never produced a result (state still "
                "'submitted' after a forced completion) is not selected by --missing, while its dependents are", "reruns exactly the jobs selected by its flags")
    cols = collections_from(ctx, gm, lambda it: isinstance(it, ast.Name) and it.id == gm.bound_params[0])
    okm = any({(f.replace(" ", ""), p) for f, p in c["conds"]} <= {("self.get_result(_.name)isNone", True), ("call:ResultsSummary.get_result(_.name)@selfisNone", True)} and c["conds"] and c["elt"] == "_" for c in cols)
    if not cols:
        raise AnalysisError("C13.7", "get_missing_jobs no longer collects from its parameter")
    r.check(okm or any(len(c["conds"]) <= 2 and all("isNone" in f.replace(" ", "") and "get_result" in f and p for f, p in c["conds"]) and c["conds"] for c in cols), "a job is missing iff it has no result",
            key_of(gm, "missing predicate"), gm.loc(gm.node),
            f"get_missing_jobs selects under {[sorted(c['conds']) for c in cols]}: not `get_result(job.name) is None` alone - jobs that do have a result (canceled ones, say) are rerun by --missing although "
            "their class was not selected, and their old result is pruned", "reruns exactly the jobs selected by its flags (failed/canceled, missing, successful)")


@rule(P, "C13.8", "T3", "the reset persists what it changed: job states and counters reach both files before the command goes on", min_obligations=3)
def c13_8(ctx, r):
    from .c09 import c09_10

    c09_10(ctx, r)


MUTATORS = ("update", "pop", "popitem", "setdefault", "clear", "__setitem__", "__delitem__")


def result_round_trip(ctx, r, rid):
    """Rewriting the consolidated file (prune for resubmission) sends every *kept* row through serialize_result -> csv -> _get_results ->
    deserialize_result.  Each stage must be the identity on the six Result fields:
      serialize_result(x)  returns x._asdict() and nothing stores into / mutates that dict;
      _write_results       writes serialize_result(x) for every x it was given, under fieldnames=Result._fields;
      _get_results         converts a cell only by int()/float() of the *same* cell;
      deserialize_result   hands data[<f>] to Result's parameter <f> for every field it passes."""
    ser = ctx.fn("result.serialize_result", rid)
    p = ser.params[0]
    ret = only_return(ctx, ser)
    val = ctx.src(ret) if ret is not None else None
    r.check(val is not None and val.replace(" ", "") == f"{p}._asdict()", "serialize_result returns result._asdict()", key_of(ser, "serialized form"), ser.loc(ser.node),
            f"serialize_result returns `{val}` instead of the unmodified `{p}._asdict()`: rows that are merely kept are rewritten with other values", "results of all other jobs are preserved (same name, return code, status and times)")
    muts = []
    for n in iter_own(ser.node):
        if isinstance(n, (ast.Assign, ast.AugAssign, ast.Delete)):
            tg = n.targets if isinstance(n, (ast.Assign, ast.Delete)) else [n.target]
            muts += [ctx.src(t) for t in tg if isinstance(t, ast.Subscript)]
        if isinstance(n, ast.Call) and isinstance(n.func, ast.Attribute) and n.func.attr in MUTATORS:
            muts.append(ctx.src(n))
    r.check(not muts, "nothing rewrites a field of the serialized row", key_of(ser, f"field rewritten: {sorted(set(muts))}"), ser.loc(ser.node),
            f"serialize_result changes the dict after building it ({sorted(set(muts))}): every row that passes through a rewrite of the consolidated file (pruning for resubmission keeps the rows of the jobs that "
            "are *not* rerun) comes back with a changed value", "results of all other jobs are preserved (same name, return code, status and times)")
    # _write_results
    wr = ctx.fn("ResultsAggregator._write_results", rid)
    rows = collections_from(ctx, wr, lambda it: isinstance(it, ast.Name) and it.id == wr.params[1])
    okw = any(c["elt"].replace(" ", "") == "serialize_result(_)" and not c["conds"] for c in rows)
    r.check(okw, "_write_results writes serialize_result(x) for every row given", key_of(wr, "rows written"), wr.loc(wr.node),
            f"_write_results builds its rows as {[(c['elt'], c['conds']) for c in rows]} - not serialize_result(x) of every result it was given", "results of all other jobs are preserved")
    okf = any(isinstance(c, ast.Call) and ctx.src(c.func).endswith("DictWriter") and any(k.arg == "fieldnames" and ctx.src(k.value) == "Result._fields" for k in c.keywords) for c in iter_own(wr.node))
    r.check(okf, "the header is Result._fields", key_of(wr, "fieldnames"), wr.loc(wr.node), "the rewritten consolidated file no longer has Result._fields as its header: the reader maps cells to other fields",
            "the consolidated file always parses")
    # _get_results: conversions are int/float of the same cell
    gr = ctx.fn("ResultsAggregator._get_results", rid)
    conv = 0
    for n in iter_own(gr.node):
        if isinstance(n, ast.Assign) and len(n.targets) == 1 and isinstance(n.targets[0], ast.Subscript) and isinstance(n.targets[0].slice, ast.Constant):
            conv += 1
            v = n.value
            same = isinstance(v, ast.Call) and isinstance(v.func, ast.Name) and v.func.id in ("int", "float", "str") and len(v.args) == 1 and ctx.src(v.args[0]) == ctx.src(n.targets[0])
            r.check(same, f"cell {n.targets[0].slice.value!r} is converted from itself", key_of(gr, f"cell {n.targets[0].slice.value} from {ctx.src(v)}"), gr.loc(n),
                    f"`{ctx.src(n)}`: the cell is not the int()/float() of the same cell - a row read back differs from the row written", "results of all other jobs are preserved (same name, return code, status and times)")
    if conv < 2:
        raise AnalysisError(rid, f"{conv} cell conversions recognised in _get_results")
    # deserialize_result
    de = ctx.fn("result.deserialize_result", rid)
    new = ctx.fn("Result.__new__", rid)
    dp = de.params[0]
    rebound = [x for x in iter_own(de.node) if isinstance(x, (ast.Assign, ast.AugAssign)) and any(isinstance(t, ast.Name) and t.id == dp for t in (x.targets if isinstance(x, ast.Assign) else [x.target]))]
    rebound += [x for x in iter_own(de.node) if isinstance(x, ast.Assign) and any(isinstance(t, ast.Subscript) and isinstance(t.value, ast.Name) and t.value.id == dp for t in x.targets)]
    r.check(not rebound, "deserialize_result reads the row it was given (the parameter is not rebound / rewritten)", key_of(de, "row rewritten before it is read"), de.loc(rebound[0]) if rebound else de.loc(de.node),
            f"`{ctx.src(rebound[0])[:90] if rebound else ''}`: the row is transformed as a whole before its fields are read - a value that merely *looks* special in some column (a job named None, say) comes back changed",
            "carries the job's name ... results of all other jobs are preserved (same name, return code, status and times)")
    calls = 0
    for s in ctx.cg.sites_in(de):
        if new.qual not in s.targets():
            continue
        calls += 1
        for f in new.params[1:]:
            v = ctx.arg_for(s, new, f)
            if v is None or v is new.defaults.get(f):
                continue
            txt = inlined(ctx, de, v, ctx.nodes_of(de, ctx.stmt_of(de, s.node))[0]).replace('"', "'")
            txt = txt.replace(f".get('{f}', None)", f".get('{f}')")  # dict.get's default is None
            ok = txt == f"{dp}['{f}']" or (f == "hpc_job_id" and f"{dp}.get('{f}')" in txt)
            if not ok and isinstance(v, ast.Name):
                # a local with several definitions (the "None" string of an old file is mapped to None): each one is data.get(<f>) or None
                defs = [n.value for n in iter_own(de.node) if isinstance(n, ast.Assign) and any(isinstance(t, ast.Name) and t.id == v.id for t in n.targets)]
                ok = bool(defs) and all(ctx.src(d).replace('"', "'").replace(f".get('{f}', None)", f".get('{f}')") in (f"{dp}.get('{f}')", f"{dp}['{f}']", "None") for d in defs) and any("None" != ctx.src(d) for d in defs)
            r.check(ok, f"Result.{f} is read from data['{f}']", key_of(de, f"{f} from {txt}"), de.loc(s.node),
                    f"deserialize_result builds Result.{f} from `{txt}`: a row read back carries another field's value", "results of all other jobs are preserved (same name, return code, status and times)")
    if calls < 1:
        raise AnalysisError(rid, "deserialize_result does not construct a Result")


@rule(P, "C13.9", "T9", "a kept result row survives the rewrite of the consolidated file unchanged (serialize -> csv -> deserialize is the identity on the fields)", min_obligations=8)
def c13_9(ctx, r):
    result_round_trip(ctx, r, "C13.9")


@rule(P, "C13.10", "T1", "after the reset nothing in resubmit-jobs depends on files that may not exist: directory listings are guarded by an existence test", min_obligations=1)
def c13_10(ctx, r):
    """Once prepare_for_resubmission() ran, the submission is no longer complete - a second `resubmit-jobs` is refused.  A crash between the reset
    and mgr.submit_jobs() therefore leaves `results erased and no way forward`.  The one step in between that touches the file system, the
    clean-up of <output>/events, must tolerate the directory's absence (it is only created by report generation): every iterdir()/listdir()/
    scandir()/glob of resubmit_jobs() that is reachable after the reset is dominated by an exists()/is_dir() test."""
    fn = ctx.fn(FN, "C13.10")
    prep = [n for s in ctx.sites(fn, short="Cluster.prepare_for_resubmission") for n in ctx.nodes_of(fn, s.node)]
    if not prep:
        raise AnalysisError("C13.10", "no prepare_for_resubmission call in resubmit_jobs")
    after = set()
    for p0 in prep:
        after |= set(reachable_from(ctx, fn, p0, kinds=NORMAL_KINDS))
    n = 0
    for nd in ctx.cfg(fn).nodes:
        if nd.id not in after:
            continue
        for c in ctx.cfg(fn).calls_at(nd):
            name = ctx.src(c.func).split(".")[-1]
            if name not in ("iterdir", "listdir", "scandir"):
                continue
            n += 1
            forms = guard_forms(ctx, fn, nd, kill=False)
            ok = any(p and (f.endswith(".exists()") or f.endswith(".is_dir()") or "os.path.exists(" in f or "os.path.isdir(" in f or "@" in f and ("exists" in f or "is_dir" in f)) for f, p in forms)
            r.check(ok, f"{name}() runs only if the directory exists", key_of(fn, f"{name} of a directory that may not exist"), fn.loc(c),
                    f"`{ctx.src(c)[:70]}` is reached after the cluster state was reset, under {sorted(('' if p else 'not ') + f for f, p in forms)} - no existence test: on a submission made without reports the "
                    "directory was never created, the command dies with FileNotFoundError after results were pruned and counters reset, and a second resubmit-jobs is refused (submission no longer complete)",
                    "a failure of the command never leaves the submission with results erased and no way forward")
    if n < 1:
        raise AnalysisError("C13.10", "no directory listing after the reset any more (rule is moot)")

"""C17 - configurations round-trip losslessly; invalid ones are rejected up front."""

import ast
import re

from .. import AnalysisError
from ..cfg import ALL_KINDS, NORMAL_KINDS, iter_own
from ..lib import comp_norm, iteration_paths, attr_stores, dominated_by, guard_forms, key_of, norm, render, type_is
from ..report import describe, rule

P = "C17"

describe(
    P,
    "Decides writer/reader agreement and the placement of validation: every state-bearing constructor parameter of "
    "JobConfiguration is emitted by serialize() under its own name from the attribute that parameter is stored in, and every "
    "key serialize()/subclass _serialize() emit is accepted by the constructor (named parameter, kwargs lookup, or listed "
    "metadata); jobs are emitted and re-added in iteration order; the generic job model drops a field on output only if the "
    "field declares that default; run_checks() precedes the dump of config.json, the creation of the cluster state and every "
    "call that may hand off or launch; each listed invalidity has a raising check on that path (unknown blocker, duplicate job "
    "name, absent/unknown/duplicate group, differing hpc_type or must_be_same value, estimate above walltime)."
    " add_job assigns a job attribute (job_id) only when it is absent, so loading never renumbers; the walltime pattern is analysed as a regex syntax tree: the hours group must take every leading digit.",
    ["pydantic validates and re-creates model fields from their dict() form (extra='forbid')"],
    "lossless equality over generated values and 'every valid configuration is accepted' are value-level and not decided.",
)

JC = "JobConfiguration"
METADATA = {"configuration_module", "configuration_class", "format_version"}


@rule(P, "C17.1", "T9", "serialize() and __init__ agree on keys; each state parameter is emitted from its own attribute", min_obligations=10)
def c17_1(ctx, r):
    cls = ctx.cls(JC, "C17.1")
    init = cls.methods["__init__"]
    ser = cls.methods["serialize"]
    # dict literal + conditional subscript stores in serialize
    emitted = {}
    sret = [n for n in iter_own(ser.node) if isinstance(n, ast.Return) and isinstance(n.value, ast.Name)]
    DV = sret[-1].value.id if sret else None
    for n in iter_own(ser.node):
        if isinstance(n, ast.Assign) and isinstance(n.value, ast.Dict) and DV and ctx.src(n.targets[0]) == DV:
            for k, v in zip(n.value.keys, n.value.values):
                if isinstance(k, ast.Constant):
                    emitted[k.value] = v
        if isinstance(n, ast.Assign) and isinstance(n.targets[0], ast.Subscript) and DV and ctx.src(n.targets[0].value) == DV and isinstance(n.targets[0].slice, ast.Constant):
            emitted[n.targets[0].slice.value] = n.value
    if len(emitted) < 8:
        raise AnalysisError("C17.1", f"only {len(emitted)} keys recognised in serialize()")
    named = set(init.params[1:])
    kw_reads = set()
    for n in iter_own(init.node):
        if isinstance(n, ast.Subscript) and ctx.src(n.value) == "kwargs" and isinstance(n.slice, ast.Constant):
            kw_reads.add(n.slice.value)
        if isinstance(n, ast.Call) and ctx.src(n.func) == "kwargs.get" and n.args and isinstance(n.args[0], ast.Constant):
            kw_reads.add(n.args[0].value)
        if isinstance(n, ast.Compare) and isinstance(n.ops[0], ast.In) and ctx.src(n.comparators[0]) == "kwargs" and isinstance(n.left, ast.Constant):
            kw_reads.add(n.left.value)
    for key in sorted(emitted):
        ok = key in named or key in kw_reads or key in METADATA
        r.check(ok, f"key '{key}' written by serialize() is read by the constructor", key_of(ser, f"emits unread key {key}"), ser.loc(emitted[key]),
                f"serialize() writes '{key}' but JobConfiguration.__init__ neither names it nor looks it up in kwargs: the value is silently dropped on load", "Writing a configuration to a file and loading it back yields the same ...")
    # state-bearing params: stored in self._<p> and emitted from it
    state_params = [p for p in init.params[1:] if p != "container"]
    for p in state_params:
        stores = [n for n in iter_own(init.node) if isinstance(n, ast.Assign) and isinstance(n.targets[0], ast.Attribute) and isinstance(n.targets[0].value, ast.Name) and n.targets[0].value.id == "self" and p in [x.id for x in ast.walk(n.value) if isinstance(x, ast.Name)]]
        if not stores:
            raise AnalysisError("C17.1", f"constructor parameter {p} is not stored")
        attr = stores[0].targets[0].attr
        if p not in emitted:
            r.bad(key_of(ser, f"parameter {p} not emitted"), ser.loc(), f"constructor parameter `{p}` (stored in self.{attr}) is not written by serialize(): it is lost in config.json and in every batch config", "the same ... lifecycle commands / groups")
            continue
        v = emitted[p]
        reads = {x.attr for x in ast.walk(v) if isinstance(x, ast.Attribute) and isinstance(x.value, ast.Name) and x.value.id == "self"}
        via_prop = {a for a in reads if a in cls.methods and cls.methods[a].kind == "property"}
        backing = set()
        for a in via_prop:
            from ..lib import _single_return

            rx = _single_return(cls.methods[a])
            if rx is not None and isinstance(rx, ast.Attribute):
                backing.add(rx.attr)
        r.check(attr in reads or attr in backing, f"'{p}' is emitted from self.{attr}", key_of(ser, f"{p} emitted from {sorted(reads)}"), ser.loc(v),
                f"serialize() writes '{p}' from `{ctx.src(v)}`, not from self.{attr} where the constructor stored it: a different value is written back",
                "loading it back yields the same ... lifecycle commands", value=ctx.src(v))
    # jobs: emitted in iteration order, re-added in order
    jv = emitted.get("jobs")
    r.check(jv is not None and comp_norm(jv) == "[_.serialize()for_inself.iter_jobs()]", "jobs are emitted in iteration order, unfiltered", key_of(ser, "jobs emission"), ser.loc(), f"jobs = {ctx.src(jv) if jv is not None else None}", "the same jobs in the same order")
    dj = cls.methods["_deserialize_jobs"]
    loops = [n for n in dj.node.body if isinstance(n, ast.For)]
    jparam = [p for p in dj.params if p != "self"][0]
    adds = [n for s2 in ctx.sites(dj, name="add_job") for n in ctx.nodes_of(dj, s2.node)]
    okd = len(loops) == 1 and isinstance(loops[0].iter, ast.Name) and loops[0].iter.id == jparam and bool(adds)
    skipped = []
    if okd:
        skipped = [(end, sorted(("" if p2 else "not ") + f for f, p2 in conds)) for end, conds, last in iteration_paths(ctx, dj, loops[0], avoid=adds)]
        # the object added is the one deserialised from this iteration's entry
        for s2 in ctx.sites(dj, name="add_job"):
            a0 = s2.node.args[0] if s2.node.args else None
            for n in ctx.nodes_of(dj, s2.node):
                e = ctx.guards(dj).expand(a0, n) if isinstance(a0, ast.Name) else a0
                okd = okd and isinstance(e, ast.Call) and isinstance(e.func, ast.Attribute) and e.func.attr == "deserialize" and any(isinstance(x, ast.Name) and x.id == ctx.src(loops[0].target) for x in ast.walk(e))
    r.check(okd and not skipped, "jobs are re-added in file order, unconditionally", key_of(dj, "jobs load"), dj.loc(), f"_deserialize_jobs skips or reorders jobs (paths around add_job: {skipped})", "the same jobs in the same order")
    okc = False
    for s2 in ctx.sites(init, short=f"{JC}._deserialize_jobs"):
        a0 = s2.node.args[0] if s2.node.args else None
        for n in ctx.nodes_of(init, s2.node):
            e = ctx.guards(init).expand(a0, n) if isinstance(a0, ast.Name) else a0
            src_ok = isinstance(e, ast.Subscript) and ctx.src(e.value) == "kwargs" and isinstance(e.slice, ast.Constant) and e.slice.value == "jobs"
            forms = guard_forms(ctx, init, n)
            okc = src_ok and any(p2 and f.replace('"', "'") == "'jobs' in kwargs" for f, p2 in forms)
    r.check(okc, "the constructor loads kwargs['jobs']", key_of(init, "jobs key"), init.loc(), "the constructor no longer deserialises kwargs['jobs']")
    # container keeps insertion order and serialises every job
    cn = ctx.cls("JobContainerByName", "C17.1")
    it = cn.methods["__iter__"]
    srcs = [render(ctx, it, n.iter) for n in iter_own(it.node) if isinstance(n, (ast.For, ast.comprehension))] + [render(ctx, it, n.value) for n in iter_own(it.node) if isinstance(n, (ast.YieldFrom, ast.Return)) and n.value is not None]
    r.check(any(x.replace("iter(", "").rstrip(")") in ("<JobContainerByName._jobs>.values(", "<JobContainerByName._jobs>.values()") or x in ("<JobContainerByName._jobs>.values()", "iter(<JobContainerByName._jobs>.values())") for x in srcs), "the container iterates in insertion order (dict values)", key_of(it, "order"), it.loc(), f"JobContainerByName.__iter__ iterates {srcs}, not the dict's values in insertion order")
    # subclasses' _serialize add only keys the constructor accepts
    for sub in ctx.ix.subclasses(cls, strict=True):
        m = sub.methods.get("_serialize")
        if m is None or sub.module.name.startswith("jade.extensions.demo"):
            continue
        for n in iter_own(m.node):
            if isinstance(n, ast.Assign) and isinstance(n.targets[0], ast.Subscript) and isinstance(n.targets[0].slice, ast.Constant):
                k = n.targets[0].slice.value
                sinit = sub.methods.get("__init__")
                acc = set(sinit.params[1:]) if sinit else set()
                r.check(k in named or k in kw_reads or k in acc or k in METADATA, f"{sub.name}: extra key '{k}' is accepted on load", key_of(m, f"extra key {k}"), m.loc(n), f"{sub.name}._serialize writes '{k}', which no constructor reads")
    # deserialize: cls(**data)
    de = cls.methods["deserialize"]
    rets = [n for n in ctx.cfg(de).nodes if n.kind == "stmt" and isinstance(n.ast, ast.Return)]
    okde = bool(rets)
    for n in rets:
        v = n.ast.value
        v = ctx.guards(de).expand(v, n) if isinstance(v, ast.Name) else v
        okde = okde and isinstance(v, ast.Call) and isinstance(v.func, ast.Name) and v.func.id == "cls" and not v.args and len(v.keywords) == 1 and v.keywords[0].arg is None
        if okde:
            dv = v.keywords[0].value
            defs = {ctx.src(ctx.rd(de).defs_at[d].get(dv.id)) for d in ctx.rd(de).reaching(n, dv.id) if isinstance(ctx.rd(de).defs_at[d].get(dv.id), ast.AST)} if isinstance(dv, ast.Name) else set()
            okde = bool(defs) and all(x.startswith("load_data(") or x in de.params for x in defs)
    r.check(okde, "deserialize passes every loaded key to the constructor", key_of(de, "cls(**data)"), de.loc(), "deserialize no longer returns cls(**<the loaded data>)")
    dump = cls.methods["_dump"]
    okdump = False
    for n in ctx.cfg(dump).nodes:
        for c in ctx.cfg(dump).calls_at(n):
            if ctx.src(c.func) == "json.dump" and len(c.args) >= 2:
                a0 = ctx.guards(dump).expand(c.args[0], n) if isinstance(c.args[0], ast.Name) else c.args[0]
                site = ctx.cg.site_of(dump, a0) if isinstance(a0, ast.Call) else None
                okdump = site is not None and site.calls_short(ctx.ix, f"{JC}.serialize") and ctx.src(c.args[1]) in dump.params
    r.check(okdump, "dump writes serialize() as JSON to the given stream", key_of(dump, "dump"), dump.loc(), "_dump no longer writes self.serialize() with json.dump to its stream")
    sg = emitted.get("submission_groups")
    r.check(sg is not None and comp_norm(sg) == "[_.dict()for_inself.submission_groups]", "groups are emitted in order as dicts", key_of(ser, "groups emission"), ser.loc(), f"submission_groups = {ctx.src(sg) if sg is not None else None}")
    okg = any(isinstance(n, ast.Assign) and ctx.src(n.targets[0]) == "self._submission_groups" and comp_norm(n.value) == "[SubmissionGroup(**_)for_insubmission_groupsor[]]" for n in iter_own(init.node))
    r.check(okg, "groups are rebuilt in order from those dicts", key_of(init, "groups load"), init.loc(), "submission_groups are no longer rebuilt as [SubmissionGroup(**x) ...]")


@rule(P, "C17.2", "T9", "the generic job model drops a field on output only if the field declares that default", min_obligations=5)
def c17_2(ctx, r):
    mdl = ctx.cls("GenericCommandParametersModel", "C17.2")
    d = mdl.methods.get("dict")
    if d is None:
        raise AnalysisError("C17.2", "GenericCommandParametersModel.dict not found")
    loops = [n for n in iter_own(d.node) if isinstance(n, ast.For) and isinstance(n.iter, (ast.Tuple, ast.List))]
    if len(loops) != 1:
        raise AnalysisError("C17.2", "expected one loop over a literal tuple of droppable fields")
    lp = loops[0]
    fields = [e.value for e in lp.iter.elts if isinstance(e, ast.Constant)]
    for f in fields:
        has_default = False
        v = mdl.ann_values.get(f)
        if isinstance(v, ast.Call) and ctx.src(v.func) == "Field":
            has_default = any(k.arg in ("default", "default_factory") for k in v.keywords)
        r.check(f in mdl.ann_fields and has_default, f"droppable field '{f}' declares a default", key_of(d, f"drops {f}"), d.loc(lp),
                f"dict() may drop '{f}', which {'is not a field' if f not in mdl.ann_fields else 'declares no default'}: loading the file back fails or yields another value", "yields the same ... flags")
    tests = [n for n in ast.walk(lp) if isinstance(n, ast.If)]
    dret = [n for n in iter_own(d.node) if isinstance(n, ast.Return) and isinstance(n.value, ast.Name)]
    DATA = dret[-1].value.id if dret else None
    _a, _b = f"{DATA}[{ctx.src(lp.target)}]", f"GenericCommandParametersModel.__fields__[{ctx.src(lp.target)}].default"
    okt = len(tests) == 1 and DATA is not None and ctx.src(tests[0].test).replace(" ", "") in (f"{_a}=={_b}", f"{_b}=={_a}")
    r.check(okt, "a field is dropped only when its value equals the declared default", key_of(d, "drop condition"), d.loc(lp), f"drop condition is `{ctx.src(tests[0].test) if tests else None}`", "yields the same ... flags")
    pops = [n for n in iter_own(d.node) if isinstance(n, ast.Call) and DATA and ctx.src(n.func) == f"{DATA}.pop"]
    r.check(all(any(l is lp for l in ctx.enclosing(d, n, (ast.For,))) for n in pops) and len(pops) == 1, "nothing else is removed from the dict", key_of(d, "pops"), d.loc(), f"{len(pops)} pops")
    spc = ctx.cls("SubmitterParams")
    sp = spc.methods.get("dict")
    if sp is not None:
        def default_of(fld):
            v = spc.ann_values.get(fld)
            if isinstance(v, ast.Call):
                for k in v.keywords:
                    if k.arg == "default":
                        return ctx.src(k.value)
            return "<required>"

        sret = [x for x in iter_own(sp.node) if isinstance(x, ast.Return) and isinstance(x.value, ast.Name)]
        SD = sret[-1].value.id if sret else "data"
        pops = [x for x in iter_own(sp.node) if isinstance(x, ast.Call) and ctx.src(x.func) in (f"{SD}.pop", f"{SD}.__delitem__")]
        comps = [x for x in iter_own(sp.node) if isinstance(x, ast.DictComp)]
        dels = [x for x in iter_own(sp.node) if isinstance(x, ast.Delete)]
        recognised = False
        for n in pops:
            recognised = True
            fld = n.args[0].value if isinstance(n.args[0], ast.Constant) else None
            forms = [f for cn in ctx.nodes_of(sp, n) for f, p in guard_forms(ctx, sp, cn) if p]
            okn = any(f.replace("'", '"') == f'{SD}["{fld}"] is None' for f in forms)
            r.check(okn and default_of(fld) == "None", f"SubmitterParams drops '{fld}' only when None (its default)", key_of(sp, f"drops {fld}"), sp.loc(n), f"SubmitterParams.dict() drops '{fld}' under {forms} (default {default_of(fld)})")
        for c in comps:
            recognised = True
            g = c.generators[0]
            vv = ctx.src(g.target.elts[1]) if isinstance(g.target, ast.Tuple) and len(g.target.elts) == 2 else "v"
            conds = [ctx.src(i).replace(" ", "") for i in g.ifs]
            if ".items()" in ctx.src(g.iter) and conds in ([f"{vv}isnotNone"], [f"not{vv}isNone"]):
                # every field that may hold None is dropped when None: each must default to None
                for fld, ann in sorted(spc.ann_fields.items()):
                    if "Optional" in ctx.src(ann):
                        r.check(default_of(fld) == "None", f"dropping None-valued '{fld}' is lossless (default None)", key_of(sp, f"drops None-valued {fld}"), sp.loc(c),
                                f"SubmitterParams.dict() drops every None-valued key, but `{fld}` is Optional with default {default_of(fld)}: a group with {fld}=None is written without the key and reloads as {default_of(fld)}",
                                "loading it back yields the same ... groups")
            else:
                raise AnalysisError("C17.2", f"SubmitterParams.dict filters with an unrecognised comprehension: {ctx.src(c)[:80]}")
        if dels:
            raise AnalysisError("C17.2", "SubmitterParams.dict uses del (unrecognised idiom)")
        if not recognised:
            rets = [x for x in iter_own(sp.node) if isinstance(x, ast.Return)]
            r.check(all(isinstance(x.value, ast.Name) or ctx.src(x.value) == "super().dict(*args, **kwargs)" for x in rets), "SubmitterParams.dict drops nothing", key_of(sp, "dict shape"), sp.loc(), "SubmitterParams.dict has an unrecognised shape")
    gp = ctx.fn("GenericCommandParameters.serialize", "C17.2")
    from ..lib import only_return

    rx = only_return(ctx, gp)
    r.check(rx is not None and ctx.src(rx) == "self._model.dict()", "a job serialises as its model's dict()", key_of(gp, "serialize"), gp.loc(), f"GenericCommandParameters.serialize returns `{ctx.src(rx) if rx is not None else None}`")
    gd = ctx.fn("GenericCommandParameters.deserialize", "C17.2")
    rx2 = only_return(ctx, gd)
    r.check(rx2 is not None and isinstance(rx2, ast.Call) and ctx.src(rx2.func) == "cls" and len(rx2.keywords) == 1 and rx2.keywords[0].arg is None and ctx.src(rx2.keywords[0].value) in gd.params, "and is rebuilt from that dict", key_of(gd, "deserialize"), gd.loc(), f"GenericCommandParameters.deserialize returns `{ctx.src(rx2) if rx2 is not None else None}`")


@rule(P, "C17.3", "T2", "run_checks() precedes the config dump, the cluster state and every hand-off / launch", min_obligations=4)
def c17_3(ctx, r):
    cr = ctx.fn("JobSubmitter.create", "C17.3")
    chk = [n for s in ctx.sites(cr, short="JobSubmitter.run_checks") for n in ctx.nodes_of(cr, s.node)]
    if not chk:
        r.bad(key_of(cr, "no run_checks"), cr.loc(), "JobSubmitter.create no longer runs the configuration checks: invalid configurations reach the HPC", "rejected with an error before anything is handed to the HPC")
        return
    dumps = [n for s in ctx.cg.sites_in(cr) if isinstance(s.node.func, ast.Attribute) and s.node.func.attr == "dump" for n in ctx.nodes_of(cr, s.node)]
    for n in dumps:
        r.check(dominated_by(ctx, cr, n, chk, ALL_KINDS), "run_checks() dominates config.dump", key_of(cr, "dump before checks"), cr.loc(n.stmt), "config.json is written before the configuration was checked")
    rets = [n for n in ctx.cfg(cr).nodes if n.kind == "stmt" and isinstance(n.ast, ast.Return)]
    for n in rets:
        r.check(dominated_by(ctx, cr, n, chk, ALL_KINDS), "create() returns only after run_checks()", key_of(cr, "return before checks"), cr.loc(n.ast), "create() can return a submitter whose configuration was not checked")
    rsj = ctx.fn("JobSubmitter.run_submit_jobs", "C17.3")
    crn = [n for s in ctx.some_sites(rsj, "C17.3", short="JobSubmitter.create") for n in ctx.nodes_of(rsj, s.node)]
    later = [n for s in ctx.cg.sites_in(rsj) if (ctx.site_may(s) & {"HANDOFF", "LAUNCH", "STATE_WRITE"}) and not s.calls_short(ctx.ix, "JobSubmitter.create") for n in ctx.nodes_of(rsj, s.node)]
    if not later:
        raise AnalysisError("C17.3", "run_submit_jobs reaches no hand-off / state write")
    for n in later:
        r.check(dominated_by(ctx, rsj, n, crn, ALL_KINDS), f"JobSubmitter.create (with its checks) dominates `{ctx.src(n.stmt)[:40]}`", key_of(rsj, f"before create: {ctx.src(n.stmt)[:30]}"), rsj.loc(n.stmt),
                "the cluster state is created / jobs are submitted before the configuration was checked", "before anything is handed to the HPC")
    # a failing check leaves through an exception (not swallowed in create / run_checks)
    rc = ctx.fn("JobSubmitter.run_checks", "C17.3")
    r.check(not [n for n in iter_own(rc.node) if isinstance(n, ast.Try)] and not [n for n in iter_own(cr.node) if isinstance(n, ast.Try)], "no handler swallows a failing check", key_of(rc, "swallow"), rc.loc(), "run_checks / create catch exceptions")
    # the only other constructor path (load) is for existing submissions
    init = ctx.ix.lookup_method(ctx.cls("JobSubmitter"), "__init__")
    for s in ctx.callers_of(init):
        if isinstance(s.node.func, ast.Name) and s.node.func.id == "cls":
            r.check(s.fn.short in ("JobSubmitter.create", "JobSubmitter.load"), f"JobSubmitter constructed in {s.fn.short}", key_of(s.fn, "constructs JobSubmitter"), s.loc, f"{s.fn.short} constructs a JobSubmitter without checks")


def _is_must_cmp(ctx, fn, form):
    """`a == b` where each side is getattr(<group>.submitter_params, <param>) - written in place or bound to a local in the same loop body."""
    if form.count(" == ") != 1:
        return False
    a, b = [x.strip() for x in form.split(" == ")]
    defs = {}
    for n in iter_own(fn.node):
        if isinstance(n, ast.Assign) and isinstance(n.targets[0], ast.Name) and n.targets[0].id in (a, b) and isinstance(n.value, ast.Call) and ctx.src(n.value.func) == "getattr":
            defs[n.targets[0].id] = ctx.src(n.value.args[0])

    def side(x):
        if x in defs:
            return defs[x].endswith(".submitter_params")
        m = re.fullmatch(r"getattr\((.+)\.submitter_params, \w+\)", x)
        return bool(m)

    return side(a) and side(b)


@rule(P, "C17.4", "T1+T6", "each listed invalidity has a raising check on the creation path", min_obligations=8)
def c17_4(ctx, r):
    rc = ctx.fn("JobSubmitter.run_checks", "C17.4")
    called = {ctx.ix.functions[q].short for s in ctx.cg.sites_in(rc) for q in s.callees if q in ctx.ix.functions}
    for need in (f"{JC}.check_submission_groups", f"{JC}.check_job_dependencies", f"{JC}.check_job_runtimes"):
        nodes = [n for s in ctx.sites(rc, short=need) for n in ctx.nodes_of(rc, s.node)]
        r.check(need in called and all(not guard_forms(ctx, rc, n) and not ctx.cfg(rc).in_loop(n) for n in nodes), f"run_checks calls {need.split('.')[-1]}() unconditionally", key_of(rc, f"calls {need.split('.')[-1]}"), rc.loc(),
                f"run_checks does not (unconditionally) call {need}", "rejected with an error before anything is handed to the HPC")

    def raises_under(fn, pred, what, key, clause):
        cfg = ctx.cfg(fn)
        hits = []
        for n in cfg.nodes:
            if n.kind == "stmt" and isinstance(n.ast, ast.Raise) and "InvalidConfiguration" in ctx.src(n.ast):
                forms = guard_forms(ctx, fn, n)
                if any(pred(f, p) for f, p in forms):
                    hits.append(n)
        r.check(bool(hits), what, key_of(fn, key), fn.loc(), f"{fn.short} has no `raise InvalidConfiguration` under the condition for: {what}", clause)

    cd = ctx.fn(f"{JC}.check_job_dependencies", "C17.4")
    # the raise is guarded by a non-empty (blockers - names); both sets are filled from every job, unconditionally
    import re as _re

    def all_jobs_loop(fn, lp):
        site = ctx.cg.site_of(fn, lp.iter) if isinstance(lp.iter, ast.Call) else None
        return site is not None and site.calls_short(ctx.ix, f"{JC}.iter_jobs") and not lp.iter.args and not lp.iter.keywords

    dep = None
    for n in ctx.cfg(cd).nodes:
        if n.kind == "stmt" and isinstance(n.ast, ast.Raise) and "InvalidConfiguration" in ctx.src(n.ast):
            for f, p in guard_forms(ctx, cd, n):
                m = _re.fullmatch(r"(\w+)\.difference\((\w+)\)", f.replace(" ", "")) or _re.fullmatch(r"\((\w+)-(\w+)\)", f.replace(" ", ""))
                if p and m:
                    dep = (m.group(1), m.group(2))
    r.check(dep is not None, "a blocker that names no job raises", key_of(cd, "unknown blocker check"), cd.loc(), f"{cd.short} has no `raise InvalidConfiguration` under a non-empty (blockers - names)", "a dependency on a nonexistent job")
    if dep is not None:
        bset, nset = dep
        okdom = False
        for lp in [x for x in iter_own(cd.node) if isinstance(x, ast.For) and all_jobs_loop(cd, x)]:
            v = ctx.src(lp.target)
            adds = [c for c in ast.walk(lp) if isinstance(c, ast.Call) and isinstance(c.func, ast.Attribute) and ctx.src(c.func.value) == nset and c.func.attr == "add" and c.args and ctx.src(c.args[0]) == f"{v}.name"]
            upds = [c for c in ast.walk(lp) if isinstance(c, ast.Call) and isinstance(c.func, ast.Attribute) and ctx.src(c.func.value) == bset and c.func.attr == "update" and c.args and ctx.src(c.args[0]) == f"{v}.get_blocking_jobs()"]
            if adds and upds:
                nodes = [x for c in adds + upds for x in ctx.nodes_of(cd, c)]
                okdom = all(not guard_forms(ctx, cd, x) for x in nodes)
        r.check(okdom, "all names and all blockers of all jobs are compared", key_of(cd, "domain"), cd.loc(), f"check_job_dependencies no longer fills `{nset}` with every job's name and `{bset}` with every job's blockers, unconditionally")
    aj = ctx.fn("JobContainerByName.add_job", "C17.4")
    raises_under(aj, lambda f, p: p and f.replace(" ", "") in ("job.nameinself._jobs", "job.namein<JobContainerByName._jobs>"), "a duplicate job name raises", "duplicate name check", "duplicate job names")
    base = ctx.cls(JC)
    for sub in ctx.ix.subclasses(base):
        m = sub.methods.get("add_job")
        if m is None or sub.module.name.startswith("jade.extensions.demo"):
            continue
        ok = any(isinstance(n, ast.Call) and ctx.src(n.func) == "self._jobs.add_job" for n in iter_own(m.node))
        r.check(ok, f"{sub.name}.add_job goes through the container's add_job", key_of(m, "add_job path"), m.loc(), f"{sub.name}.add_job bypasses the container's duplicate check", "duplicate job names")
    r.check(ctx.ty.attr_type(base, "_jobs") is not None and any(isinstance(n, ast.Assign) and ctx.src(n.targets[0]) == "self._jobs" and "JobContainerByName()" in ctx.src(n.value) for n in iter_own(base.methods["__init__"].node)), "the default container is JobContainerByName", key_of(base.methods["__init__"], "container"), base.methods["__init__"].loc(), "the default job container changed")
    cg = ctx.fn(f"{JC}.check_submission_groups", "C17.4")
    raises_under(cg, lambda f, p: p and f.replace(" ", "") in ("<JobParametersInterface.submission_group>isNone", "job.submission_groupisNone"), "a job without a group raises", "absent group check", "a job without a valid submission group")
    import re as _re2

    raises_under(cg, lambda f, p: (not p) and bool(_re2.fullmatch(r"(<JobParametersInterface\.submission_group>|\w+\.submission_group) in \w+", f)), "a job naming an unknown group raises", "unknown group check", "a job without a valid submission group")
    raises_under(cg, lambda f, p: p and bool(_re2.fullmatch(r"(<SubmissionGroup\.name>|\w+\.name) in \w+", f)), "a group listed twice raises", "duplicate group check", "inconsistent group-wide settings")
    raises_under(cg, lambda f, p: (not p) and "hpc_type" in f and "==" in f, "differing hpc_type raises", "hpc_type check", "inconsistent group-wide settings")
    raises_under(cg, lambda f, p: (not p) and _is_must_cmp(ctx, cg, f), "a differing must_be_same value raises", "must_be_same check", "inconsistent group-wide settings")
    gset = None
    for n in ctx.cfg(cg).nodes:
        if n.kind == "stmt" and isinstance(n.ast, ast.Raise):
            for f, p in guard_forms(ctx, cg, n):
                m = _re.fullmatch(r"(?:<SubmissionGroup\.name>|\w+\.name) in (\w+)", f)
                if p and m:
                    gset = m.group(1)
    okadd = False
    if gset:
        for lp in [x for x in iter_own(cg.node) if isinstance(x, ast.For) and render(ctx, cg, x.iter) in ("<JobConfiguration.submission_groups>", "<JobConfiguration._submission_groups>")]:
            v = ctx.src(lp.target)
            adds = [c for c in ast.walk(lp) if isinstance(c, ast.Call) and isinstance(c.func, ast.Attribute) and ctx.src(c.func.value) == gset and c.func.attr == "add" and c.args and ctx.src(c.args[0]) == f"{v}.name"]
            nodes = [x for c in adds for x in ctx.nodes_of(cg, c)]
            if nodes and not list(iteration_paths(ctx, cg, lp, avoid=nodes)):
                okadd = True
    okjobs = any(all_jobs_loop(cg, x) and any(isinstance(y, ast.Raise) for y in ast.walk(x)) for x in iter_own(cg.node) if isinstance(x, ast.For))
    r.check(okadd and okjobs, "every group name is recorded and every job is examined", key_of(cg, "domain"), cg.loc(), "check_submission_groups no longer records all group names / visits all jobs")
    ct = ctx.fn(f"{JC}.check_job_runtimes", "C17.4")
    raises_under(ct, lambda f, p: p and bool(_re2.fullmatch(r"\w+ < \w+", f)) or (p and "estimated_run_minutes" in f and " < " in f), "an estimate above the group's walltime raises", "runtime check", "an estimated runtime above the walltime")
    okrt = False
    for n in ctx.cfg(ct).nodes:
        if n.kind == "test" and isinstance(n.ast, ast.Compare) and len(n.ast.ops) == 1 and isinstance(n.ast.ops[0], (ast.Gt, ast.Lt)):
            g = ctx.guards(ct)
            l, rt = n.ast.left, n.ast.comparators[0]
            if isinstance(n.ast.ops[0], ast.Lt):
                l, rt = rt, l
            est = g.expand(l, n) if isinstance(l, ast.Name) else l
            wt = g.expand(rt, n) if isinstance(rt, ast.Name) else rt
            lps = ctx.enclosing(ct, n.ast, (ast.For,))
            v = ctx.src(lps[0].target) if lps else None
            ok_est = ctx.src(est).replace(" ", "") == f"timedelta(minutes={v}.estimated_run_minutes)"
            ok_wt = isinstance(wt, ast.Subscript) and ctx.src(wt.slice) == f"{v}.submission_group" and isinstance(wt.value, ast.Name)
            if ok_wt:
                heads = [x for x in ctx.cfg(ct).nodes if x.kind == "for" and lps and x.ast is lps[0]]
                tbl = g.expand(wt.value, heads[0]) if heads else wt.value
                ok_wt = isinstance(tbl, ast.DictComp) and ctx.src(tbl.key).endswith(".name") and ctx.src(tbl.value).endswith(".submitter_params.get_wall_time()") and render(ctx, ct, tbl.generators[0].iter) in ("<JobConfiguration.submission_groups>", "<JobConfiguration._submission_groups>")
            okrt = okrt or (ok_est and ok_wt)
    from .c07 import walltime_parse

    walltime_parse(ctx, r, "C17.4")
    # the scans are complete: no validation loop over the jobs / groups is left early (only a raise ends it), and the
    # comparisons that raise are not weakened by further conditions on the compared values
    for vf in (cd, cg, ct):
        for lp in [n for n in iter_own(vf.node) if isinstance(n, ast.For)]:
            for end, conds, last in iteration_paths(ctx, vf, lp):
                if end == "leave":
                    cdesc = sorted(("" if p else "not ") + f for f, p in conds)
                    r.bad(key_of(vf, f"validation loop over `{ctx.src(lp.iter)[:30]}` left early under {cdesc}"), vf.loc(last.stmt if last.stmt is not None else lp),
                          f"{vf.short} stops scanning `{ctx.src(lp.iter)}` under {cdesc}: the entries behind that point are never checked, so an invalid configuration is accepted",
                          "is rejected with an error before anything is handed to the HPC")
                else:
                    r.ok(f"{vf.short}: pass over {ctx.src(lp.iter)[:30]} continues")
    for n in ctx.cfg(cg).nodes:
        if n.kind == "stmt" and isinstance(n.ast, ast.Raise):
            forms = guard_forms(ctx, cg, n)
            cmpf = [f for f, p in forms if (not p) and _is_must_cmp(ctx, cg, f)]
            if cmpf:
                ops = {x.strip() for f in cmpf for x in f.split(" == ")}
                extra = sorted(("" if p else "not ") + f for f, p in forms if any(o in f for o in ops) and f not in cmpf)
                r.check(not extra, "the must_be_same comparison raises whatever the first group's value is", key_of(cg, f"must_be_same also requires {extra}"), cg.loc(n.ast),
                        f"a differing group-wide setting is rejected only if additionally {extra}: e.g. max_nodes unset in the first group and set in a later one is accepted, and the later limit is silently ignored",
                        "inconsistent group-wide settings")
    r.check(okrt, "the estimate (minutes) is compared with the job's own group's walltime", key_of(ct, "operands"), ct.loc(), "check_job_runtimes compares different quantities")


@rule(P, "C17.5", "T9", "values read from the first group only must be identical in all groups", min_obligations=2)
def c17_5(ctx, r):
    from .c06 import c06_7

    c06_7(ctx, r)


@rule(P, "C17.6", "T1", "loading keeps stored identifiers: add_job assigns a job attribute only when it is absent", min_obligations=1)
def c17_6(ctx, r):
    base = ctx.cls(JC, "C17.6")
    n_st = 0
    for sub in ctx.ix.subclasses(base):
        m = sub.methods.get("add_job")
        if m is None or sub.module.name.startswith("jade.extensions.demo") or len(m.params) < 1:
            continue
        ctx.counters["functions"].add(m.qual)
        jp = [p for p in m.params if p != "self"][0]
        cfg = ctx.cfg(m)
        for n in cfg.nodes:
            a = n.ast
            if n.kind != "stmt" or not isinstance(a, (ast.Assign, ast.AugAssign)):
                continue
            for t in (a.targets if isinstance(a, ast.Assign) else [a.target]):
                if isinstance(t, ast.Attribute) and isinstance(t.value, ast.Name) and t.value.id == jp:
                    n_st += 1
                    forms = guard_forms(ctx, m, n)
                    ok = any(p and f.replace(" ", "").endswith(f".{t.attr}isNone") or (p and f.replace(" ", "").endswith(f"{t.attr}>isNone")) for f, p in forms)
                    r.check(ok, f"{m.short}: {jp}.{t.attr} is assigned only when it is None", key_of(m, f"assigns {jp}.{t.attr} to a job that has one"), m.loc(a),
                            f"`{ctx.src(a)}` can run for a job that already carries {t.attr} (guards: {sorted(('' if p else 'not ') + f for f, p in forms)}): a job loaded from a file is renumbered, "
                            "and an unnamed job is named after its id, so its name changes and blocked_by entries of other jobs point at nothing",
                            "loading it back yields the same jobs in the same order with the same names", guards=sorted(("" if p else "not ") + f for f, p in forms))
    if n_st == 0:
        raise AnalysisError("C17.6", "no add_job override assigns a job attribute (expected GenericCommandConfiguration.add_job -> job_id)")


@rule(P, "C17.7", "T8", "the dependency check reads the validated model's blocker set (what serialize() writes)", min_obligations=5)
def c17_7(ctx, r):
    from .c02 import c02_10

    c02_10(ctx, r)


@rule(P, "C17.8", "T16", "every loop reads its control variable (a per-group / per-job adjustment is applied to each element, not to a stale outer binding)", min_obligations=50)
def c17_8(ctx, r):
    from ..lib import unused_loop_variables

    nloops = 0
    for f in ctx.ix.functions.values():
        if f.module.name.startswith("jade.extensions.demo") or f.parent is not None:
            continue
        loops = [n for n in ast.walk(f.node) if isinstance(n, (ast.For, ast.AsyncFor))]
        nloops += len(loops)
        bad = {id(n): v for n, v in unused_loop_variables(f.node)}
        for n in loops:
            if id(n) in bad:
                v = bad[id(n)]
                r.bad(key_of(f, f"loop variable {v} unused in `for ... in {ctx.src(n.iter)[:40]}`"), f.loc(n),
                      f"the loop over `{ctx.src(n.iter)}` never reads its variable `{v}`: the body acts on an outer binding instead - the same element every time. In the CLI that adjusts each submission group's "
                      "poll_interval this leaves all but the first group unadjusted, and check_submission_groups then rejects a valid multi-group configuration ('must be the same in all groups')",
                      "every valid configuration is accepted")
            else:
                r.ok("loop reads its variable")
    if nloops < 100:
        raise AnalysisError("C17.8", f"only {nloops} for-loops found in the package")


@rule(P, "C17.9", "T1", "the estimate-required check reports only jobs of the time-batched group it was asked about", min_obligations=2)
def c17_9(ctx, r):
    """A configuration may mix a time-batched group (per_node_batch_size == 0, every job needs estimated_run_minutes) with count-batched groups
    whose jobs need no estimate.  Such a configuration is valid; it is accepted only if the check, called per time-batched group, looks at that
    group's jobs alone: the jobs collected for the error are filtered by `job.submission_group == <group parameter>` *and* the missing estimate."""
    from ..lib import collections_from

    fn = ctx.fn(f"{JC}.check_job_estimated_run_minutes", "C17.9")
    if len(fn.params) != 2:
        raise AnalysisError("C17.9", f"check_job_estimated_run_minutes parameters are {fn.params}")
    gp = fn.params[1]
    cols = collections_from(ctx, fn, lambda it: isinstance(it, ast.Call) and ctx.src(it.func).endswith("iter_jobs"))
    raises = [n for n in ctx.cfg(fn).nodes if n.kind == "stmt" and isinstance(n.ast, ast.Raise)]
    if not cols or not raises:
        raise AnalysisError("C17.9", f"{len(cols)} job collections and {len(raises)} raises in check_job_estimated_run_minutes")
    for n in raises:
        names = {f for f, p in guard_forms(ctx, fn, n) if p}
        feeding = [c for c in cols if c["into"] in names]
        if not feeding:
            raise AnalysisError("C17.9", f"the raise at {fn.loc(n.ast)} is not guarded by a collection of jobs (guards {sorted(names)})")
        for c in feeding:
            pos = {f.replace(" ", "") for f, p in c["conds"] if p}
            grp = ("_.submission_group", "<JobParametersInterface.submission_group>")
            est = ("_.estimated_run_minutes", "<JobParametersInterface.estimated_run_minutes>")
            okg = any(f"{g}=={gp}" in pos or f"{gp}=={g}" in pos for g in grp)
            oke = any(f"{e}isNone" in pos for e in est)
            extra = {f for f, p in c["conds"] if not p}
            r.check(okg and oke and not extra, "jobs reported are those of the named group that lack an estimate", key_of(fn, f"reported jobs filtered by {sorted(f for f, p in c['conds'] if p)[:3]}"), fn.loc(n.ast),
                    f"the jobs that make check_job_estimated_run_minutes raise are collected under {sorted(c['conds'])}: " + ("the group filter is gone, so a job of a *count-batched* group without an estimate makes a "
                    "valid mixed configuration fail" if not okg else "the filter is not `group matches and estimate is None`"), "every valid configuration is accepted")
    rc = ctx.fn("JobSubmitter.run_checks", "C17.9")
    n = 0
    for s in ctx.sites(rc, short=f"{JC}.check_job_estimated_run_minutes"):
        n += 1
        arg = ctx.arg_for(s, fn, gp)
        loops = [lp for lp in iter_own(rc.node) if isinstance(lp, ast.For) and any(x is s.node for x in ast.walk(lp))]
        gv = ctx.src(loops[-1].target) if loops else None
        forms = {f.replace(" ", ""): p for nd in ctx.nodes_of(rc, s.node) for f, p in guard_forms(ctx, rc, nd)}
        okc = gv is not None and arg is not None and ctx.src(arg) == f"{gv}.name" and any(f in (f"{gv}.submitter_params.per_node_batch_size==0", f"0=={gv}.submitter_params.per_node_batch_size") and p for f, p in forms.items())
        r.check(okc, "run_checks asks about the group whose batching is time-based, by its own name", key_of(rc, "estimate check argument"), rc.loc(s.node),
                f"run_checks calls check_job_estimated_run_minutes({ctx.src(arg) if arg is not None else ''}) under {sorted(forms)}: not `<group>.name` of the group whose per_node_batch_size is 0",
                "every valid configuration is accepted")
    if n != 1:
        raise AnalysisError("C17.9", f"{n} calls of check_job_estimated_run_minutes in run_checks")


@rule(P, "C17.10", "T4", "`jade submit-jobs` lets the rejection out: no handler around run_submit_jobs() swallows InvalidConfiguration", min_obligations=1)
def c17_10(ctx, r):
    """`rejected with an error`: the checks raise InvalidConfiguration inside JobSubmitter.run_submit_jobs().  The CLI wraps that call in
    try/except to log the traceback; the handler must re-raise (or exit non-zero).  If it only logs, an invalid configuration is reported in the
    log file and `jade submit-jobs` exits 0 - scripts and pipelines built on the exit status go on as if the submission existed."""
    from ..lib import swallowing_handlers

    fn = ctx.fn("submit_jobs.submit_jobs", "C17.10")
    for s in ctx.some_sites(fn, "C17.10", short="JobSubmitter.run_submit_jobs"):
        hs = swallowing_handlers(ctx, fn, s.node)
        what = ", ".join(sorted({ctx.src(h.type) if h.type is not None else "everything" for h in hs}))
        r.check(not hs, "a failure of run_submit_jobs() leaves the command as a failure", key_of(fn, "rejection swallowed by the CLI"), s.loc,
                f"submit_jobs catches {what} around JobSubmitter.run_submit_jobs() and does not re-raise: an invalid configuration is logged and the command exits with status 0", "is rejected with an error")


@rule(P, "C17.11", "T9", "per-job files: the loader looks for exactly the name the writer used (<job name> + \".json\", the name taken whole)", min_obligations=2)
def c17_11(ctx, r):
    """The execution format stores each job in <jobs_directory>/<job.name>.json (serialize_jobs, used by serialize_for_execution) and loads it back by name
    (_get_job_by_name).  Job names may contain dots (`model.v2`, `scale_1.5`).  Appending ".json" to the whole name agrees with the writer;
    pathlib's with_suffix() / os.path.splitext() *replace* what follows the last dot - `scale_1.5` is then looked up as `scale_1.json`, which
    does not exist or, worse, is another job's file."""
    rd = ctx.fn(f"{JC}._get_job_by_name", "C17.11")
    wr = ctx.fn(f"{JC}.serialize_jobs", "C17.11")
    for fn, role in ((rd, "loader"), (wr, "writer")):
        bad = [c for c in iter_own(fn.node) if isinstance(c, ast.Call) and isinstance(c.func, ast.Attribute) and c.func.attr in ("with_suffix", "with_name", "with_stem", "splitext", "stem")]
        has = any(isinstance(c, ast.Constant) and isinstance(c.value, str) and c.value.endswith(".json") for c in ast.walk(fn.node))
        if not has:
            raise AnalysisError("C17.11", f"{fn.short} no longer mentions a .json file name")
        r.check(not bad, f"the {role} appends .json to the whole job name", key_of(fn, "per-job file name derived by suffix replacement"), fn.loc(bad[0]) if bad else fn.loc(fn.node),
                f"{fn.short} builds the per-job file name with `{ctx.src(bad[0])[:70] if bad else ''}`: what follows the last dot of the job name is *replaced*, so a job called `scale_1.5` is read from (or written to) "
                "`scale_1.json` - the execution format no longer loads back the jobs that were written", "loading it back yields the same jobs ... with the same names")

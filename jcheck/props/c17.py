"""C17 - configurations round-trip losslessly; invalid ones are rejected up front."""

import ast

from .. import AnalysisError
from ..cfg import ALL_KINDS, NORMAL_KINDS, iter_own
from ..lib import attr_stores, dominated_by, guard_forms, key_of, norm, render, type_is
from ..report import describe, rule

P = "C17"

describe(
    P,
    "Decides writer/reader agreement and the placement of validation: every state-bearing constructor parameter of "
    "JobConfiguration is emitted by serialize() under its own name from the attribute that parameter is stored in, and every "
    "key serialize()/subclass _serialize() emit is accepted by the constructor (named parameter, kwargs lookup, or listed "
    "metadata); jobs are emitted and re-added in iteration order; the generic job model drops a field on output only if the "
    "field declares that default; run_checks() precedes the dump of config.json, the creation of the cluster state and every "
    "call that may hand off or launch; each listed invalidity has a raising check on that path (unknown blocker, duplicate job "
    "name, absent/unknown/duplicate group, differing hpc_type or must_be_same value, estimate above walltime)."
    " add_job assigns a job attribute (job_id) only when it is absent, so loading never renumbers; the walltime pattern is analysed as a regex syntax tree: the hours group must take every leading digit.",
    ["pydantic validates and re-creates model fields from their dict() form (extra='forbid')"],
    "lossless equality over generated values and 'every valid configuration is accepted' are value-level and not decided.",
)

JC = "JobConfiguration"
METADATA = {"configuration_module", "configuration_class", "format_version"}


@rule(P, "C17.1", "T9", "serialize() and __init__ agree on keys; each state parameter is emitted from its own attribute", min_obligations=10)
def c17_1(ctx, r):
    cls = ctx.cls(JC, "C17.1")
    init = cls.methods["__init__"]
    ser = cls.methods["serialize"]
    # dict literal + conditional subscript stores in serialize
    emitted = {}
    for n in iter_own(ser.node):
        if isinstance(n, ast.Assign) and isinstance(n.value, ast.Dict) and ctx.src(n.targets[0]) == "data":
            for k, v in zip(n.value.keys, n.value.values):
                if isinstance(k, ast.Constant):
                    emitted[k.value] = v
        if isinstance(n, ast.Assign) and isinstance(n.targets[0], ast.Subscript) and ctx.src(n.targets[0].value) == "data" and isinstance(n.targets[0].slice, ast.Constant):
            emitted[n.targets[0].slice.value] = n.value
    if len(emitted) < 8:
        raise AnalysisError("C17.1", f"only {len(emitted)} keys recognised in serialize()")
    named = set(init.params[1:])
    kw_reads = set()
    for n in iter_own(init.node):
        if isinstance(n, ast.Subscript) and ctx.src(n.value) == "kwargs" and isinstance(n.slice, ast.Constant):
            kw_reads.add(n.slice.value)
        if isinstance(n, ast.Call) and ctx.src(n.func) == "kwargs.get" and n.args and isinstance(n.args[0], ast.Constant):
            kw_reads.add(n.args[0].value)
        if isinstance(n, ast.Compare) and isinstance(n.ops[0], ast.In) and ctx.src(n.comparators[0]) == "kwargs" and isinstance(n.left, ast.Constant):
            kw_reads.add(n.left.value)
    for key in sorted(emitted):
        ok = key in named or key in kw_reads or key in METADATA
        r.check(ok, f"key '{key}' written by serialize() is read by the constructor", key_of(ser, f"emits unread key {key}"), ser.loc(emitted[key]),
                f"serialize() writes '{key}' but JobConfiguration.__init__ neither names it nor looks it up in kwargs: the value is silently dropped on load", "Writing a configuration to a file and loading it back yields the same ...")
    # state-bearing params: stored in self._<p> and emitted from it
    state_params = [p for p in init.params[1:] if p != "container"]
    for p in state_params:
        stores = [n for n in iter_own(init.node) if isinstance(n, ast.Assign) and isinstance(n.targets[0], ast.Attribute) and isinstance(n.targets[0].value, ast.Name) and n.targets[0].value.id == "self" and p in [x.id for x in ast.walk(n.value) if isinstance(x, ast.Name)]]
        if not stores:
            raise AnalysisError("C17.1", f"constructor parameter {p} is not stored")
        attr = stores[0].targets[0].attr
        if p not in emitted:
            r.bad(key_of(ser, f"parameter {p} not emitted"), ser.loc(), f"constructor parameter `{p}` (stored in self.{attr}) is not written by serialize(): it is lost in config.json and in every batch config", "the same ... lifecycle commands / groups")
            continue
        v = emitted[p]
        reads = {x.attr for x in ast.walk(v) if isinstance(x, ast.Attribute) and isinstance(x.value, ast.Name) and x.value.id == "self"}
        via_prop = {a for a in reads if a in cls.methods and cls.methods[a].kind == "property"}
        backing = set()
        for a in via_prop:
            from ..lib import _single_return

            rx = _single_return(cls.methods[a])
            if rx is not None and isinstance(rx, ast.Attribute):
                backing.add(rx.attr)
        r.check(attr in reads or attr in backing, f"'{p}' is emitted from self.{attr}", key_of(ser, f"{p} emitted from {sorted(reads)}"), ser.loc(v),
                f"serialize() writes '{p}' from `{ctx.src(v)}`, not from self.{attr} where the constructor stored it: a different value is written back",
                "loading it back yields the same ... lifecycle commands", value=ctx.src(v))
    # jobs: emitted in iteration order, re-added in order
    jv = emitted.get("jobs")
    r.check(jv is not None and ctx.src(jv).replace(" ", "") == "[x.serialize()forxinself.iter_jobs()]", "jobs are emitted in iteration order, unfiltered", key_of(ser, "jobs emission"), ser.loc(), f"jobs = {ctx.src(jv) if jv is not None else None}", "the same jobs in the same order")
    dj = cls.methods["_deserialize_jobs"]
    loops = [n for n in iter_own(dj.node) if isinstance(n, ast.For)]
    okd = len(loops) == 1 and ctx.src(loops[0].iter) == "jobs" and not any(isinstance(x, (ast.If, ast.Continue, ast.Break, ast.Try)) for x in ast.walk(loops[0])) and "self.add_job(job)" in ctx.src(loops[0])
    r.check(okd, "jobs are re-added in file order, unconditionally", key_of(dj, "jobs load"), dj.loc(), "_deserialize_jobs skips or reorders jobs", "the same jobs in the same order")
    okc = any(isinstance(n, ast.If) and ctx.src(n.test).replace("'", '"') == '"jobs" in kwargs' and "self._deserialize_jobs(kwargs" in ctx.src(n) for n in iter_own(init.node))
    r.check(okc, "the constructor loads kwargs['jobs']", key_of(init, "jobs key"), init.loc(), "the constructor no longer deserialises kwargs['jobs']")
    # container keeps insertion order and serialises every job
    cn = ctx.cls("JobContainerByName", "C17.1")
    it = cn.methods["__iter__"]
    r.check("self._jobs.values()" in ctx.src(it.node), "the container iterates in insertion order (dict)", key_of(it, "order"), it.loc(), "JobContainerByName.__iter__ no longer iterates the dict's values")
    # subclasses' _serialize add only keys the constructor accepts
    for sub in ctx.ix.subclasses(cls, strict=True):
        m = sub.methods.get("_serialize")
        if m is None or sub.module.name.startswith("jade.extensions.demo"):
            continue
        for n in iter_own(m.node):
            if isinstance(n, ast.Assign) and isinstance(n.targets[0], ast.Subscript) and isinstance(n.targets[0].slice, ast.Constant):
                k = n.targets[0].slice.value
                sinit = sub.methods.get("__init__")
                acc = set(sinit.params[1:]) if sinit else set()
                r.check(k in named or k in kw_reads or k in acc or k in METADATA, f"{sub.name}: extra key '{k}' is accepted on load", key_of(m, f"extra key {k}"), m.loc(n), f"{sub.name}._serialize writes '{k}', which no constructor reads")
    # deserialize: cls(**data)
    de = cls.methods["deserialize"]
    r.check("return cls(**data)" in ctx.src(de.node), "deserialize passes every key to the constructor", key_of(de, "cls(**data)"), de.loc(), "deserialize no longer calls cls(**data)")
    dump = cls.methods["_dump"]
    r.check("data = self.serialize()" in ctx.src(dump.node) and "json.dump(data, stream" in ctx.src(dump.node), "dump writes serialize() as JSON", key_of(dump, "dump"), dump.loc(), "_dump no longer writes serialize() with json.dump")
    sg = emitted.get("submission_groups")
    r.check(sg is not None and ctx.src(sg).replace(" ", "") == "[x.dict()forxinself.submission_groups]", "groups are emitted in order as dicts", key_of(ser, "groups emission"), ser.loc(), f"submission_groups = {ctx.src(sg) if sg is not None else None}")
    okg = any(isinstance(n, ast.Assign) and ctx.src(n.targets[0]) == "self._submission_groups" and ctx.src(n.value).replace(" ", "") == "[SubmissionGroup(**x)forxinsubmission_groupsor[]]" for n in iter_own(init.node))
    r.check(okg, "groups are rebuilt in order from those dicts", key_of(init, "groups load"), init.loc(), "submission_groups are no longer rebuilt as [SubmissionGroup(**x) ...]")


@rule(P, "C17.2", "T9", "the generic job model drops a field on output only if the field declares that default", min_obligations=5)
def c17_2(ctx, r):
    mdl = ctx.cls("GenericCommandParametersModel", "C17.2")
    d = mdl.methods.get("dict")
    if d is None:
        raise AnalysisError("C17.2", "GenericCommandParametersModel.dict not found")
    loops = [n for n in iter_own(d.node) if isinstance(n, ast.For) and isinstance(n.iter, (ast.Tuple, ast.List))]
    if len(loops) != 1:
        raise AnalysisError("C17.2", "expected one loop over a literal tuple of droppable fields")
    lp = loops[0]
    fields = [e.value for e in lp.iter.elts if isinstance(e, ast.Constant)]
    for f in fields:
        has_default = False
        v = mdl.ann_values.get(f)
        if isinstance(v, ast.Call) and ctx.src(v.func) == "Field":
            has_default = any(k.arg in ("default", "default_factory") for k in v.keywords)
        r.check(f in mdl.ann_fields and has_default, f"droppable field '{f}' declares a default", key_of(d, f"drops {f}"), d.loc(lp),
                f"dict() may drop '{f}', which {'is not a field' if f not in mdl.ann_fields else 'declares no default'}: loading the file back fails or yields another value", "yields the same ... flags")
    tests = [n for n in ast.walk(lp) if isinstance(n, ast.If)]
    okt = len(tests) == 1 and ctx.src(tests[0].test).replace(" ", "") == f"data[{ctx.src(lp.target)}]==GenericCommandParametersModel.__fields__[{ctx.src(lp.target)}].default"
    r.check(okt, "a field is dropped only when its value equals the declared default", key_of(d, "drop condition"), d.loc(lp), f"drop condition is `{ctx.src(tests[0].test) if tests else None}`", "yields the same ... flags")
    pops = [n for n in iter_own(d.node) if isinstance(n, ast.Call) and ctx.src(n.func) == "data.pop"]
    r.check(all(any(l is lp for l in ctx.enclosing(d, n, (ast.For,))) for n in pops) and len(pops) == 1, "nothing else is removed from the dict", key_of(d, "pops"), d.loc(), f"{len(pops)} pops")
    spc = ctx.cls("SubmitterParams")
    sp = spc.methods.get("dict")
    if sp is not None:
        def default_of(fld):
            v = spc.ann_values.get(fld)
            if isinstance(v, ast.Call):
                for k in v.keywords:
                    if k.arg == "default":
                        return ctx.src(k.value)
            return "<required>"

        pops = [x for x in iter_own(sp.node) if isinstance(x, ast.Call) and ctx.src(x.func) in ("data.pop", "data.__delitem__")]
        comps = [x for x in iter_own(sp.node) if isinstance(x, ast.DictComp)]
        dels = [x for x in iter_own(sp.node) if isinstance(x, ast.Delete)]
        recognised = False
        for n in pops:
            recognised = True
            fld = n.args[0].value if isinstance(n.args[0], ast.Constant) else None
            forms = [f for cn in ctx.nodes_of(sp, n) for f, p in guard_forms(ctx, sp, cn) if p]
            okn = any(f.replace("'", '"') == f'data["{fld}"] is None' for f in forms)
            r.check(okn and default_of(fld) == "None", f"SubmitterParams drops '{fld}' only when None (its default)", key_of(sp, f"drops {fld}"), sp.loc(n), f"SubmitterParams.dict() drops '{fld}' under {forms} (default {default_of(fld)})")
        for c in comps:
            recognised = True
            g = c.generators[0]
            conds = [ctx.src(i).replace(" ", "") for i in g.ifs]
            if "data.items()" in ctx.src(g.iter) and conds in (["visnotNone"], ["notvisNone"]):
                # every field that may hold None is dropped when None: each must default to None
                for fld, ann in sorted(spc.ann_fields.items()):
                    if "Optional" in ctx.src(ann):
                        r.check(default_of(fld) == "None", f"dropping None-valued '{fld}' is lossless (default None)", key_of(sp, f"drops None-valued {fld}"), sp.loc(c),
                                f"SubmitterParams.dict() drops every None-valued key, but `{fld}` is Optional with default {default_of(fld)}: a group with {fld}=None is written without the key and reloads as {default_of(fld)}",
                                "loading it back yields the same ... groups")
            else:
                raise AnalysisError("C17.2", f"SubmitterParams.dict filters with an unrecognised comprehension: {ctx.src(c)[:80]}")
        if dels:
            raise AnalysisError("C17.2", "SubmitterParams.dict uses del (unrecognised idiom)")
        if not recognised:
            rets = [x for x in iter_own(sp.node) if isinstance(x, ast.Return)]
            r.check(all(ctx.src(x.value) in ("data", "super().dict(*args, **kwargs)") for x in rets), "SubmitterParams.dict drops nothing", key_of(sp, "dict shape"), sp.loc(), "SubmitterParams.dict has an unrecognised shape")
    gp = ctx.fn("GenericCommandParameters.serialize", "C17.2")
    r.check("return self._model.dict()" in ctx.src(gp.node), "a job serialises as its model's dict()", key_of(gp, "serialize"), gp.loc(), "GenericCommandParameters.serialize changed")
    gd = ctx.fn("GenericCommandParameters.deserialize", "C17.2")
    r.check("return cls(**data)" in ctx.src(gd.node), "and is rebuilt from that dict", key_of(gd, "deserialize"), gd.loc(), "GenericCommandParameters.deserialize changed")


@rule(P, "C17.3", "T2", "run_checks() precedes the config dump, the cluster state and every hand-off / launch", min_obligations=4)
def c17_3(ctx, r):
    cr = ctx.fn("JobSubmitter.create", "C17.3")
    chk = [n for s in ctx.sites(cr, short="JobSubmitter.run_checks") for n in ctx.nodes_of(cr, s.node)]
    if not chk:
        r.bad(key_of(cr, "no run_checks"), cr.loc(), "JobSubmitter.create no longer runs the configuration checks: invalid configurations reach the HPC", "rejected with an error before anything is handed to the HPC")
        return
    dumps = [n for s in ctx.cg.sites_in(cr) if isinstance(s.node.func, ast.Attribute) and s.node.func.attr == "dump" for n in ctx.nodes_of(cr, s.node)]
    for n in dumps:
        r.check(dominated_by(ctx, cr, n, chk, ALL_KINDS), "run_checks() dominates config.dump", key_of(cr, "dump before checks"), cr.loc(n.stmt), "config.json is written before the configuration was checked")
    rets = [n for n in ctx.cfg(cr).nodes if n.kind == "stmt" and isinstance(n.ast, ast.Return)]
    for n in rets:
        r.check(dominated_by(ctx, cr, n, chk, ALL_KINDS), "create() returns only after run_checks()", key_of(cr, "return before checks"), cr.loc(n.ast), "create() can return a submitter whose configuration was not checked")
    rsj = ctx.fn("JobSubmitter.run_submit_jobs", "C17.3")
    crn = [n for s in ctx.some_sites(rsj, "C17.3", short="JobSubmitter.create") for n in ctx.nodes_of(rsj, s.node)]
    later = [n for s in ctx.cg.sites_in(rsj) if (ctx.site_may(s) & {"HANDOFF", "LAUNCH", "STATE_WRITE"}) and not s.calls_short(ctx.ix, "JobSubmitter.create") for n in ctx.nodes_of(rsj, s.node)]
    if not later:
        raise AnalysisError("C17.3", "run_submit_jobs reaches no hand-off / state write")
    for n in later:
        r.check(dominated_by(ctx, rsj, n, crn, ALL_KINDS), f"JobSubmitter.create (with its checks) dominates `{ctx.src(n.stmt)[:40]}`", key_of(rsj, f"before create: {ctx.src(n.stmt)[:30]}"), rsj.loc(n.stmt),
                "the cluster state is created / jobs are submitted before the configuration was checked", "before anything is handed to the HPC")
    # a failing check leaves through an exception (not swallowed in create / run_checks)
    rc = ctx.fn("JobSubmitter.run_checks", "C17.3")
    r.check(not [n for n in iter_own(rc.node) if isinstance(n, ast.Try)] and not [n for n in iter_own(cr.node) if isinstance(n, ast.Try)], "no handler swallows a failing check", key_of(rc, "swallow"), rc.loc(), "run_checks / create catch exceptions")
    # the only other constructor path (load) is for existing submissions
    init = ctx.ix.lookup_method(ctx.cls("JobSubmitter"), "__init__")
    for s in ctx.callers_of(init):
        if isinstance(s.node.func, ast.Name) and s.node.func.id == "cls":
            r.check(s.fn.short in ("JobSubmitter.create", "JobSubmitter.load"), f"JobSubmitter constructed in {s.fn.short}", key_of(s.fn, "constructs JobSubmitter"), s.loc, f"{s.fn.short} constructs a JobSubmitter without checks")


@rule(P, "C17.4", "T1+T6", "each listed invalidity has a raising check on the creation path", min_obligations=8)
def c17_4(ctx, r):
    rc = ctx.fn("JobSubmitter.run_checks", "C17.4")
    called = {ctx.ix.functions[q].short for s in ctx.cg.sites_in(rc) for q in s.callees if q in ctx.ix.functions}
    for need in (f"{JC}.check_submission_groups", f"{JC}.check_job_dependencies", f"{JC}.check_job_runtimes"):
        nodes = [n for s in ctx.sites(rc, short=need) for n in ctx.nodes_of(rc, s.node)]
        r.check(need in called and all(not guard_forms(ctx, rc, n) and not ctx.cfg(rc).in_loop(n) for n in nodes), f"run_checks calls {need.split('.')[-1]}() unconditionally", key_of(rc, f"calls {need.split('.')[-1]}"), rc.loc(),
                f"run_checks does not (unconditionally) call {need}", "rejected with an error before anything is handed to the HPC")

    def raises_under(fn, pred, what, key, clause):
        cfg = ctx.cfg(fn)
        hits = []
        for n in cfg.nodes:
            if n.kind == "stmt" and isinstance(n.ast, ast.Raise) and "InvalidConfiguration" in ctx.src(n.ast):
                forms = guard_forms(ctx, fn, n)
                if any(pred(f, p) for f, p in forms):
                    hits.append(n)
        r.check(bool(hits), what, key_of(fn, key), fn.loc(), f"{fn.short} has no `raise InvalidConfiguration` under the condition for: {what}", clause)

    cd = ctx.fn(f"{JC}.check_job_dependencies", "C17.4")
    raises_under(cd, lambda f, p: p and ("difference(job_names)" in f.replace(" ", "") or f == "missing_jobs"), "a blocker that names no job raises", "unknown blocker check", "a dependency on a nonexistent job")
    src = ctx.src(cd.node).replace(" ", "")
    r.check("job_names.add(job.name)" in src and "blocking_jobs.update(job.get_blocking_jobs())" in src and "forjobinself.iter_jobs()" in src, "all names and all blockers of all jobs are compared", key_of(cd, "domain"), cd.loc(), "check_job_dependencies no longer collects every job's name and blockers")
    aj = ctx.fn("JobContainerByName.add_job", "C17.4")
    raises_under(aj, lambda f, p: p and f.replace(" ", "") in ("job.nameinself._jobs", "job.namein<JobContainerByName._jobs>"), "a duplicate job name raises", "duplicate name check", "duplicate job names")
    base = ctx.cls(JC)
    for sub in ctx.ix.subclasses(base):
        m = sub.methods.get("add_job")
        if m is None or sub.module.name.startswith("jade.extensions.demo"):
            continue
        ok = any(isinstance(n, ast.Call) and ctx.src(n.func) == "self._jobs.add_job" for n in iter_own(m.node))
        r.check(ok, f"{sub.name}.add_job goes through the container's add_job", key_of(m, "add_job path"), m.loc(), f"{sub.name}.add_job bypasses the container's duplicate check", "duplicate job names")
    r.check(ctx.ty.attr_type(base, "_jobs") is not None and any(isinstance(n, ast.Assign) and ctx.src(n.targets[0]) == "self._jobs" and "JobContainerByName()" in ctx.src(n.value) for n in iter_own(base.methods["__init__"].node)), "the default container is JobContainerByName", key_of(base.methods["__init__"], "container"), base.methods["__init__"].loc(), "the default job container changed")
    cg = ctx.fn(f"{JC}.check_submission_groups", "C17.4")
    raises_under(cg, lambda f, p: p and f.replace(" ", "") in ("<JobParametersInterface.submission_group>isNone", "job.submission_groupisNone"), "a job without a group raises", "absent group check", "a job without a valid submission group")
    raises_under(cg, lambda f, p: (not p) and f.replace(" ", "").endswith("ingroup_names") and "job" in f.lower() or ((not p) and "submission_group" in f and "group_names" in f), "a job naming an unknown group raises", "unknown group check", "a job without a valid submission group")
    raises_under(cg, lambda f, p: p and f.replace(" ", "") in ("<SubmissionGroup.name>ingroup_names", "group.nameingroup_names"), "a group listed twice raises", "duplicate group check", "inconsistent group-wide settings")
    raises_under(cg, lambda f, p: (not p) and "hpc_type" in f and "==" in f, "differing hpc_type raises", "hpc_type check", "inconsistent group-wide settings")
    raises_under(cg, lambda f, p: (not p) and f.replace(" ", "") == "this_val==first_val", "a differing must_be_same value raises", "must_be_same check", "inconsistent group-wide settings")
    okadd = "group_names.add(group.name)" in ctx.src(cg.node) and "for job in self.iter_jobs()" in ctx.src(cg.node)
    r.check(okadd, "every group name is recorded and every job is examined", key_of(cg, "domain"), cg.loc(), "check_submission_groups no longer records all group names / visits all jobs")
    ct = ctx.fn(f"{JC}.check_job_runtimes", "C17.4")
    raises_under(ct, lambda f, p: p and f.replace(" ", "") == "wall_time<estimate", "an estimate above the group's walltime raises", "runtime check", "an estimated runtime above the walltime")
    okrt = "wall_times[job.submission_group]" in ctx.src(ct.node) and "timedelta(minutes=job.estimated_run_minutes)" in ctx.src(ct.node) and "x.submitter_params.get_wall_time()" in ctx.src(ct.node)
    from .c07 import walltime_parse

    walltime_parse(ctx, r, "C17.4")
    r.check(okrt, "the estimate (minutes) is compared with the job's own group's walltime", key_of(ct, "operands"), ct.loc(), "check_job_runtimes compares different quantities")


@rule(P, "C17.5", "T9", "values read from the first group only must be identical in all groups", min_obligations=2)
def c17_5(ctx, r):
    from .c06 import c06_7

    c06_7(ctx, r)


@rule(P, "C17.6", "T1", "loading keeps stored identifiers: add_job assigns a job attribute only when it is absent", min_obligations=1)
def c17_6(ctx, r):
    base = ctx.cls(JC, "C17.6")
    n_st = 0
    for sub in ctx.ix.subclasses(base):
        m = sub.methods.get("add_job")
        if m is None or sub.module.name.startswith("jade.extensions.demo") or len(m.params) < 1:
            continue
        ctx.counters["functions"].add(m.qual)
        jp = [p for p in m.params if p != "self"][0]
        cfg = ctx.cfg(m)
        for n in cfg.nodes:
            a = n.ast
            if n.kind != "stmt" or not isinstance(a, (ast.Assign, ast.AugAssign)):
                continue
            for t in (a.targets if isinstance(a, ast.Assign) else [a.target]):
                if isinstance(t, ast.Attribute) and isinstance(t.value, ast.Name) and t.value.id == jp:
                    n_st += 1
                    forms = guard_forms(ctx, m, n)
                    ok = any(p and f.replace(" ", "").endswith(f".{t.attr}isNone") or (p and f.replace(" ", "").endswith(f"{t.attr}>isNone")) for f, p in forms)
                    r.check(ok, f"{m.short}: {jp}.{t.attr} is assigned only when it is None", key_of(m, f"assigns {jp}.{t.attr} to a job that has one"), m.loc(a),
                            f"`{ctx.src(a)}` can run for a job that already carries {t.attr} (guards: {sorted(('' if p else 'not ') + f for f, p in forms)}): a job loaded from a file is renumbered, "
                            "and an unnamed job is named after its id, so its name changes and blocked_by entries of other jobs point at nothing",
                            "loading it back yields the same jobs in the same order with the same names", guards=sorted(("" if p else "not ") + f for f, p in forms))
    if n_st == 0:
        raise AnalysisError("C17.6", "no add_job override assigns a job attribute (expected GenericCommandConfiguration.add_job -> job_id)")

"""Anchors and site finders shared by several property modules."""

import ast

from .. import AnalysisError
from ..cfg import ALL_KINDS, NORMAL_KINDS, iter_own
from ..lib import guard_forms, key_of, norm, render, root_name

RUN_CMD = ("run_command.run_command", "run_command.check_run_command")
HOOK_FIELDS = ("setup_command", "teardown_command", "node_setup_command", "node_teardown_command")
DEPRECATED_HOOKS = {"node_setup_command": "node_setup_script", "node_teardown_command": "node_shutdown_script"}


def run_command_sites(ctx, fn):
    return ctx.sites(fn, short=list(RUN_CMD))


def command_arg(ctx, site):
    """The expression passed as the command (first positional / cmd=)."""
    for k in site.node.keywords:
        if k.arg == "cmd":
            return k.value
    return site.node.args[0] if site.node.args else None


def expand_cmd(ctx, fn, site):
    arg = command_arg(ctx, site)
    if arg is None:
        return None, None
    nodes = ctx.cfg(fn).nodes_of(site.node)
    node = nodes[0] if nodes else None
    e = ctx.guards(fn).expand(arg, node) if node is not None else arg
    return e, node


def hook_sites(ctx, fn, field):
    """run_command/check_run_command sites that are the hook for JobConfiguration.<field>:
    the command argument reads the field, or the call is guarded by `<field> is not None`."""
    out = []
    want = f"<JobConfiguration.{field}>"
    for s in run_command_sites(ctx, fn):
        e, node = expand_cmd(ctx, fn, s)
        reads = e is not None and want in render(ctx, fn, e)
        guarded = False
        for n in ctx.cfg(fn).nodes_of(s.node):
            for form, pol in guard_forms(ctx, fn, n):
                if form == f"{want} is None" and pol is False:
                    guarded = True
        if reads or guarded:
            out.append((s, reads, guarded))
    return out


def str_literal_prefix(e):
    """Leading literal text of a str / f-string / concatenation, else None."""
    if isinstance(e, ast.Constant) and isinstance(e.value, str):
        return e.value
    if isinstance(e, ast.JoinedStr):
        out = ""
        for v in e.values:
            if isinstance(v, ast.Constant) and isinstance(v.value, str):
                out += v.value
            else:
                break
        return out
    if isinstance(e, ast.BinOp) and isinstance(e.op, ast.Add):
        return str_literal_prefix(e.left)
    if isinstance(e, ast.Call) and isinstance(e.func, ast.Attribute) and e.func.attr == "format":
        return str_literal_prefix(e.func.value)
    return None


def spawn_sites(ctx, fn, prefix):
    """run_command sites whose command text starts with `prefix` (e.g. 'jade try-submit-jobs')."""
    out = []
    for s in run_command_sites(ctx, fn):
        e, node = expand_cmd(ctx, fn, s)
        p = str_literal_prefix(e) if e is not None else None
        if p is None and isinstance(e, ast.Name) and node is not None:
            # cmd built as `x = f"..."; if v: x += " --verbose"`: take any reaching plain definition
            rd = ctx.rd(fn)
            for d in rd.reaching(node, e.id):
                val = rd.defs_at[d].get(e.id)
                if isinstance(val, ast.AST):
                    p = str_literal_prefix(val)
                    if p is not None:
                        break
        if p is not None and p.startswith(prefix):
            out.append(s)
    return out


PROMOTE_SITES = (
    "try_submit_jobs.try_submit_jobs",
    "resubmit_jobs.resubmit_jobs",
    "cancel_jobs.cancel_jobs",
    "JobRunner._complete_hpc_job",
)
MUTATORS = (
    "JobSubmitter.submit_jobs",
    "JobSubmitter.cancel_jobs",
    "Cluster.complete_hpc_job_id",
    "Cluster.prepare_for_resubmission",
    "Cluster.update_job_status",
    "Cluster.mark_complete",
    "Cluster.mark_canceled",
)

"""Anchors and site finders shared by several property modules."""

import ast

from .. import AnalysisError
from ..cfg import ALL_KINDS, NORMAL_KINDS, iter_own
from ..lib import guard_forms, inline_locals, key_of, norm, render, root_name

RUN_CMD = ("run_command.run_command", "run_command.check_run_command")
HOOK_FIELDS = ("setup_command", "teardown_command", "node_setup_command", "node_teardown_command")
DEPRECATED_HOOKS = {"node_setup_command": "node_setup_script", "node_teardown_command": "node_shutdown_script"}


def run_command_sites(ctx, fn):
    return ctx.sites(fn, short=list(RUN_CMD))


def command_arg(ctx, site):
    """The expression passed as the command (first positional / cmd=)."""
    for k in site.node.keywords:
        if k.arg == "cmd":
            return k.value
    return site.node.args[0] if site.node.args else None


def expand_cmd(ctx, fn, site):
    arg = command_arg(ctx, site)
    if arg is None:
        return None, None
    nodes = ctx.cfg(fn).nodes_of(site.node)
    node = nodes[0] if nodes else None
    e = ctx.guards(fn).expand(arg, node) if node is not None else arg
    return e, node


def expand_cmd_deep(ctx, fn, site):
    """expand_cmd with the locals inside the command text inlined too (`script = group...; cmd = f"{script} ..."`)."""
    e, node = expand_cmd(ctx, fn, site)
    if node is not None and isinstance(e, (ast.JoinedStr, ast.BinOp, ast.Call)):
        e = inline_locals(ctx, fn, e, node)
    return e, node


def hook_sites(ctx, fn, field):
    """run_command/check_run_command sites that are the hook for JobConfiguration.<field>:
    the command argument reads the field, or the call is guarded by `<field> is not None`."""
    out = []
    want = f"<JobConfiguration.{field}>"
    for s in run_command_sites(ctx, fn):
        e, node = expand_cmd_deep(ctx, fn, s)
        reads = e is not None and want in render(ctx, fn, e)
        guarded = False
        for n in ctx.cfg(fn).nodes_of(s.node):
            for form, pol in guard_forms(ctx, fn, n):
                if form == f"{want} is None" and pol is False:
                    guarded = True
        if reads or guarded:
            out.append((s, reads, guarded))
    return out


def str_literal_prefix(e):
    """Leading literal text of a str / f-string / concatenation, else None."""
    if isinstance(e, ast.Constant) and isinstance(e.value, str):
        return e.value
    if isinstance(e, ast.JoinedStr):
        out = ""
        for v in e.values:
            if isinstance(v, ast.Constant) and isinstance(v.value, str):
                out += v.value
            else:
                break
        return out
    if isinstance(e, ast.BinOp) and isinstance(e.op, ast.Add):
        return str_literal_prefix(e.left)
    if isinstance(e, ast.Call) and isinstance(e.func, ast.Attribute) and e.func.attr == "format":
        return str_literal_prefix(e.func.value)
    return None


def spawn_sites(ctx, fn, prefix):
    """run_command sites whose command text starts with `prefix` (e.g. 'jade try-submit-jobs')."""
    out = []
    for s in run_command_sites(ctx, fn):
        e, node = expand_cmd(ctx, fn, s)
        p = str_literal_prefix(e) if e is not None else None
        if p is None and isinstance(e, ast.Name) and node is not None:
            # cmd built as `x = f"..."; if v: x += " --verbose"`: take any reaching plain definition
            rd = ctx.rd(fn)
            for d in rd.reaching(node, e.id):
                val = rd.defs_at[d].get(e.id)
                if isinstance(val, ast.AST):
                    p = str_literal_prefix(val)
                    if p is not None:
                        break
        if p is not None and p.startswith(prefix):
            out.append(s)
    return out


PROMOTE_SITES = (
    "try_submit_jobs.try_submit_jobs",
    "resubmit_jobs.resubmit_jobs",
    "cancel_jobs.cancel_jobs",
    "JobRunner._complete_hpc_job",
)
MUTATORS = (
    "JobSubmitter.submit_jobs",
    "JobSubmitter.cancel_jobs",
    "Cluster.complete_hpc_job_id",
    "Cluster.prepare_for_resubmission",
    "Cluster.update_job_status",
    "Cluster.mark_complete",
    "Cluster.mark_canceled",
)


# --------------------------------------------------------------------------
# Submitter-role typestate (T5) shared by C01.1 / C05.6 / C10.4 / C13.2 / C14.4
# --------------------------------------------------------------------------
ROLE_SITES = PROMOTE_SITES + ("JobSubmitter.run_submit_jobs",)


class RoleReport:
    def __init__(self):
        self.demote_ok = []  # (fn, node, state set)
        self.demote_bad = []  # (fn, node, state, why)
        self.mutator_ok = []
        self.mutator_bad = []
        self.leaks = []  # (fn, node, mode)  role still held at a normal exit
        self.exits_ok = []
        self.handles = 0
        self.dirty_exc = []  # (fn, raising cfg node): exception escapes with role held after a destructive effect
        self.dirty_sites = []


def _deserialize_promote_call(ctx, fn, call):
    site = ctx.cg.site_of(fn, call)
    if site is None or not site.calls_short(ctx.ix, "Cluster.deserialize"):
        return False
    callee = ctx.ix.find_func("Cluster.deserialize")
    arg = ctx.arg_for(site, callee, "try_promote_to_submitter")
    return isinstance(arg, ast.Constant) and arg.value is True


def role_typestate(ctx, fn, dirty_pred=None):
    """Walk every path of fn with the automaton
         U (handle loaded, promotion not yet examined) -> P (promoted, role held) | N (not promoted)
         P -> D on demote_from_submitter()
    and report demotes / mutating calls outside P and normal exits inside P."""
    from ..lib import typestate

    cfg = ctx.cfg(fn)
    rep = RoleReport()
    cluster_vars, promoted_vars = set(), set()
    init_nodes = {}
    for n in cfg.nodes:
        if n.kind != "stmt" or not isinstance(n.ast, ast.Assign):
            continue
        v = n.ast.value
        if not isinstance(v, ast.Call):
            continue
        site = ctx.cg.site_of(fn, v)
        if site is None:
            continue
        t = n.ast.targets[0]
        if _deserialize_promote_call(ctx, fn, v):
            if not (isinstance(t, ast.Tuple) and len(t.elts) == 2 and all(isinstance(e, ast.Name) for e in t.elts)):
                raise AnalysisError("T5", f"{fn.loc(n.ast)}: result of Cluster.deserialize(try_promote_to_submitter=True) is not unpacked into (cluster, promoted)")
            cluster_vars.add(t.elts[0].id)
            promoted_vars.add(t.elts[1].id)
            init_nodes[n.id] = "U"
        elif site.calls_short(ctx.ix, "Cluster.create") and isinstance(t, ast.Name):
            cluster_vars.add(t.id)
            init_nodes[n.id] = "P"
    if not init_nodes:
        raise AnalysisError("T5", f"{fn.short}: no Cluster.deserialize(try_promote_to_submitter=True) / Cluster.create handle found")
    if len(cluster_vars) != 1:
        raise AnalysisError("T5", f"{fn.short}: several cluster handles {sorted(cluster_vars)}")
    cvar = next(iter(cluster_vars))
    rep.handles = len(init_nodes)
    demote_q = ctx.ix.find_func("Cluster.demote_from_submitter").qual
    internal_demote = ctx.ix.find_func("Cluster._demote_from_submitter")

    def classify(call):
        site = ctx.cg.site_of(fn, call)
        if site is None:
            return None
        recv = call.func.value if isinstance(call.func, ast.Attribute) else None
        on_handle = isinstance(recv, ast.Name) and recv.id == cvar
        passes = any(isinstance(a, ast.Name) and a.id == cvar for a in list(call.args) + [k.value for k in call.keywords])
        if on_handle and demote_q in site.callees:
            return "demote"
        for m in MUTATORS:
            if site.calls_short(ctx.ix, m) and (on_handle or passes):
                return "mutate"
        if passes or on_handle:
            # handle escapes into another function: must not demote there
            for q in site.targets():
                f2 = ctx.ix.functions.get(q)
                if f2 is not None and f2.short not in ("Cluster.demote_from_submitter",):
                    hits, _ = ctx.cg.reaches([q], lambda f: f is internal_demote)
                    if hits and not on_handle:
                        raise AnalysisError("T5", f"{fn.loc(call)}: cluster handle passed to {f2.short}, which may demote (unrecognised idiom)")
        return None

    def node_fn(n, st):
        role, mode = st[0], st[1]
        dirty = st[2] if len(st) > 2 else False
        r2 = _node_fn(n, (role, mode))
        if dirty_pred is not None and n.kind in ("stmt", "test", "for", "with"):
            for call in cfg.calls_at(n):
                if dirty_pred(call):
                    dirty = True
                    if (fn, call) not in rep.dirty_sites:
                        rep.dirty_sites.append((fn, call))
        return r2 + (dirty,) if len(st) > 2 else r2

    def _node_fn(n, st):
        role, mode = st
        if n.id in init_nodes:
            return (init_nodes[n.id], mode)
        if n.kind in ("stmt", "test", "for", "with"):
            for call in cfg.calls_at(n):
                kind = classify(call)
                if kind == "demote":
                    if role == "P":
                        rep.demote_ok.append((fn, call))
                    else:
                        rep.demote_bad.append((fn, call, role))
                    role = "D"
                elif kind == "mutate":
                    if role == "P":
                        rep.mutator_ok.append((fn, call))
                    else:
                        rep.mutator_bad.append((fn, call, role))
        return (role, mode)

    def edge_fn(src, dst, k, c, st):
        r2 = _edge_fn(src, dst, k, c, (st[0], st[1]))
        if r2 is None:
            return None
        if len(st) > 2:
            role2, mode2 = r2
            if k == "exc" and st[1] == "normal" and mode2 == "exc":
                mode2 = ("exc", src.id)
            elif isinstance(st[1], tuple) and mode2 == "exc":
                mode2 = st[1]
            return (role2, mode2, st[2])
        return r2

    def _edge_fn(src, dst, k, c, st):
        role, mode = st
        if isinstance(mode, tuple):
            mode = "exc"
        if k == "exc" and any(classify(call) == "demote" for call in cfg.calls_at(src)):
            role = "D"  # a failing demote is not chargeable to the caller's structure
        if k == "exc":
            from ..cfg import _is_exit_call

            is_exit = (
                src.kind == "stmt"
                and isinstance(src.ast, ast.Expr)
                and isinstance(src.ast.value, ast.Call)
                and _is_exit_call(src.ast.value)
            )
            if mode == "normal":
                mode = "sysexit" if is_exit else "exc"
        if k in ("T", "F") and c is not None and isinstance(c, ast.Name) and c.id in promoted_vars:
            if role == "U":
                role = "P" if k == "T" else "N"
            elif role == "P" and k == "F":
                return None
            elif role == "N" and k == "T":
                return None
        if src.kind == "except":
            mode = "normal"  # a handler resumes normal execution
        return (role, mode)

    init = ("X", "normal", False) if dirty_pred is not None else ("X", "normal")
    at = typestate(cfg, init, node_fn, edge_fn)
    if dirty_pred is not None:
        for st in at.get(cfg.raise_exit.id, ()):
            if isinstance(st[1], tuple) and st[0] in ("P", "U") and st[2]:
                rep.dirty_exc.append((fn, cfg.nodes[st[1][1]]))
        at = {k: {(s[0], s[1] if not isinstance(s[1], tuple) else "exc") for s in v} for k, v in at.items()}
    for role, mode in at.get(cfg.exit.id, ()):
        if role == "P":
            rep.leaks.append((fn, fn.node, "return"))
        elif role in ("U",):
            rep.leaks.append((fn, fn.node, "return-unexamined"))
        else:
            rep.exits_ok.append((role, mode))
    for role, mode in at.get(cfg.raise_exit.id, ()):
        if mode == "sysexit":
            if role in ("P", "U"):
                rep.leaks.append((fn, fn.node, "sys.exit"))
            else:
                rep.exits_ok.append((role, mode))
    # de-duplicate
    def uniq(lst):
        seen, out = set(), []
        for item in lst:
            k = (id(item[1]),) + tuple(item[2:])
            if k not in seen:
                seen.add(k)
                out.append(item)
        return out

    rep.demote_ok, rep.demote_bad = uniq(rep.demote_ok), uniq(rep.demote_bad)
    rep.mutator_ok, rep.mutator_bad = uniq(rep.mutator_ok), uniq(rep.mutator_bad)
    rep.leaks = uniq(rep.leaks)
    # a call seen in P on one path and outside P on another is bad
    bad_ids = {id(x[1]) for x in rep.demote_bad}
    rep.demote_ok = [x for x in rep.demote_ok if id(x[1]) not in bad_ids]
    bad_ids = {id(x[1]) for x in rep.mutator_bad}
    rep.mutator_ok = [x for x in rep.mutator_ok if id(x[1]) not in bad_ids]
    return rep


ROLE_NAMES = {"U": "promotion result not examined", "N": "not promoted", "D": "already demoted", "X": "no handle", "P": "promoted"}


def report_role(ctx, r, specs, what, prop_clause):
    """Emit obligations for the selected aspects: what subset of {'demote','mutate','leak'}."""
    for spec in specs:
        fn = ctx.fn(spec, "T5")
        rep = role_typestate(ctx, fn)
        if "demote" in what:
            for f, call in rep.demote_ok:
                r.ok(f"{f.short}: demote_from_submitter() only while promoted", at=f.loc(call))
            for f, call, role in rep.demote_bad:
                r.bad(
                    key_of(f, f"demote_from_submitter in state {role}"),
                    f.loc(call),
                    f"demote_from_submitter() is reachable with the handle in state '{ROLE_NAMES[role]}': the process clears (or asserts on) a role it does not hold",
                    prop_clause,
                )
        if "mutate" in what:
            for f, call in rep.mutator_ok:
                r.ok(f"{f.short}: {ctx.src(call.func)} only while promoted", at=f.loc(call))
            for f, call, role in rep.mutator_bad:
                r.bad(
                    key_of(f, f"{ctx.src(call.func)} in state {role}"),
                    f.loc(call),
                    f"mutating call {ctx.src(call.func)}() is reachable with the handle in state '{ROLE_NAMES[role]}' (two processes can then act as submitter)",
                    prop_clause,
                )
        if "leak" in what:
            for f, node, how in rep.leaks:
                r.bad(
                    key_of(f, f"role held at {how}"),
                    f.loc(node),
                    f"a normal exit ({how}) is reachable while the submitter role is still held: no later round can ever be promoted",
                    prop_clause,
                )
            if not rep.leaks:
                r.ok(f"{fn.short}: role released on every normal exit", exits=sorted({f'{a}/{b}' for a, b in rep.exits_ok}))


def completion_roles(ctx, rid):
    """Roles in JobSubmitter._handle_completion, independent of spelling: RESULT = the local it returns (the completion
    status), MISSING = the local handed to write_results_summary() as the list of missing jobs."""
    hc = ctx.fn("JobSubmitter._handle_completion", rid)
    rets = [n for n in ast.walk(hc.node) if isinstance(n, ast.Return) and isinstance(n.value, ast.Name)]
    ws = ctx.sites(hc, short="JobSubmitter.write_results_summary")
    if not rets or not ws or len(ws[0].node.args) < 2 or not isinstance(ws[0].node.args[1], ast.Name):
        raise AnalysisError(rid, "_handle_completion: returned status local / missing-jobs local not recognised")
    return hc, rets[-1].value.id, ws[0].node.args[1].id

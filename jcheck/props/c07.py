"""C07 - every batch respects its group's size/time limit and holds only its group's jobs."""

import ast
import re

from .. import AnalysisError
from ..cfg import ALL_KINDS, NORMAL_KINDS, iter_own
from ..lib import bound_from, inlined, inlined_expr, attr_stores, dominated_by, guard_forms, key_of, norm, render, type_is
from ..report import describe, rule
from .c01 import _must_pass, _try_append_test

P = "C07"

describe(
    P,
    "Decides the admission mechanisms of batch construction on all paths: a batch is submitted only if it holds at least one "
    "job; after every successful append the ready flag is raised as soon as the count reaches per-node-batch-size (`>` "
    "instead of `>=` is reported as off-by-one) and the scan tests the flag before the next append, leaving all loops when it "
    "is set; with time-based batching the append is dominated by `not (accumulated + estimate > walltime x processes)` and "
    "the accumulated time grows by the same estimate; candidates are filtered by the group's name; one submission-group "
    "object flows from candidate selection to the HPC interface that writes and submits the script; blocked jobs are admitted "
    "only through the all-blockers-aboard test (C02.3/C02.4); with dry-run the hand-off is skipped while the files are still "
    "written; the run script's command line uses only options the run-jobs command defines, each optional flag guarded by "
    "the group parameter of the same name.",
    ["click derives option names from the decorators of cli/run_jobs.py"],
    "arithmetic of the time sums as values; the 'sorted ascending' assumption of time-based batching; 'the same first-round batches' under dry-run.",
)

HS = "HpcSubmitter"


@rule(P, "C07.1", "T1", "only a non-empty batch is submitted", min_obligations=1)
def c07_1(ctx, r):
    fn = ctx.fn(f"{HS}._submit_batches", "C07.1")
    for s in ctx.some_sites(fn, "C07.1", short=f"{HS}._submit_batch"):
        for n in ctx.nodes_of(fn, s.node):
            forms = guard_forms(ctx, fn, n)
            ok = ("0 < len(<_BatchJobs._jobs>)", True) in forms or ("len(<_BatchJobs._jobs>)", True) in forms
            r.check(ok, "_submit_batch only if batch.num_jobs > 0", key_of(fn, "empty batch submitted"), s.loc,
                    "an empty batch can be handed to the HPC (a node is allocated for nothing and a batch index is consumed)", "Every batch handed to the HPC contains at least one ... job",
                    guards=sorted(("" if p else "not ") + f for f, p in forms))
            a = s.node.args
            r.check(len(a) == 3 and bound_from(ctx, fn, a[2], n, f"{HS}._make_batch", 0), "the batch submitted is the one just built", key_of(fn, "which batch"), s.loc, f"_submit_batch receives {ctx.src(a[2]) if len(a) > 2 else None}")


@rule(P, "C07.2", "T2+T13", "count limit: the ready flag is raised at per-node-batch-size and tested before the next append", min_obligations=4)
def c07_2(ctx, r):
    ta = ctx.fn("_BatchJobs.try_append", "C07.2")
    cfg = ctx.cfg(ta)
    apps = [n for n in cfg.nodes for c in cfg.calls_at(n) if ctx.src(c.func) == "self._jobs.append"]
    if len(apps) != 1:
        raise AnalysisError("C07.2", f"expected one self._jobs.append in try_append, found {len(apps)}")
    app = apps[0]
    sets = [n for n in cfg.nodes if n.kind == "stmt" and isinstance(n.ast, ast.Assign) and ctx.src(n.ast.targets[0]) == "self._is_ready_to_submit" and ctx.src(n.ast.value) == "True"]
    count_sets = []
    for n in sets:
        forms = guard_forms(ctx, ta, n)
        good = ("len(<_BatchJobs._jobs>) < <_BatchJobs._per_node_batch_size>", False) in forms
        off = ("<_BatchJobs._per_node_batch_size> < len(<_BatchJobs._jobs>)", True) in forms
        if good or off:
            count_sets.append(n)
            r.check(good, "ready flag raised when num_jobs >= per_node_batch_size", key_of(ta, "count limit comparison"), ta.loc(n.ast),
                    "the ready flag is raised only when num_jobs > per_node_batch_size: every batch holds one job more than the limit (off by one)",
                    "at most per-node-batch-size jobs", guards=sorted(("" if p else "not ") + f for f, p in forms))
            r.check(dominated_by(ctx, ta, n, [app]), "the count is tested after the append", key_of(ta, "count before append"), ta.loc(n.ast), "the count limit is tested before the job was appended (one more job fits)")
    if not count_sets:
        r.bad(key_of(ta, "no count limit"), ta.loc(), "try_append never raises the ready flag on reaching per_node_batch_size: batches grow without bound", "at most per-node-batch-size jobs")
    # on the count-based path (not time based) every successful append passes the count test
    tests = [n for n in cfg.nodes if n.kind == "test" and "_per_node_batch_size" in ctx.src(n.ast)]
    tb = [n for n in cfg.nodes if n.kind == "test" and ctx.src(n.ast) == "self._time_based_batching" and dominated_by(ctx, ta, n, [app])]
    ok = bool(tests) and all(any(d.id == t.id or _reaches(d, t) for t in tests) for n in tb for d, k, _ in n.succ if k == "F")
    r.check(ok, "without time-based batching the count test follows every append", key_of(ta, "count test skipped"), ta.loc(), "a successful append is not followed by the count test on the count-based path")
    # _make_batch: between two try_append evaluations the ready flag is tested and its true branch leaves all loops
    mb = ctx.fn(f"{HS}._make_batch", "C07.2")
    site, tn = _try_append_test(ctx, mb)
    cfgm = ctx.cfg(mb)
    rtests = [n for n in cfgm.nodes if n.kind == "test" and render(ctx, mb, n.ast) in ("<_BatchJobs.is_ready_to_submit>", "<_BatchJobs._is_ready_to_submit>")]
    if not rtests:
        r.bad(key_of(mb, "ready flag never tested"), mb.loc(), "_make_batch never tests batch.is_ready_to_submit: the scan keeps appending past the limit", "at most per-node-batch-size jobs")
        return
    for d, k, _ in tn.succ:
        if k in ("T", "F"):
            r.check(_must_pass(ctx, mb, d, rtests), f"after try_append()=={k == 'T'} the ready flag is tested before the next candidate", key_of(mb, f"ready test skipped after try_append {k}"), mb.loc(site.node),
                    "a path from try_append to the next candidate skips the is_ready_to_submit test", "at most per-node-batch-size jobs")
    for t in rtests:
        for d, k, _ in t.succ:
            if k == "T":
                # flag-aware reachability: `done = True; break; if done: break` cannot fall back into the scan
                seen = ctx._reach_avoiding(cfgm, set(), NORMAL_KINDS, start=d)
                r.check(tn.id not in seen, "a ready batch leaves all scan loops (no further append)", key_of(mb, "append after ready"), mb.loc(t.stmt),
                        "after the ready flag was seen the scan can still reach try_append: the batch exceeds its limit", "at most per-node-batch-size jobs")


def _reaches(a, b):
    seen, stack = set(), [a]
    while stack:
        x = stack.pop()
        if x is b:
            return True
        if x.id in seen:
            continue
        seen.add(x.id)
        stack.extend(d for d, k, _ in x.succ if k in NORMAL_KINDS)
    return False


@rule(P, "C07.3", "T1", "time limit: the append is dominated by `not (accumulated + estimate > walltime x processes)`", min_obligations=5)
def c07_3(ctx, r):
    ta = ctx.fn("_BatchJobs.try_append", "C07.3")
    cfg = ctx.cfg(ta)
    app = [n for n in cfg.nodes for c in cfg.calls_at(n) if ctx.src(c.func) == "self._jobs.append"][0]
    # the refusing branch: `time_based and acc + est > max` -> ready, return False. The append is reached only via not(...)
    # enumerate paths entry -> append and require, for each, (time_based False) or (limit comparison False)
    bad = False
    npaths = 0
    limit_forms = set()
    for path in cfg.paths(kinds=NORMAL_KINDS, max_visits=1, cap=200, targets={app.id}):
        npaths += 1
        conds = {norm(ctx, ta, c, n, pol=(k == "T")) for n, k, c in path if k in ("T", "F") and c is not None}
        tb_false = ("<_BatchJobs._time_based_batching>", False) in conds
        lim = [(f, p) for f, p in conds if "_max_batch_time" in f and "_estimated_batch_time" in f]
        limit_forms |= set(lim)
        ok = tb_false or any(_limit_ok(f, p) for f, p in lim)
        if not ok:
            bad = True
    ctx.counters["paths"] += npaths
    r.check(not bad and npaths > 0, "every path to the append has time-based batching off or the time limit not exceeded", key_of(ta, "append without time test"), ta.loc(app.stmt),
            "a job can be appended with time-based batching on although accumulated + estimate exceeds the batch time limit (or the comparison is inverted / non-strict in the wrong direction)",
            "jobs whose estimated minutes sum to at most walltime x processes-per-node", forms=sorted(("" if p else "not ") + f for f, p in limit_forms))
    if not limit_forms:
        r.bad(key_of(ta, "no time limit comparison"), ta.loc(), "try_append never compares the accumulated time with the batch time limit", "sum to at most walltime x processes-per-node")
    # the refusal raises the ready flag and returns False
    refusals = [n for n in cfg.nodes if n.kind == "stmt" and isinstance(n.ast, ast.Return) and ctx.src(n.ast.value) == "False"]
    for n in refusals:
        forms = guard_forms(ctx, ta, n)
        r.check(any(p and "_max_batch_time" in f for f, p in forms) and ("<_BatchJobs._time_based_batching>", True) in forms, "False is returned only when the time limit would be exceeded", key_of(ta, "refusal guard"), ta.loc(n.ast),
                f"try_append refuses under {sorted(f for f, p in forms)}")
        sets = [x for x in cfg.nodes if x.kind == "stmt" and isinstance(x.ast, ast.Assign) and ctx.src(x.ast.targets[0]) == "self._is_ready_to_submit"]
        r.check(dominated_by(ctx, ta, n, sets), "a refusal marks the batch ready (the scan stops)", key_of(ta, "refusal ready"), ta.loc(n.ast), "a refused job does not end the batch: later (shorter) jobs still fit, breaking the ascending-order assumption")
    # accumulated time grows by the same estimate, under time-based batching, after the append
    incs = [n for n in cfg.nodes if n.kind == "stmt" and isinstance(n.ast, ast.AugAssign) and ctx.src(n.ast.target) == "self._estimated_batch_time"]
    ok = len(incs) == 1 and isinstance(incs[0].ast.op, ast.Add) and ctx.src(incs[0].ast.value).replace(" ", "") == "timedelta(minutes=job.estimated_run_minutes)" and dominated_by(ctx, ta, incs[0], [app])
    r.check(ok, "accumulated += timedelta(minutes=estimate) after the append", key_of(ta, "accumulate"), ta.loc(), f"accumulated time is updated by {[ctx.src(n.ast) for n in incs]}", "sum to at most walltime x processes-per-node")
    if incs:
        forms = guard_forms(ctx, ta, incs[0])
        r.check(("<_BatchJobs._time_based_batching>", True) in forms and len([f for f, p in forms if "self." not in f]) == 1, "accumulated for every appended job under time-based batching", key_of(ta, "accumulate guard"), ta.loc(incs[0].ast), f"accumulation guarded by {sorted(f for f, p in forms)}")
    cmp_txt = [f for f, p in limit_forms]
    r.check(all("timedelta(minutes=<JobParametersInterface.estimated_run_minutes>)" in f.replace("job.estimated_run_minutes", "<JobParametersInterface.estimated_run_minutes>") for f in cmp_txt) and bool(cmp_txt), "the comparison adds the same estimate", key_of(ta, "estimate in comparison"), ta.loc(), f"limit comparison: {cmp_txt}")
    # max batch time = walltime x processes
    init = ctx.fn("_BatchJobs.__init__", "C07.3")
    st = [(n, ctx.stmt_of(init, n)) for f2, n, attr, t, kind in attr_stores(ctx, {"_max_batch_time"}) if f2 is init]
    vals = sorted(render(ctx, init, s.value) for _, s in st if isinstance(s, ast.Assign))
    r.check("(call:SubmitterParams.get_wall_time()@params * <_BatchJobs._num_processes>)" in vals, "max batch time = get_wall_time() x num_processes", key_of(init, "max batch time"), init.loc(), f"_max_batch_time is one of {vals}", "walltime x processes-per-node")
    np_ = [ctx.stmt_of(init, n) for f2, n, attr, t, kind in attr_stores(ctx, {"_num_processes"}) if f2 is init]
    r.check(len(np_) == 1 and render(ctx, init, np_[0].value) == "<SubmitterParams.num_parallel_processes_per_node>", "num_processes = the group's processes-per-node", key_of(init, "num processes"), init.loc(), "num_processes source changed")
    for f2, n, attr, t, kind in attr_stores(ctx, {"_max_batch_time", "_num_processes", "_per_node_batch_size", "_time_based_batching", "_try_add_blocked_jobs"}):
        if f2.cls is not None and f2.cls.name == "_BatchJobs":
            r.check(f2 is init, f"{attr} set only in the constructor", key_of(f2, f"writes {attr}"), f2.loc(n), f"{f2.short} changes {attr}")
    walltime_parse(ctx, r, "C07.3")
    gw = ctx.fn("SubmitterParams.get_wall_time", "C07.3")
    gwr = [x for x in ctx.cfg(gw).nodes if x.kind == "stmt" and isinstance(x.ast, ast.Return) and x.ast.value is not None]
    gwt = [inlined(ctx, gw, x.ast.value, x) for x in gwr]
    r.check(any(t.startswith("_to_timedelta(getattr(self.hpc_config.hpc,'walltime'") for t in gwt if t), "get_wall_time parses the group's walltime", key_of(gw, "walltime"), gw.loc(), "get_wall_time no longer derives from hpc.walltime")



def walltime_parse(ctx, r, rid):
    """_to_timedelta: the regular expression captures the whole hours / minutes / seconds fields of every H:M:S string
    (decided on the regex syntax tree) and the three groups feed timedelta(hours, minutes, seconds) in that order."""
    import re._parser as sre
    from re._constants import AT, CATEGORY, CATEGORY_DIGIT, IN, LITERAL, MAX_REPEAT, MAXREPEAT, SUBPATTERN

    td = ctx.fn("submitter_params._to_timedelta", rid)
    cfg = ctx.cfg(td)
    srch = [c for n in cfg.nodes for c in cfg.calls_at(n) if isinstance(c.func, ast.Attribute) and c.func.attr in ("search", "match", "fullmatch") and isinstance(c.func.value, ast.Name)]
    if len(srch) != 1:
        raise AnalysisError(rid, f"expected one regex search in {td.short}, found {len(srch)}")
    mod = td.module
    pat = None
    for st in mod.tree.body:
        if isinstance(st, ast.Assign) and isinstance(st.targets[0], ast.Name) and st.targets[0].id == srch[0].func.value.id and isinstance(st.value, ast.Call) and st.value.args and isinstance(st.value.args[0], ast.Constant):
            pat = st.value.args[0].value
    if not isinstance(pat, str):
        raise AnalysisError(rid, f"pattern of {srch[0].func.value.id} is not a module-level re.compile(<literal>)")
    items = [(op, av) for op, av in sre.parse(pat) if op is not AT]
    shape_ok = len(items) == 5 and [op for op, _ in items] == [SUBPATTERN, LITERAL, SUBPATTERN, LITERAL, SUBPATTERN] and items[1][1] == ord(":") and items[3][1] == ord(":")
    if not shape_ok:
        raise AnalysisError(rid, f"walltime pattern {pat!r} is not <group>:<group>:<group>")
    bounds = []
    for op, av in (items[0], items[2], items[4]):
        sub = list(av[3])
        if len(sub) != 1 or sub[0][0] is not MAX_REPEAT:
            raise AnalysisError(rid, f"a group of {pat!r} is not a greedy repeat")
        lo, hi, body = sub[0][1]
        body = list(body)
        if not (len(body) == 1 and body[0][0] is IN and list(body[0][1]) == [(CATEGORY, CATEGORY_DIGIT)]):
            raise AnalysisError(rid, f"a group of {pat!r} does not repeat \\d")
        bounds.append((lo, hi))
    (hlo, hhi), rest = bounds[0], bounds[1:]
    r.check(hlo <= 1 and hhi == MAXREPEAT, "the hours group takes every leading digit", key_of(td, f"hours group {{{hlo},{hhi if hhi != MAXREPEAT else ''}}}"), td.loc(),
            f"the hours group of {pat!r} matches {hlo}..{hhi} digits and the pattern is used with .{srch[0].func.attr}(): for a walltime with more hour digits (e.g. '240:00:00') the match starts inside the "
            "field and the parsed walltime is far too small - valid multi-day configurations are rejected by check_job_runtimes and the time-based batch limit shrinks",
            "every valid configuration is accepted")
    for name, (lo, hi) in zip(("minutes", "seconds"), rest):
        r.check(lo <= 2 and hi >= 2, f"the {name} group takes two digits", key_of(td, f"{name} group {{{lo},{hi if hi != MAXREPEAT else ''}}}"), td.loc(), f"the {name} group of {pat!r} matches {lo}..{hi} digits: 'MM'/'SS' fields are cut")
    rets = [n for n in cfg.nodes if n.kind == "stmt" and isinstance(n.ast, ast.Return)]
    ok = len(rets) == 1 and isinstance(rets[0].ast.value, ast.Call) and ctx.src(rets[0].ast.value.func) == "timedelta" and not rets[0].ast.value.args
    got = {}
    if ok:
        for k in rets[0].ast.value.keywords:
            v = ctx.guards(td).expand(k.value, rets[0]) if isinstance(k.value, ast.Name) else k.value
            got[k.arg] = ctx.src(v).replace(" ", "")
    mv = ctx.src(ctx.stmt_of(td, srch[0]).targets[0]) if isinstance(ctx.stmt_of(td, srch[0]), ast.Assign) else "match"
    want = {"hours": f"int({mv}.group(1))", "minutes": f"int({mv}.group(2))", "seconds": f"int({mv}.group(3))"}
    r.check(ok and got == want, "walltime H:M:S is parsed as hours, minutes, seconds", key_of(td, "walltime fields"), td.loc(),
            f"_to_timedelta builds timedelta({got}) - not hours/minutes/seconds from groups 1/2/3: the batch time limit and the runtime check are wrong by a factor", "sum to at most walltime x processes-per-node")


def _limit_ok(form, pol):
    """(acc + est) vs max: accept exactly `not (max < acc+est)`  i.e. acc+est <= max."""
    f = form.replace(" ", "")
    # canonical Lt forms: `a > b` -> Lt(b, a);  here a = acc+est, b = max  ->  "max < (acc+est)" pol True means exceeded
    if f.startswith("<_BatchJobs._max_batch_time><(<_BatchJobs._estimated_batch_time>+"):
        return pol is False
    if f.startswith("(<_BatchJobs._estimated_batch_time>+") and f.endswith("<<_BatchJobs._max_batch_time>"):
        return False  # acc+est < max required strictly: rejects an exactly fitting job (not a violation of 'at most', but unrecognised)
    return False


@rule(P, "C07.4", "T1", "candidates are filtered by the submission group's name", min_obligations=3)
def c07_4(ctx, r):
    from .c01 import candidate_collections

    want = {("<JobParametersInterface.submission_group> == <SubmissionGroup.name>", True), ("<SubmissionGroup.name> == <JobParametersInterface.submission_group>", True)}
    for spec in (f"{HS}._get_available_jobs", f"{HS}._get_available_jobs_by_time"):
        fn = ctx.fn(spec, "C07.4")
        for cc in candidate_collections(ctx, fn, "C07.4"):
            ok = bool(cc["conds"] & want)
            r.check(ok, f"{fn.short}: a job is collected only if its group is this group", key_of(fn, "group filter"), fn.loc(cc["at"]),
                    "a candidate is collected without comparing its submission group with the group being batched: jobs of another group run with this group's HPC parameters "
                    "(and, since states are persisted only at the end of the round, are batched again by their own group's pass)",
                    "all its jobs belong to one submission group", guards=sorted(("" if p else "not ") + f for f, p in cc["conds"]))
        # the job whose group is read is the configuration job of the candidate (looked up by the status job's name)
        src = ctx.src(fn.node).replace(" ", "")
        loopvars = {ctx.src(x.target) for x in ast.walk(fn.node) if isinstance(x, (ast.For, ast.comprehension))}
        mlook = re.findall(r"self\._config\.get_job\((\w+)\.name\)", src)
        r.check(bool(mlook) and all(m in loopvars for m in mlook), f"{fn.short}: the configuration job is looked up by the status job's name", key_of(fn, "lookup"), fn.loc(), "group membership is read from a different job")


@rule(P, "C07.5", "T8", "one submission-group object flows from candidate selection to the interface that writes and submits the script", min_obligations=9)
def c07_5(ctx, r):
    sb = ctx.fn(f"{HS}._submit_batches", "C07.5")
    g = "submission_group"
    for short, param in ((f"{HS}._get_available_jobs", g), (f"{HS}._get_available_jobs_by_time", g), (f"{HS}._make_batch", g), (f"{HS}._submit_batch", g)):
        callee = ctx.fn(short, "C07.5")
        for s in ctx.some_sites(sb, "C07.5", short=short):
            a = ctx.arg_for(s, callee, param)
            r.check(isinstance(a, ast.Name) and a.id == g, f"_submit_batches passes its group to {short.split('.')[-1]}", key_of(sb, f"group to {short.split('.')[-1]}"), s.loc,
                    f"{short} receives `{ctx.src(a) if a is not None else None}` instead of the group being batched", "submitted with that group's HPC parameters and run options")
    r.check(not any(isinstance(n, ast.Name) and n.id == g and isinstance(n.ctx, ast.Store) for n in iter_own(sb.node)), "the group parameter is not rebound in _submit_batches", key_of(sb, "group rebound"), sb.loc(), "submission_group is reassigned")
    run = ctx.fn(f"{HS}.run", "C07.5")
    for s in ctx.some_sites(run, "C07.5", short=f"{HS}._submit_batches"):
        a = ctx.arg_for(s, sb, g)
        loops = ctx.enclosing(run, s.node, (ast.For,))
        ok = isinstance(a, ast.Name) and loops and isinstance(loops[0].target, ast.Name) and loops[0].target.id == a.id and render(ctx, run, loops[0].iter) == "<ClusterConfig.submission_groups>"
        r.check(ok, "run() batches every group of the cluster config in turn", key_of(run, "group loop"), s.loc, "the group loop no longer iterates cluster.config.submission_groups / passes its element")
    sbt = ctx.fn(f"{HS}._submit_batch", "C07.5")
    mk = ctx.fn(f"{HS}._make_async_submitter", "C07.5")
    for s in ctx.some_sites(sbt, "C07.5", short=f"{HS}._make_async_submitter"):
        a = ctx.arg_for(s, mk, g)
        r.check(isinstance(a, ast.Name) and a.id == g, "_submit_batch passes the group to _make_async_submitter", key_of(sbt, "group to _make_async_submitter"), s.loc, f"receives {ctx.src(a) if a is not None else None}")
        d = ctx.arg_for(s, mk, "dry_run")
        r.check(d is not None and render(ctx, sbt, d) == "<SubmitterParams.dry_run>" and ctx.src(d).startswith(g + "."), "dry_run = the group's dry_run", key_of(sbt, "dry_run source"), s.loc, f"dry_run={ctx.src(d) if d is not None else None}")
        j = ctx.arg_for(s, mk, "jobs")
        r.check(j is not None and ctx.src(j) == "batch.serialize()", "the batch's jobs are what is written", key_of(sbt, "jobs arg"), s.loc, f"jobs={ctx.src(j) if j is not None else None}")
    crs = ctx.fn(f"{HS}._create_run_script", "C07.5")
    for s in ctx.some_sites(mk, "C07.5", short=f"{HS}._create_run_script"):
        a = ctx.arg_for(s, crs, g)
        r.check(isinstance(a, ast.Name) and a.id == g, "the run script is written for the same group", key_of(mk, "group to _create_run_script"), s.loc, f"receives {ctx.src(a) if a is not None else None}")
        c = ctx.arg_for(s, crs, "config_file")
        ddx = [s3 for s3 in ctx.sites(mk, short="utils.dump_data")]
        r.check(isinstance(c, ast.Name) and len(ddx) == 1 and len(ddx[0].node.args) > 1 and isinstance(ddx[0].node.args[1], ast.Name) and c.id == ddx[0].node.args[1].id, "the run script runs the batch's own config file", key_of(mk, "config to run script"), s.loc, f"config_file={ctx.src(c) if c is not None else None}")
    ahs = ctx.cls("AsyncHpcSubmitter")
    init = ahs.methods["__init__"]
    for s in [s for s in ctx.cg.sites_in(mk) if s.constructs == ahs.qual]:
        a = ctx.arg_for(s, init, g)
        r.check(isinstance(a, ast.Name) and a.id == g, "the batch object holds the same group", key_of(mk, "group to AsyncHpcSubmitter"), s.loc, f"receives {ctx.src(a) if a is not None else None}")
        rs = ctx.arg_for(s, init, "run_script")
        crs_sites = ctx.sites(mk, short=f"{HS}._create_run_script")
        wrote = crs_sites[0].node.args[1] if crs_sites and len(crs_sites[0].node.args) > 1 else None
        r.check(isinstance(rs, ast.Name) and isinstance(wrote, ast.Name) and rs.id == wrote.id, "and the run script just written", key_of(mk, "run script"), s.loc, f"run_script={ctx.src(rs) if rs is not None else None}")
        dd = ctx.arg_for(s, init, "dry_run")
        r.check(isinstance(dd, ast.Name) and dd.id == "dry_run", "and the dry-run flag", key_of(mk, "dry_run to AsyncHpcSubmitter"), s.loc, f"dry_run={ctx.src(dd) if dd is not None else None}")
    # same file name for dump_data and the run script's argument
    dd = [s for s in ctx.sites(mk, short="utils.dump_data")]
    CFGV = dd[0].node.args[0].id if len(dd) == 1 and dd[0].node.args and isinstance(dd[0].node.args[0], ast.Name) else None
    cdef = None
    if CFGV:
        for n in ctx.nodes_of(mk, dd[0].node):
            ud = ctx.rd(mk).unique_def(n, CFGV)
            cdef = ctx.src(ud[1]) if ud and isinstance(ud[1], ast.AST) else None
    r.check(CFGV is not None and cdef == "copy.copy(self._base_config)", "config_batch_N.json holds the batch's config", key_of(mk, "dump"), mk.loc(), "the batch config is not dumped to new_config_file")
    okj = any(isinstance(n, ast.Assign) and CFGV and ctx.src(n.targets[0]).replace("'", '"') == f'{CFGV}["jobs"]' and ctx.src(n.value) == "jobs" for n in iter_own(mk.node))
    r.check(okj, "config['jobs'] = the batch's jobs", key_of(mk, "jobs"), mk.loc(), "config['jobs'] is not set to the batch's jobs")
    # AsyncHpcSubmitter stores and uses the group's name; HpcManager picks the interface by that name
    st = [ctx.stmt_of(init, n) for f2, n, attr, t, kind in attr_stores(ctx, {"_submission_group"}) if f2 is init]
    r.check(len(st) == 1 and ctx.src(st[0].value) == g, "AsyncHpcSubmitter stores the group", key_of(init, "store group"), init.loc(), "AsyncHpcSubmitter.__init__ does not store submission_group")
    hm = ctx.fn("HpcManager.submit", "C07.5")
    gi = ctx.some_sites(hm, "C07.5", short="HpcManager._get_interface")
    r.check(len(gi) == 1 and gi[0].node.args and ctx.src(gi[0].node.args[0]) == "submission_group_name", "HpcManager.submit selects the interface by the group name it was given", key_of(hm, "interface selection"), hm.loc(),
            "HpcManager.submit does not select the interface by submission_group_name: the batch is submitted with another group's HPC parameters", "submitted with that group's HPC parameters")
    gif = ctx.fn("HpcManager._get_interface", "C07.5")
    okg = any(isinstance(n, ast.Return) and ctx.src(n.value) == "self._intfs[submission_group_name]" for n in iter_own(gif.node))
    r.check(okg, "_get_interface(name) = self._intfs[name]", key_of(gif, "lookup"), gif.loc(), "_get_interface no longer returns self._intfs[submission_group_name]")
    # the name->group lookup that feeds the HPC manager comes from the same (persisted, resubmit-updatable) source as the groups iterated by run()
    hsi = ctx.fn(f"{HS}.__init__", "C07.5")
    stg = [ctx.stmt_of(hsi, n) for f2, n, attr, t, kind in attr_stores(ctx, {"_submission_groups"}) if f2 is hsi]
    okl = len(stg) == 1 and render(ctx, hsi, inlined_expr(ctx, hsi, stg[0].value)).replace(" ", "") in ("call:submission_group.make_submission_group_lookup(<ClusterConfig.submission_groups>)@", "make_submission_group_lookup(<ClusterConfig.submission_groups>)")
    r.check(okl, "HpcSubmitter's group lookup is built from the cluster config's groups (the ones run() iterates)", key_of(hsi, "group lookup source"), hsi.loc(),
            f"the group lookup given to HpcManager is built from `{ctx.src(stg[0].value) if stg else None}`, not from cluster.config.submission_groups: after `resubmit-jobs -s <groups file>` batches are submitted with the "
            "old HPC parameters of config.json while batch construction uses the new ones", "submitted with that group's HPC parameters and run options")
    hmc = [s for s in ctx.cg.sites_in(hsi) if (s.constructs or "").endswith(".HpcManager")]
    r.check(len(hmc) == 1 and hmc[0].node.args and ctx.src(hmc[0].node.args[0]) == "self._submission_groups", "HpcManager is constructed from that lookup", key_of(hsi, "HpcManager groups"), hsi.loc(), "HpcManager is constructed from a different set of groups")
    hi = ctx.fn("HpcManager.__init__", "C07.5")
    oki = False
    for lp in [x for x in iter_own(hi.node) if isinstance(x, ast.For) and isinstance(x.target, ast.Tuple) and len(x.target.elts) == 2 and ctx.src(x.iter).endswith(".items()")]:
        kn, gn = ctx.src(lp.target.elts[0]), ctx.src(lp.target.elts[1])
        oki = oki or any(isinstance(n, ast.Assign) and ctx.src(n.targets[0]) == f"self._intfs[{kn}]" and f"{gn}.submitter_params.hpc_config" in ctx.src(inlined_expr(ctx, hi, n.value)) for n in ast.walk(lp))
    r.check(oki, "each group's interface is built from that group's hpc_config", key_of(hi, "interfaces"), hi.loc(), "HpcManager builds interfaces from something other than each group's hpc_config")


@rule(P, "C07.6", "T1+T13", "blocked jobs are admitted only through the all-blockers-aboard test", min_obligations=8)
def c07_6(ctx, r):
    from .c02 import c02_3, c02_4

    c02_3(ctx, r)
    c02_4(ctx, r)
    bj = ctx.fn("_BatchJobs.__init__", "C07.6")
    st = [ctx.stmt_of(bj, n) for f2, n, attr, t, kind in attr_stores(ctx, {"_try_add_blocked_jobs"}) if f2 is bj]
    r.check(len(st) == 1 and render(ctx, bj, st[0].value) == "<SubmitterParams.try_add_blocked_jobs>", "the batch's try-add-blocked is the group's", key_of(bj, "try_add source"), bj.loc(), "try_add_blocked_jobs source changed")


@rule(P, "C07.7", "T1+T8", "dry run: files are written, nothing is handed off", min_obligations=4)
def c07_7(ctx, r):
    hm = ctx.fn("HpcManager.submit", "C07.7")
    hand = [s for s in ctx.cg.sites_in(hm) if "HANDOFF" in ctx.site_effects(s)]
    if not hand:
        raise AnalysisError("C07.7", "no hand-off in HpcManager.submit")
    for s in hand:
        for n in ctx.nodes_of(hm, s.node):
            forms = guard_forms(ctx, hm, n)
            r.check(("dry_run", False) in forms, "the hand-off is dominated by `not dry_run`", key_of(hm, "HANDOFF under dry run"), s.loc,
                    "with dry-run enabled the batch is still handed to the scheduler", "With dry-run enabled ... nothing is handed to the HPC and no job is started", guards=sorted(("" if p else "not ") + f for f, p in forms))
    cs = [s for s in ctx.cg.sites_in(hm) if isinstance(s.node.func, ast.Attribute) and s.node.func.attr == "create_submission_script"]
    for s in cs:
        for n in ctx.nodes_of(hm, s.node):
            forms = guard_forms(ctx, hm, n)
            r.check(not any("dry_run" in f for f, p in forms), "the submission script is written regardless of dry-run", key_of(hm, "script under dry run"), s.loc, "with dry-run the submission script is no longer written", "the same first-round batches are written to disk")
    ah = ctx.fn("AsyncHpcSubmitter.run", "C07.7")
    s2 = ctx.one_site(ah, "C07.7", short="HpcManager.submit")
    d = ctx.arg_for(s2, hm, "dry_run")
    r.check(d is not None and ctx.src(d) == "self._dry_run", "the batch passes its dry-run flag to the manager", key_of(ah, "dry_run forwarded"), s2.loc, f"dry_run={ctx.src(d) if d is not None else None}")
    init = ctx.cls("AsyncHpcSubmitter").methods["__init__"]
    st = [ctx.stmt_of(init, n) for f2, n, attr, t, kind in attr_stores(ctx, {"_dry_run"}) if f2 is init]
    r.check(len(st) == 1 and ctx.src(st[0].value) == "dry_run", "AsyncHpcSubmitter stores dry_run", key_of(init, "store dry_run"), init.loc(), "AsyncHpcSubmitter.__init__ does not store dry_run")
    # the dry-run return value is GOOD (so the batch is recorded and the round persists it)
    from ..lib import return_conditions

    for ret, conds, path in return_conditions(ctx, hm):
        if ("dry_run", True) in conds:
            r.check(ctx.src(ret).replace(" ", "") == "(0,Status.GOOD)", "dry-run returns (0, Status.GOOD)", key_of(hm, "dry run return"), hm.loc(ret), f"dry-run returns {ctx.src(ret)}")


@rule(P, "C07.8", "T9", "the run script's command line uses only options run-jobs defines, each guarded by its group parameter", min_obligations=5)
def c07_8(ctx, r):
    crs = ctx.fn(f"{HS}._create_run_script", "C07.8")
    cli = ctx.fn("run_jobs.run_jobs", "C07.8")
    # options declared on the click command
    declared = set()
    for d in cli.node.decorator_list:
        if isinstance(d, ast.Call) and ctx.src(d.func) in ("click.option", "click.argument"):
            for a in d.args:
                if isinstance(a, ast.Constant) and isinstance(a.value, str):
                    for part in a.value.split("/"):
                        declared.add(part)
    if not declared:
        raise AnalysisError("C07.8", "no click options found on run_jobs")
    text = []
    pm = ctx.parents(crs)
    for n in iter_own(crs.node):
        if isinstance(n, ast.JoinedStr):
            text.append(ctx.src(n))
        elif isinstance(n, ast.Constant) and isinstance(n.value, str) and not isinstance(pm.get(id(n)), (ast.JoinedStr, ast.FormattedValue)):
            text.append(ctx.src(n))
    emitted = set(re.findall(r"(--[a-z][a-z0-9-]*)", " ".join(text)))
    for o in sorted(emitted):
        r.check(o in declared, f"option {o} exists on `jade-internal run-jobs`", key_of(crs, f"emits {o}"), crs.loc(), f"the run script passes {o}, which run-jobs does not define: every batch fails at start",
                "runs the batch's run script with the group's options", declared=sorted(declared))
    cmd = [t for t in text if "jade-internal run-jobs" in t]
    r.check(len(cmd) == 1 and "{config_file}" in cmd[0] and "--output={self._output}" in cmd[0], "command = jade-internal run-jobs <config> --output=<output> ...", key_of(crs, "command"), crs.loc(), f"run command text: {cmd}")
    # registered in the jade-internal group
    ji = ctx.ix.modules.get("jade.cli.jade_internal")
    okreg = ji is not None and "cli.add_command(run_jobs)" in ji.source
    r.check(okreg, "run-jobs is registered on jade-internal", "jade_internal::add_command(run_jobs)", "jade/cli/jade_internal.py:1", "run_jobs is not registered on the jade-internal CLI group")
    # each optional flag guarded by the same-named group parameter
    cfg = ctx.cfg(crs)
    pairs = {"--num-parallel-processes-per-node": ("<SubmitterParams.num_parallel_processes_per_node> is None", False), "--verbose": ("<SubmitterParams.verbose>", True)}
    for n in cfg.nodes:
        if n.kind == "stmt" and isinstance(n.ast, ast.AugAssign):
            t = ctx.src(n.ast.value)
            for opt, (form, pol) in pairs.items():
                if opt in t:
                    forms = guard_forms(ctx, crs, n)
                    r.check((form, pol) in forms, f"{opt} is emitted iff the group sets it", key_of(crs, f"{opt} guard"), crs.loc(n.ast), f"{opt} is emitted under {sorted(('' if p else 'not ') + f for f, p in forms)}",
                            "run options")
                    if opt == "--num-parallel-processes-per-node":
                        r.check("{<SubmitterParams.num_parallel_processes_per_node>}" in render(ctx, crs, n.ast.value), "the value emitted is the group's processes-per-node", key_of(crs, "value"), crs.loc(n.ast), f"emits {t}")
    # --distributed-submitter / --no-distributed-submitter: the reader's option defaults to *on*, so the writer must say "off" explicitly.
    # Both literals occur, each under the matching polarity of the group's distributed_submitter (role: the statement holding the literal).
    seen_flag = {}
    for n in cfg.nodes:
        if n.kind != "stmt" or not isinstance(n.ast, (ast.Assign, ast.AugAssign, ast.Expr)):
            continue
        for c in ast.walk(n.ast):
            if isinstance(c, ast.Constant) and isinstance(c.value, str) and "-distributed-submitter" in c.value:
                neg = "--no-distributed-submitter" in c.value
                forms = guard_forms(ctx, crs, n)
                seen_flag[neg] = True
                r.check(("<SubmitterParams.distributed_submitter>", not neg) in forms, f"{c.value.strip()} matches the group's distributed_submitter", key_of(crs, f"flag {c.value.strip()}"), crs.loc(n.ast),
                        f"{c.value.strip()} chosen under {sorted(('' if p else 'not ') + f for f, p in forms)}", "submitted with that group's ... run options")
    r.check(seen_flag.get(True, False) and seen_flag.get(False, False), "the run script states the distributed-submitter choice in both polarities", key_of(crs, "distributed-submitter flag omitted for one polarity"), crs.loc(crs.node),
            f"the run script writes {'--no-distributed-submitter' if seen_flag.get(True) else '--distributed-submitter' if seen_flag.get(False) else 'neither flag'} only: `jade-internal run-jobs` defaults the option to on, so a "
            "group that disabled it runs its batches with it enabled - its nodes call try-submit-jobs and submit further batches", "the batch is submitted with that group's HPC parameters and run options")
    # reader side: batch id is parsed from the config file name the writer produced
    okre = any(isinstance(n, ast.Constant) and n.value == "batch_(\\d+)\\.json" for n in iter_own(cli.node))
    mk = ctx.fn(f"{HS}._make_async_submitter", "C07.8")
    src_mk = ctx.src(mk.node).replace('"', "'")
    msuf = re.search(r"(\w+) = f'_batch_\{self\._batch_index\}'", src_mk)
    okw = bool(msuf) and (".replace('.json', f'{" + msuf.group(1) + "}.json')") in src_mk
    r.check(okre and okw, "writer names config_batch_<N>.json; reader parses batch_(\\d+).json", key_of(cli, "batch id agreement"), cli.loc(), "the batch config file name and the pattern run-jobs parses no longer agree")


@rule(P, "C07.9", "T10", "the group's container options are applied only when enabled - at every site that consults them", min_obligations=2)
def c07_9(ctx, r):
    """Sibling agreement: HpcSubmitter._create_run_script (container set-up lines in run_batch_N.sh) and
    AsyncHpcSubmitter.run (singularity wrapper) both consult submitter_params.singularity_params; each must act on it
    only under `.enabled` - otherwise a group with the block present but disabled gets half of the container set-up."""
    n = 0
    for f in ctx.ix.functions.values():
        if f.cls is None or f.cls.name not in ("HpcSubmitter", "AsyncHpcSubmitter"):
            continue
        cfg = None
        for node in iter_own(f.node):
            if not (isinstance(node, ast.Attribute) and node.attr == "singularity_params" and isinstance(node.ctx, ast.Load)):
                continue
            st = ctx.stmt_of(f, node)
            if not (isinstance(st, ast.Assign) and isinstance(st.targets[0], ast.Name)):
                continue
            var = st.targets[0].id
            cfg = ctx.cfg(f)
            # uses of the local other than tests of itself / of .enabled
            for cn in cfg.nodes:
                if cn.kind not in ("stmt",) or cn.ast is st:
                    continue
                used = [x for x in ast.walk(cn.ast) if isinstance(x, ast.Attribute) and isinstance(x.value, ast.Name) and x.value.id == var and x.attr != "enabled"]
                if not used:
                    continue
                forms = guard_forms(ctx, f, cn)
                if f.name == "_make_singularity_command":
                    continue
                n += 1
                ok = any(p and fm.replace(" ", "") in (f"{var}.enabled", "<SingularityParams.enabled>") for fm, p in forms)
                r.check(ok, f"{f.short}: `{ctx.src(used[0])}` only under .enabled", key_of(f, f"container option {used[0].attr} applied although disabled"), f.loc(cn.ast),
                        f"`{ctx.src(cn.ast)[:60]}` uses the group's singularity parameters without `{var}.enabled` having tested true (guards: {sorted(('' if p else 'not ') + fm for fm, p in forms)}): "
                        "a group whose container block is present but disabled gets the container set-up in every batch script, while the sibling site still honours `enabled`",
                        "the batch is submitted with that group's HPC parameters and run options")
        # conditional expression / call sites that branch on the local (AsyncHpcSubmitter.run)
    run = ctx.fn("AsyncHpcSubmitter.run", "C07.9")
    for s in ctx.sites(run, short="AsyncHpcSubmitter._make_singularity_command"):
        for cn in ctx.nodes_of(run, s.node):
            n += 1
            forms = guard_forms(ctx, run, cn)
            ok = any(p and (fm.endswith(".enabled") or fm == "<SingularityParams.enabled>") for fm, p in forms)
            r.check(ok, "the singularity wrapper is used only under .enabled", key_of(run, "wrapper although disabled"), s.loc, f"the wrapper script is created under {sorted(('' if p else 'not ') + fm for fm, p in forms)}",
                    "run options")
    if n < 2:
        raise AnalysisError("C07.9", f"only {n} uses of singularity parameters recognised (run script set-up and the wrapper expected)")


@rule(P, "C07.10", "T1+T13", "a dry-run hand-off counts as an active batch, so dry-run builds the same first-round batches", min_obligations=4)
def c07_10(ctx, r):
    from .c12 import c12_3

    c12_3(ctx, r)


@rule(P, "C07.11", "T8", "the group check never copies one group's options onto another (each group keeps its own run options)", min_obligations=2)
def c07_11(ctx, r):
    """check_submission_groups may normalise a group's parameters, but every value it stores into a group must have been
    read from that same group: a flow first_group -> setattr(group, ...) silently replaces the later groups' dry_run /
    verbose / distributed_submitter / monitor options."""
    fn = ctx.fn("JobConfiguration.check_submission_groups", "C07.11")
    n = 0
    for lp in [x for x in iter_own(fn.node) if isinstance(x, ast.For) and render(ctx, fn, x.iter) in ("<JobConfiguration.submission_groups>", "<JobConfiguration._submission_groups>")]:
        gv = ctx.src(lp.target)
        for c in ast.walk(lp):
            if isinstance(c, ast.Call) and ctx.src(c.func) == "setattr" and len(c.args) == 3:
                n += 1
                tgt_root = root_name_of(c.args[0])
                val = c.args[2]
                src_roots = set()
                for nd in ctx.nodes_of(fn, c):
                    e = ctx.guards(fn).expand(val, nd) if isinstance(val, ast.Name) else val
                    for x in ast.walk(e):
                        if isinstance(x, ast.Call) and ctx.src(x.func) == "getattr" and x.args:
                            src_roots.add(root_name_of(x.args[0]))
                        elif isinstance(x, ast.Attribute):
                            src_roots.add(root_name_of(x))
                ok = tgt_root == gv and src_roots <= {gv}
                r.check(ok, f"setattr on `{gv}` stores a value read from `{gv}`", key_of(fn, f"group option copied from {sorted(src_roots - {gv})}"), fn.loc(c),
                        f"`{ctx.src(c)}` stores into group `{tgt_root}` a value read from {sorted(src_roots)}: the later groups lose their own run options (e.g. dry_run, verbose, distributed_submitter) - "
                        "their batches are submitted / dry-run / scripted with the first group's settings", "submitted with that group's HPC parameters and run options")
    if n < 2:
        raise AnalysisError("C07.11", f"only {n} setattr normalisations found in check_submission_groups")


def root_name_of(e):
    while isinstance(e, (ast.Attribute, ast.Subscript, ast.Call)):
        e = e.func if isinstance(e, ast.Call) else e.value
    return e.id if isinstance(e, ast.Name) else None


@rule(P, "C07.12", "T1", "a dry run is refused in local mode, where the jobs would be started at once", min_obligations=1)
def c07_12(ctx, r):
    """`submit-jobs --local --dry-run`: the local branch of JobSubmitter.submit_jobs runs the jobs itself, there is no dry-run form of it.
    The only thing between that option pair and started jobs is the refusal in make_submitter_params: some exit (sys.exit / raise) must be
    guarded by exactly `dry_run` and the local-mode test, and the local-mode test must be one that can be true."""
    fn = ctx.fn("common.make_submitter_params", "C07.12")
    if "dry_run" not in fn.params or "local" not in fn.params:
        raise AnalysisError("C07.12", f"make_submitter_params parameters are {fn.params}")
    exits = []
    for n in ctx.cfg(fn).nodes:
        a = n.ast
        if n.kind != "stmt":
            continue
        if isinstance(a, ast.Raise) or (isinstance(a, ast.Expr) and isinstance(a.value, ast.Call) and ctx.src(a.value.func) in ("sys.exit", "exit")):
            exits.append(n)
    if len(exits) < 2:
        raise AnalysisError("C07.12", f"{len(exits)} refusing exits in make_submitter_params")

    def local_test(f):
        return f == "local" or ("hpc_type" in f and "HpcType.LOCAL" in f and "==" in f)

    ok = False
    for n in exits:
        pos = {f for f, p in guard_forms(ctx, fn, n) if p}
        neg = {f for f, p in guard_forms(ctx, fn, n) if not p}
        if "dry_run" in pos and any(local_test(f) for f in pos) and not neg and all(f == "dry_run" or local_test(f) for f in pos):
            ok = True
    r.check(ok, "an exit of make_submitter_params is guarded by exactly {local mode, dry_run}", key_of(fn, "local dry run refused"), fn.loc(fn.node),
            "no exit of make_submitter_params is guarded by exactly `local and dry_run` (or the equivalent `hpc_type == HpcType.LOCAL and dry_run`): `submit-jobs --local --dry-run` goes on to the "
            "local branch of submit_jobs, which has no dry-run form and starts every job", "With dry-run enabled ... nothing is handed to the HPC and no job is started")


@rule(P, "C07.13", "T14", "batch construction stops as soon as the batch is full - in every pass of the multi-pass scan", min_obligations=2)
def c07_13(ctx, r):
    """Count-based try_append never refuses a job: the size limit is enforced by *leaving the loops* once is_ready_to_submit is seen.  The scan
    is two-level (passes x candidates, for try-add-blocked); the inner break sets a flag and the outer loop must break on that flag alone.
    A further condition on the outer break (`and not blocked_jobs...`) lets later passes keep appending to a batch that is already full."""
    mb = ctx.fn("HpcSubmitter._make_batch", "C07.13")
    cfg = ctx.cfg(mb)
    outer = [lp for lp in iter_own(mb.node) if isinstance(lp, ast.For) and any(isinstance(x, ast.For) and x is not lp for x in ast.walk(lp))]
    if len(outer) != 1:
        raise AnalysisError("C07.13", f"{len(outer)} two-level loops in _make_batch")
    inner = [x for x in outer[0].body if isinstance(x, ast.For)]
    if len(inner) != 1:
        raise AnalysisError("C07.13", "the candidate scan is not a direct child of the pass loop")
    # inner: the break that follows the ready test sets FLAG
    flag = None
    for n in cfg.nodes:
        if n.kind == "stmt" and isinstance(n.ast, ast.Break) and any(l is inner[0] for l in ctx.enclosing(mb, n.ast, (ast.For,))[:1]):
            blk = ctx.parents(mb).get(id(n.ast))
            if isinstance(blk, ast.If) and "is_ready_to_submit" in ctx.src(blk.test) and n.ast in blk.body:
                sets = [x for x in getattr(blk, "body", []) if isinstance(x, ast.Assign) and isinstance(x.value, ast.Constant) and x.value.value is True and isinstance(x.targets[0], ast.Name)]
                flag = sets[0].targets[0].id if sets else None
    r.check(flag is not None, "the inner break on a full batch records it in a flag", key_of(mb, "full-batch flag"), mb.loc(inner[0]), "the scan no longer records that it stopped because the batch is full")
    if flag is None:
        return
    obr = [n for n in cfg.nodes if n.kind == "stmt" and isinstance(n.ast, ast.Break) and (ctx.enclosing(mb, n.ast, (ast.For,)) or [None])[0] is outer[0]]
    ok = False
    detail = []
    for n in obr:
        forms = {(f, p) for f, p in guard_forms(ctx, mb, n)}
        detail.append(sorted(("" if p else "not ") + f for f, p in forms))
        if forms == {(flag, True)}:
            ok = True
    r.check(ok, "the pass loop breaks on the full-batch flag alone", key_of(mb, "pass loop continues with a full batch"), mb.loc(outer[0]),
            f"the pass loop of _make_batch is left under {detail} - not under `{flag}` alone: once the batch has reached its size the next pass goes on appending (count-based try_append never refuses), so the batch "
            "exceeds per-node-batch-size", "at most per-node-batch-size jobs")

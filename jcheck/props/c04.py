"""C04 - failure cancellation is exact: flagged dependents never run, others always run."""

import ast
import re

from .. import AnalysisError
from ..cfg import ALL_KINDS, NORMAL_KINDS, iter_own
from ..lib import always_followed_by, attr_stores, dominated_by, iteration_paths, guard_forms, key_of, norm, render, type_is
from ..report import describe, rule

P = "C04"

describe(
    P,
    "Decides that the submitter-level and the node-level cancel loops are the same mechanism and that it is intact: every "
    "canceled Result carries a non-zero literal return code; both sites cancel under exactly {has remaining blockers, flag set, "
    "blockers intersect the failed set} and the failed set is filled only under return_code != 0 (sibling agreement of the "
    "canonical guard sets); the cancel branch re-arms the enclosing fixpoint loop; a canceled job re-enters the failed set of "
    "the next iteration (chain propagation); a canceled entry leaves the queue / is marked done and cancel() cannot launch; "
    "and on every path that reaches the blocker removal with the flag unset no condition over the failed set or a return "
    "code was evaluated (unflagged jobs are unblocked whatever the outcome).",
    ["a job's real exit status is what Popen reports (C19)"],
    "'exactly when' over all placements of the failing job and its dependents across batches and rounds, as an end-to-end statement.",
)

SUB = "HpcSubmitter._update_completed_jobs"
NODE = "JobQueue._check_completions"


def _abstract(form):
    """Map a normal-form guard to an abstract token shared by both siblings (independent of how locals are spelled)."""
    f = form.replace(" ", "")
    if re.search(r"\.intersection\(\w+\)$", f) or re.fullmatch(r"\(?.+&\w+\)?", f):
        return "BLOCKERS&FAILED"
    if f in ("<Job.cancel_on_blocking_job_failure>", "<AsyncJobInterface.cancel_on_blocking_job_failure>") or re.fullmatch(r"\w+\.cancel_on_blocking_job_failure", f):
        return "FLAG"
    if f == "<Job.blocked_by>" or re.fullmatch(r"call:AsyncJobInterface\.get_blocking_jobs\(\)@\w+", f) or re.fullmatch(r"\w+\.get_blocking_jobs\(\)", f) or re.fullmatch(r"\w+\.blocked_by", f):
        return "HAS_BLOCKERS"
    return None


def _failed_set(ctx, fn):
    """The local set the cancel decision intersects the blockers with (role: names of failed jobs)."""
    names = set()
    for call, n in _cancel_nodes(ctx, fn):
        for f, p in guard_forms(ctx, fn, n, ALL_KINDS, kill=False):
            m = re.search(r"\.intersection\((\w+)\)$", f.replace(" ", ""))
            if m and p:
                names.add(m.group(1))
    if len(names) != 1:
        raise AnalysisError("C04", f"{fn.short}: the failed-jobs set of the cancel decision was not recognised ({sorted(names)})")
    return names.pop()


def _is_blockers_alias(ctx, fn, node, name):
    """`name` is a local bound (uniquely) to <entry>.get_blocking_jobs() at `node`."""
    ud = ctx.rd(fn).unique_def(node, name)
    return ud is not None and isinstance(ud[1], ast.Call) and isinstance(ud[1].func, ast.Attribute) and ud[1].func.attr == "get_blocking_jobs"


def _cancel_nodes(ctx, fn):
    cfg = ctx.cfg(fn)
    out = []
    if fn.short == SUB:
        for s in ctx.sites(fn, short="HpcSubmitter._cancel_job"):
            out += [(s.node, n) for n in ctx.nodes_of(fn, s.node)]
    else:
        for n in cfg.nodes:
            for c in cfg.calls_at(n):
                if isinstance(c.func, ast.Attribute) and c.func.attr == "cancel":
                    out.append((c, n))
    if not out:
        raise AnalysisError("C04", f"no cancel action in {fn.short}")
    return out


@rule(P, "C04.1", "T6+T8", "every canceled Result carries a non-zero literal return code", min_obligations=2)
def c04_1(ctx, r):
    res = ctx.cls("result.Result", "C04.1")
    n = 0
    for fn in ctx.ix.all_functions():
        for s in ctx.cg.sites_in(fn):
            if s.constructs != res.qual:
                continue
            args = s.node.args
            status = args[2] if len(args) > 2 else next((k.value for k in s.node.keywords if k.arg == "status"), None)
            if status is None or "CANCELED" not in ctx.src(status):
                continue
            n += 1
            rc = args[1] if len(args) > 1 else next((k.value for k in s.node.keywords if k.arg == "return_code"), None)
            ok, how = False, ctx.src(rc) if rc is not None else None
            if isinstance(rc, ast.Constant) and isinstance(rc.value, int) and rc.value != 0:
                ok = True
            elif isinstance(rc, ast.Attribute) and isinstance(rc.value, ast.Name) and rc.value.id == "self":
                cfg = ctx.cfg(fn)
                stores = [x for x in cfg.nodes if x.kind == "stmt" and isinstance(x.ast, ast.Assign) and any(ctx.src(t) == ctx.src(rc) for t in x.ast.targets)]
                lit = [x for x in stores if isinstance(x.ast.value, ast.Constant) and isinstance(x.ast.value.value, int) and x.ast.value.value != 0]
                ok = len(stores) == 1 and len(lit) == 1 and all(dominated_by(ctx, fn, cn, lit) for cn in ctx.nodes_of(fn, s.node))
                how = f"{how} <- {[ctx.src(x.ast) for x in stores]}"
            elif isinstance(rc, ast.Name):
                for cn in ctx.nodes_of(fn, s.node):
                    ud = ctx.rd(fn).unique_def(cn, rc.id)
                    ok = ud is not None and isinstance(ud[1], ast.Constant) and isinstance(ud[1].value, int) and ud[1].value != 0
            r.check(ok, f"{fn.short}: canceled Result has a non-zero literal return code", key_of(fn, "canceled Result return code"), s.loc,
                    f"a CANCELED Result is constructed with return code `{how}` (not a non-zero literal): with code 0 it is neither failed nor canceled for the tallies, and dependents flagged cancel-on-failure run",
                    "it gets a 'canceled' result with a non-zero return code", rc=how)
    if n < 2:
        raise AnalysisError("C04.1", f"only {n} canceled Result constructions found (expected submitter-level and node-level)")


@rule(P, "C04.2", "T10", "both cancel sites decide by the same predicate; the failed set holds only non-zero return codes", min_obligations=4)
def c04_2(ctx, r):
    sets = {}
    for spec in (SUB, NODE):
        fn = ctx.fn(spec, "C04.2")
        for call, n in _cancel_nodes(ctx, fn):
            # decision-time conditions: plain edge dominance (the cancel branch itself empties the blockers)
            forms = guard_forms(ctx, fn, n, ALL_KINDS, kill=False)
            toks = {(_abstract(f), p) for f, p in forms if _abstract(f)}
            extra = sorted(("" if p else "not ") + f for f, p in forms if _abstract(f) is None and not f.startswith(("need_to_rerun", "job.", "blocking_jobs", "self.", "<Job")) and "in completed_jobs" not in f)
            sets[spec] = toks
            want = {("BLOCKERS&FAILED", True), ("FLAG", True), ("HAS_BLOCKERS", True)}
            r.check(toks == want, f"{fn.short}: cancel under has-blockers & flag & blockers-intersect-failed", key_of(fn, f"cancel predicate {sorted(toks)}"), fn.loc(call),
                    f"the cancel decision of {fn.short} is {sorted(toks)} instead of {sorted(want)}: flagged jobs are canceled too often / not at all",
                    "is canceled ... exactly when at least one of its blocking jobs failed or was itself canceled", guards=sorted(("" if p else "not ") + f for f, p in forms))
    r.check(sets.get(SUB) == sets.get(NODE), "submitter-level and node-level predicates agree", "cancel predicate siblings", ctx.fn(SUB).loc(),
            f"submitter-level {sorted(sets.get(SUB, []))} vs node-level {sorted(sets.get(NODE, []))}", "propagates along chains identically whether detected on a compute node or by a submitter")
    # failed set insertions
    for spec in (SUB, NODE):
        fn = ctx.fn(spec, "C04.2")
        cfg = ctx.cfg(fn)
        FAILED = _failed_set(ctx, fn)
        ins = [(n, c) for n in cfg.nodes for c in cfg.calls_at(n) if isinstance(c.func, ast.Attribute) and c.func.attr in ("add", "update", "append") and ctx.src(c.func.value) == FAILED]
        if not ins:
            r.bad(key_of(fn, "failed set never filled"), fn.loc(), f"{fn.short} never adds to failed_jobs: nothing is ever canceled", "canceled ... exactly when at least one of its blocking jobs failed")
        for n, c in ins:
            forms = guard_forms(ctx, fn, n)
            ok = any((not p) and f.replace(" ", "").endswith("return_code==0") or (not p and "return_code" in f and "== 0" in f) for f, p in forms)
            r.check(ok, f"{fn.short}: failed_jobs.add only under return_code != 0", key_of(fn, "failed set guard"), fn.loc(c),
                    "a job enters the failed set without its return code having tested non-zero: dependents of successful jobs are canceled", guards=sorted(("" if p else "not ") + f for f, p in forms))
            a = c.args[0] if c.args else None
            r.check(a is not None and ctx.src(a).endswith(".name"), f"{fn.short}: the failed set holds job names", key_of(fn, "failed set element"), fn.loc(c), f"failed_jobs receives {ctx.src(a) if a is not None else None}")
            # one name per insertion: add(name) - update(name) / extend(name) would insert the *characters* of the name
            r.check(c.func.attr in ("add", "append") or not (a is not None and ctx.src(a).endswith(".name")), f"{fn.short}: a single name is inserted with add()", key_of(fn, f"failed set .{c.func.attr}() of one name"), fn.loc(c),
                    f"`{ctx.src(c)}` hands one job name to {c.func.attr}(), which iterates its argument: the set receives the name's characters, so a blocker's failure is matched only by one-letter job names - flagged "
                    "dependents of a failed job are not canceled and are handed to a node", "is canceled ... exactly when at least one of its blocking jobs failed")


@rule(P, "C04.3", "T3", "the cancel branch re-arms the enclosing fixpoint loop", min_obligations=2)
def c04_3(ctx, r):
    for spec in (SUB, NODE):
        fn = ctx.fn(spec, "C04.3")
        for call, n in _cancel_nodes(ctx, fn):
            whiles = ctx.enclosing(fn, call, (ast.While,))
            if not whiles or not isinstance(whiles[-1].test, ast.Name):
                r.bad(key_of(fn, "cancel outside fixpoint loop"), fn.loc(call), "the cancel action is not inside a `while <flag>:` loop: a chain of flagged jobs is canceled one link per round (or never on a node)",
                      "this propagates along chains")
                continue
            flag = whiles[-1].test.id
            cfg = ctx.cfg(fn)
            sets = [x for x in cfg.nodes if x.kind == "stmt" and isinstance(x.ast, ast.Assign) and ctx.src(x.ast.targets[0]) == flag and isinstance(x.ast.value, ast.Constant) and x.ast.value.value is True and whiles[-1] in ctx.enclosing(fn, x.ast, (ast.While,))]
            from .c01 import _must_pass

            ok = bool(sets) and _must_pass(ctx, fn, n, sets)
            r.check(ok, f"{fn.short}: every cancel sets {flag}=True before the next candidate", key_of(fn, "cancel does not re-arm loop"), fn.loc(call),
                    f"after a cancel the loop flag `{flag}` is not set on every path: dependents of the canceled job are not canceled in the same pass", "propagates along chains identically")
            # the flag is reset at the top of each pass (termination) and initialised True
            resets = [x for x in cfg.nodes if x.kind == "stmt" and isinstance(x.ast, ast.Assign) and ctx.src(x.ast.targets[0]) == flag and isinstance(x.ast.value, ast.Constant) and x.ast.value.value is False]
            r.check(bool(resets) and any(ctx.stmt_of(fn, x.ast) is whiles[-1].body[0] for x in resets), f"{fn.short}: {flag} is cleared at the top of each pass", key_of(fn, "flag reset"), fn.loc(whiles[-1]),
                    f"`{flag}` is not cleared first thing in the loop body (the loop does not terminate, or skips passes)")


@rule(P, "C04.4", "T8", "a canceled job re-enters the failed set of the next pass", min_obligations=5)
def c04_4(ctx, r):
    fn = ctx.fn(SUB, "C04.4")
    cfg = ctx.cfg(fn)
    for call, n in _cancel_nodes(ctx, fn):
        st = ctx.stmt_of(fn, call)
        ok_bind = isinstance(st, ast.Assign) and isinstance(st.targets[0], ast.Name)
        var = st.targets[0].id if ok_bind else None
        apps = [c for x in cfg.nodes for c in cfg.calls_at(x) if isinstance(c.func, ast.Attribute) and c.func.attr == "append" and c.args and isinstance(c.args[0], ast.Name) and c.args[0].id == var]
        lists = {ctx.src(c.func.value) for c in apps}
        chained = False
        for l in iter_own(fn.node):
            if isinstance(l, ast.For) and "process_results()" in ctx.src(l.iter) and any(x in [y.id for y in iter_own(l.iter) if isinstance(y, ast.Name)] for x in lists):
                # both sources are iterated: chain(A, B) / A + B / [*A, *B] - not `A or B`, which drops B whenever A is non-empty
                it = l.iter
                chained = (isinstance(it, ast.Call) and ctx.src(it.func).split(".")[-1] == "chain" and len(it.args) >= 2) or (isinstance(it, ast.BinOp) and isinstance(it.op, ast.Add)) \
                    or (isinstance(it, (ast.List, ast.Tuple)) and all(isinstance(e, ast.Starred) for e in it.elts))
        r.check(ok_bind and bool(apps) and chained, "submitter: the canceled result is appended to the list chained into the next pass", key_of(fn, "canceled result feedback"), fn.loc(call),
                "the Result returned by _cancel_job is not fed back into the result iteration: jobs depending on a canceled job are not canceled", "or was itself canceled, and this propagates along chains")
        # canceled_jobs list returned (second element) receives the job -> counted as submitted (C09.2)
    # the feedback list is cleared only after it was consumed
    fb = set()
    for call, n in _cancel_nodes(ctx, fn):
        st = ctx.stmt_of(fn, call)
        if isinstance(st, ast.Assign) and isinstance(st.targets[0], ast.Name):
            v0 = st.targets[0].id
            for x in cfg.nodes:
                for c in cfg.calls_at(x):
                    if isinstance(c.func, ast.Attribute) and c.func.attr == "append" and c.args and isinstance(c.args[0], ast.Name) and c.args[0].id == v0 and isinstance(c.func.value, ast.Name):
                        if any(isinstance(l, ast.For) and "process_results()" in ctx.src(l.iter) and c.func.value.id in [y.id for y in iter_own(l.iter) if isinstance(y, ast.Name)] for l in iter_own(fn.node)):
                            fb.add(c.func.value.id)
    clears = [c for x in cfg.nodes for c in cfg.calls_at(x) if isinstance(c.func, ast.Attribute) and c.func.attr == "clear" and ctx.src(c.func.value) in fb]
    for c in clears:
        loops = [l for l in iter_own(fn.node) if isinstance(l, ast.For) and any(isinstance(y, ast.Name) and y.id in fb for y in iter_own(l.iter))]
        heads = [x for x in cfg.nodes if x.kind == "for" and x.ast in loops]
        for cn in ctx.nodes_of(fn, c):
            r.check(bool(heads) and dominated_by(ctx, fn, cn, heads) and not any(l in ctx.enclosing(fn, c, (ast.For,)) for l in loops), "the feedback list is cleared after it was iterated", key_of(fn, "feedback cleared early"), fn.loc(c),
                    "new_results is cleared before (or while) it is iterated: canceled results never reach the failed set")
    # node level
    nf = ctx.fn(NODE, "C04.4")
    cfgn = ctx.cfg(nf)
    for call, n in _cancel_nodes(ctx, nf):
        recv = ctx.src(call.func.value)
        st = ctx.stmt_of(nf, call)
        par = ctx.parents(nf).get(id(st))
        blk = next((getattr(par, f) for f in ("body", "orelse") if isinstance(getattr(par, f, None), list) and st in getattr(par, f)), [])
        stored = any(isinstance(x, ast.Assign) and ctx.src(x.targets[0]).startswith("self._outstanding_jobs[") and ctx.src(x.value) == recv for x in blk)
        r.check(stored, "node: the canceled entry is put among the outstanding entries (seen complete+failed by the next pass)", key_of(nf, "canceled entry feedback"), nf.loc(call),
                "a canceled entry is not stored in _outstanding_jobs: its dependents are never canceled and its completion is never counted", "propagates along chains")
    # the stored key is the stored entry's own name (the next pass looks entries up / reports completions by it)
    jq = ctx.cls("JobQueue", "C04.4")
    nkey = 0
    for m in jq.methods.values():
        for st in iter_own(m.node):
            if isinstance(st, ast.Assign) and isinstance(st.targets[0], ast.Subscript) and ctx.src(st.targets[0].value) == "self._outstanding_jobs":
                nkey += 1
                r.check(ctx.src(st.targets[0].slice) == f"{ctx.src(st.value)}.name", f"{m.short}: an outstanding entry is filed under its own name", key_of(m, f"entry filed under {ctx.src(st.targets[0].slice)}"), m.loc(st),
                        f"`{ctx.src(st)}` files the entry under `{ctx.src(st.targets[0].slice)}`, not under its own name: a canceled entry filed under the name of the job that just completed replaces / is replaced by "
                        "another entry, so its dependents are neither canceled nor released and the node queue never drains", "this propagates along chains identically whether detected on a compute node or by a submitter")
    if nkey < 3:
        raise AnalysisError("C04.4", f"only {nkey} stores into JobQueue._outstanding_jobs found")
    # every worker node knows the exit status too: _return_code is taken before the non-manager early return
    cpl = ctx.fn("AsyncCliCommand._complete", "C04.4")
    cfgc = ctx.cfg(cpl)
    rcs = [n for n in cfgc.nodes if n.kind == "stmt" and isinstance(n.ast, ast.Assign) and ctx.src(n.ast.targets[0]) == "self._return_code" and ctx.src(n.ast.value) == "self._pipe.returncode"]
    for n in [x for x in cfgc.nodes if x.kind == "stmt" and isinstance(x.ast, ast.Return)] + [cfgc.exit]:
        r.check(bool(rcs) and dominated_by(ctx, cpl, n, rcs, NORMAL_KINDS), "_complete records the exit status on every node before it returns", key_of(cpl, "return before the exit status is recorded"), cpl.loc(n.ast) if n.ast is not None else cpl.loc(),
                "_complete can return (the non-manager path of a multi-node batch) before self._return_code was set from the pipe: return_code stays None, `None != 0` makes every finished blocker look failed on that node, "
                "and flagged dependents are canceled there although nothing failed", "is canceled ... exactly when at least one of its blocking jobs failed")
    can = ctx.fn("AsyncCliCommand.cancel", "C04.4")
    body = can.node.body
    okc = any(isinstance(x, ast.Assign) and ctx.src(x.targets[0]) == "self._is_complete" and ctx.src(x.value) == "True" for x in body)
    okr = any(isinstance(x, ast.Assign) and ctx.src(x.targets[0]) == "self._return_code" and isinstance(x.value, ast.Constant) and isinstance(x.value.value, int) and x.value.value != 0 for x in body)
    r.check(okc and okr, "AsyncCliCommand.cancel sets _is_complete=True and a non-zero _return_code unconditionally", key_of(can, "cancel state"), can.loc(),
            "cancel() does not mark the entry complete with a non-zero return code: the queue never sees it as a failed completion")
    ic = ctx.fn("AsyncCliCommand.is_complete", "C04.4")
    first = ic.node.body[0] if not isinstance(ic.node.body[0], ast.Expr) else ic.node.body[1]
    r.check(isinstance(first, ast.If) and ctx.src(first.test) == "self._is_complete" and ctx.src(first.body[0]) in ("return True", "return self._is_complete"), "is_complete() short-circuits on _is_complete (never polls a pipe that was not started)", key_of(ic, "short circuit"), ic.loc(),
            "is_complete() does not return True first when _is_complete is set: a canceled entry is polled although it has no process")
    from .c08 import node_rows_go_to_node_file

    node_rows_go_to_node_file(ctx, r, "C04.4")
    # the scan that cancels / unblocks visits every candidate of the pass (a break after the first cancellation leaves the
    # other dependents of the same failure to the next pass, whose failed set no longer contains that failure)
    for spec in (SUB, NODE):
        f3 = ctx.fn(spec, "C04.4")
        for call, n in _cancel_nodes(ctx, f3):
            lps = ctx.enclosing(f3, call, (ast.For,))
            if not lps:
                raise AnalysisError("C04.4", f"{f3.short}: cancel action outside a scan loop")
            for end, conds, last in iteration_paths(ctx, f3, lps[0]):
                if end == "leave":
                    r.bad(key_of(f3, "cancel scan left early"), f3.loc(last.stmt if last.stmt is not None else lps[0]),
                          f"{f3.short} leaves the scan over the waiting jobs before its end (under {sorted(('' if p else 'not ') + f for f, p in conds)}): jobs behind that point are not examined in this pass; "
                          "the next pass rebuilds the failed set without this pass's failures, so their flagged dependents are unblocked and run", "is canceled ... exactly when at least one of its blocking jobs failed")
            r.ok(f"{f3.short}: the cancel scan runs to its end")
    rc = ctx.fn("AsyncCliCommand.return_code", "C04.4")
    from ..lib import _single_return

    r.check(ctx.src(_single_return(rc)) == "self._return_code" if _single_return(rc) is not None else False, "return_code property reads _return_code", key_of(rc, "return_code"), rc.loc(), "return_code property changed")


@rule(P, "C04.5", "T3+T6", "a canceled job is never started", min_obligations=4)
def c04_5(ctx, r):
    can = ctx.fn("AsyncCliCommand.cancel", "C04.5")
    r.check("LAUNCH" not in ctx.may(can), "AsyncCliCommand.cancel cannot launch a process", key_of(can, "LAUNCH in cancel"), can.loc(), "cancel() may reach a process launch", "its command is never started")
    cj = ctx.fn("HpcSubmitter._cancel_job", "C04.5")
    r.check(not (ctx.may(cj) & {"LAUNCH", "HANDOFF"}), "_cancel_job cannot hand off or launch", key_of(cj, "launch in _cancel_job"), cj.loc(), "_cancel_job may reach a hand-off / launch")
    body = cj.node.body
    done = any(isinstance(x, ast.Assign) and ctx.src(x.targets[0]).endswith(".state") and ctx.src(x.value) == "JobState.DONE" for x in body)
    r.check(done, "_cancel_job marks the job DONE unconditionally (so it is no longer a batch candidate, C01.3)", key_of(cj, "DONE"), cj.loc(), "_cancel_job does not mark the job done: it is batched in the same round and runs", "its command is never started")
    # node level: the canceled entry's index is recorded and popped (C01.7 instance for cancel)
    nf = ctx.fn(NODE, "C04.5")
    from .c01 import _must_pass

    cfg = ctx.cfg(nf)
    IDX = set()
    for l in iter_own(nf.node):
        if isinstance(l, ast.For) and isinstance(l.iter, ast.Call) and ctx.src(l.iter.func) == "enumerate" and ctx.src(l.iter.args[0]) == "self._queued_jobs" and isinstance(l.target, ast.Tuple):
            iv = ctx.src(l.target.elts[0])
            for c in ast.walk(l):
                if isinstance(c, ast.Call) and isinstance(c.func, ast.Attribute) and c.func.attr == "append" and c.args and ctx.src(c.args[0]) == iv and isinstance(c.func.value, ast.Name):
                    IDX.add(c.func.value.id)
    for call, n in _cancel_nodes(ctx, nf):
        recs = [x for x in cfg.nodes for c in cfg.calls_at(x) if isinstance(c.func, ast.Attribute) and c.func.attr == "append" and ctx.src(c.func.value) in IDX]
        r.check(bool(recs) and _must_pass(ctx, nf, n, recs), "node: the canceled entry's index is recorded for removal", key_of(nf, "cancel index recorded"), nf.loc(call),
                "a canceled entry stays in _queued_jobs (its blockers were emptied, so the next poll starts it)", "its command is never started")
    pops = [l for l in iter_own(nf.node) if isinstance(l, ast.For) and any(ctx.src(l.iter) == f"reversed({x})" for x in IDX) and f"self._queued_jobs.pop({ctx.src(l.target)})" in ctx.src(l)]
    r.check(bool(pops), "node: recorded indices are popped in reverse order", key_of(nf, "pop canceled"), nf.loc(), "canceled entries are not removed from the queue")
    # cancel precedes nothing that could run it: run() of the entry is not called in _check_completions
    r.check(not ctx.sites(nf, short="JobQueue._run_job"), "_check_completions never starts entries", key_of(nf, "starts entries"), nf.loc(), "_check_completions starts queue entries")


@rule(P, "C04.6", "T1+T11", "unflagged jobs are unblocked whatever the outcome of their blockers", min_obligations=2)
def c04_6(ctx, r):
    """Partial evaluation over the finite abstraction {flag unset} x {has remaining blockers}: with the
    FLAG atom fixed to False and HAS_BLOCKERS to True, every path of one iteration reaches the blocker
    removal, whichever way the tests on the failed set / return codes go (membership of the completed name
    in the entry's blocking set is the only other condition allowed to skip it)."""
    for spec, removal in ((SUB, "difference_update"), (NODE, "remove_blocking_job")):
        fn = ctx.fn(spec, "C04.6")
        cfg = ctx.cfg(fn)
        rems = [(n, c) for n in cfg.nodes for c in cfg.calls_at(n) if isinstance(c.func, ast.Attribute) and c.func.attr == removal]
        if not rems:
            r.bad(key_of(fn, "no blocker removal"), fn.loc(), f"{fn.short} never removes finished blockers (`{removal}`): every dependent job stays blocked for ever", "A job without the flag is started once its blockers have outcomes")
            continue
        rem_ids = {n.id for n, _ in rems}
        n0, c0 = rems[0]
        loops = ctx.enclosing(fn, c0, (ast.For,))
        head = [x for x in cfg.nodes if x.kind == "for" and x.ast is loops[0]][0]
        # explore one iteration with FLAG=False, HAS_BLOCKERS=True; stop at the removal
        bad_path = None
        npaths = 0
        stack = [(d, ((head, "iter", None),)) for d, k, _ in head.succ if k == "iter"]
        seen = set()
        while stack:
            cur, path = stack.pop()
            if cur.id in rem_ids:
                npaths += 1
                continue
            if cur is head or cur is cfg.exit:
                npaths += 1
                bad_path = path
                continue
            if (cur.id, len(path) > 60) in seen and len(path) > 60:
                continue
            if any(cur is p[0] for p in path):
                continue
            for d, k, cc in cur.succ:
                if k not in NORMAL_KINDS:
                    continue
                if k in ("T", "F") and cc is not None:
                    form, pol = norm(ctx, fn, cc, cur, pol=(k == "T"))
                    tok = _abstract(form)
                    if tok == "FLAG" and pol is True:
                        continue  # flag is unset
                    if tok == "HAS_BLOCKERS" and pol is False:
                        continue  # the job has remaining blockers
                    if pol is False and (re.search(r" in call:AsyncJobInterface\.get_blocking_jobs\(\)@\w+$", form) or re.search(r" in \w+\.get_blocking_jobs\(\)$", form)
                                         or (re.search(r" in (\w+)$", form) and _is_blockers_alias(ctx, fn, cur, re.search(r" in (\w+)$", form).group(1)))):
                        continue  # the completed name is one of its blockers
                stack.append((d, path + ((cur, k, cc),)))
        ctx.counters["paths"] += npaths
        desc = ""
        if bad_path is not None:
            conds = [("" if kk == "T" else "not ") + ctx.src(cc) for nn, kk, cc in bad_path if kk in ("T", "F") and cc is not None]
            desc = " and ".join(conds)
        r.check(bad_path is None and npaths > 0, f"{fn.short}: with the flag unset every path of an iteration reaches the blocker removal", key_of(fn, "unflagged job not unblocked on a path"), fn.loc(c0),
                f"with cancel_on_blocking_job_failure unset and blockers remaining, the iteration can end without removing finished blockers (path: {desc}): an unflagged job whose blocker failed stays blocked for ever",
                "A job without the flag is started once its blockers have outcomes, whatever those outcomes are", paths=npaths)


@rule(P, "C04.7", "T8", "every collected result reaches the submitter's failure scan (rows of all node files, accumulated over all passes)", min_obligations=5)
def c04_7(ctx, r):
    from .c08 import c08_5

    c08_5(ctx, r)


@rule(P, "C04.8", "T8", "the submitter's job table carries each job's cancel flag and blockers from the configuration", min_obligations=6)
def c04_8(ctx, r):
    from .c09 import c09_7

    c09_7(ctx, r)


@rule(P, "C04.9", "T2", "every pass that consumed results scans the waiting jobs: nothing leaves the pass between the two", min_obligations=1)
def c04_9(ctx, r):
    """_update_completed_jobs consumes newly collected results (they are handed out once) and then scans the not-submitted jobs to cancel the
    flagged dependents of failed jobs and to release the others.  A `break` / `return` between the consumption and the scan (for a canceled
    submission, say: `cancel-jobs` runs a final round exactly to settle such jobs) drops the failures it just consumed: the flagged dependents
    never get their 'canceled' record and the unflagged ones are never released."""
    fn = ctx.fn(SUB, "C04.9")
    cfg = ctx.cfg(fn)
    consume = [lp for lp in iter_own(fn.node) if isinstance(lp, ast.For) and any(isinstance(c, ast.Call) and isinstance(c.func, ast.Attribute) and c.func.attr == "process_results" for c in ast.walk(lp.iter))]
    scans = []
    for lp in iter_own(fn.node):
        if isinstance(lp, ast.For) and isinstance(lp.iter, ast.Call):
            s = ctx.cg.site_of(fn, lp.iter)
            if s is not None and s.calls_short(ctx.ix, "Cluster.iter_jobs"):
                scans.append(lp)
    if len(consume) != 1 or not scans:
        raise AnalysisError("C04.9", f"{len(consume)} consuming loops and {len(scans)} scans in _update_completed_jobs")
    heads = [n for lp in scans for n in cfg.nodes if n.kind in ("loop", "for", "test", "stmt") and n.ast is lp]
    chead = [n for n in cfg.nodes if n.ast is consume[0]]
    if not heads or not chead:
        heads = [n for lp in scans for n in cfg.nodes_of(lp.iter)]
        chead = cfg.nodes_of(consume[0].iter)
    if not heads or not chead:
        raise AnalysisError("C04.9", "loop heads not found in the CFG")
    for c in chead:
        r.check(always_followed_by(ctx, fn, c, heads, kinds=NORMAL_KINDS), "the scan follows the consumption on every normal path", key_of(fn, "pass left between consumption and scan"), fn.loc(consume[0]),
                "_update_completed_jobs can leave the pass (break / return / continue) after it consumed this round's results and before it scanned the waiting jobs: failures consumed on that path never cancel "
                "their flagged dependents, and finished blockers are never removed from the others", "once a job has failed ... every not-yet-submitted dependent flagged cancel-on-failure is recorded as canceled")


@rule(P, "C04.10", "T6", "a live handle's job status is never re-read from disk between a round's in-memory changes and their write", min_obligations=2)
def c04_10(ctx, r):
    """The round removes finished blockers from the cluster's job records *in memory* (_update_completed_jobs) and persists them with the status
    update at the end.  Cluster._deserialize_jobs replaces self._job_status wholesale; it belongs to the load path (Cluster._deserialize) and to
    the explicit public reload.  Called from an update it silently throws the round's removals away - a dependent whose blocker's result was
    collected while max-nodes was full is never released."""
    dj = ctx.fn("Cluster._deserialize_jobs", "C04.10")
    allowed = {"Cluster._deserialize", "Cluster.deserialize_jobs"}
    n = 0
    for s in ctx.cg.call_sites_of(dj.qual):
        n += 1
        r.check(s.fn.short in allowed, f"{s.fn.short} may reload the job status", key_of(s.fn, "reloads job status from disk"), s.loc,
                f"{s.fn.short} re-reads job_status.json into a live handle: in-memory changes made by the round so far (finished blockers removed, states set) are discarded before they were written",
                "a dependent not flagged that way still starts once all its blockers have an outcome")
    pub = ctx.fn("Cluster.deserialize_jobs", "C04.10")
    for s in ctx.cg.call_sites_of(pub.qual):
        n += 1
        ok = s.fn.short not in ("HpcSubmitter.run", "HpcSubmitter._update_completed_jobs", "HpcSubmitter._update_status", "HpcSubmitter._submit_batches", "HpcSubmitter._make_batch")
        r.check(ok, f"{s.fn.short} is not part of a submitter round", key_of(s.fn, "round reloads job status"), s.loc, f"{s.fn.short} reloads the job status in the middle of a submitter round", "a dependent ... still starts")
    if n < 2:
        raise AnalysisError("C04.10", f"{n} reload call sites found")


@rule(P, "C04.11", "T14", "the start scan looks at every queued entry: a blocked entry at the head cannot hide a runnable one behind it", min_obligations=2)
def c04_11(ctx, r):
    """JobQueue.process_queue walks the queued entries, skips the blocked ones and starts the runnable ones until the free slots are used.  The
    blocker of a queued job can itself be queued *behind* it (configuration order, local mode).  If the walk is cut to a prefix of the queue
    (a slice by the number of free slots) or stops at the first blocked entry, the blocker is never started, so its dependent is neither
    canceled (flagged) nor ever started (unflagged)."""
    fn = ctx.fn("JobQueue.process_queue", "C04.11")
    cfg = ctx.cfg(fn)
    starts = [s for s in ctx.sites(fn, short="JobQueue._run_job")]
    if len(starts) != 1:
        raise AnalysisError("C04.11", f"{len(starts)} _run_job call sites in process_queue")
    loops = ctx.enclosing(fn, starts[0].node, (ast.For,))
    if not loops:
        raise AnalysisError("C04.11", "the start is not inside a scan loop")
    lp = loops[-1]
    it = lp.iter
    if isinstance(it, ast.Call) and ctx.src(it.func) in ("enumerate", "list", "iter") and it.args:
        it = it.args[0]
    whole = isinstance(it, ast.Attribute) and isinstance(it.value, ast.Name) and it.value.id == fn.params[0]
    r.check(whole, "the scan iterates the whole queue attribute", key_of(fn, "scan over part of the queue"), fn.loc(lp),
            f"the start scan iterates `{ctx.src(it)}`, not the whole queue: entries outside that part are not considered in this poll - a runnable blocker queued behind blocked entries is never started, "
            "its dependents are never canceled or started", "a dependent not flagged that way still starts once all its blockers have an outcome")
    # leaving the scan early: only once something was started in this iteration (break after the start), never on a blocked entry
    for p in iteration_paths(ctx, fn, lp, avoid=(), kinds=NORMAL_KINDS, cap=200, with_path=True):
        kind, path = p[0], [x[0] for x in p[3]]
        if kind != "leave":
            continue
        started = any(any(c is starts[0].node for c in cfg.calls_at(n)) for n in path)
        exhausted = not any(n.kind == "stmt" and isinstance(n.ast, (ast.Break, ast.Return)) for n in path)
        r.check(started or exhausted, "the scan is left early only after a start", key_of(fn, "scan left on a skipped entry"), fn.loc(lp),
                "process_queue can leave the scan on an entry it did not start (a blocked one): runnable entries behind it are not started in this poll, and if the blocker is among them, never",
                "a dependent not flagged that way still starts once all its blockers have an outcome")


@rule(P, "C04.12", "T6", "the job table is changed only by the named Cluster operations, field by field (a record is never replaced by a fresh one that lost its cancel flag)", min_obligations=20)
def c04_12(ctx, r):
    """cancel_on_blocking_job_failure lives in each Job record of job_status.json; the submitter-side cancel decision reads it there.  The
    resubmission reset must reset state / blockers of the existing records; replacing a record by a new Job(...) drops the flag to its default,
    and after `resubmit-jobs` a flagged dependent of a job that fails again is handed to a node."""
    from .c09 import c09_1

    c09_1(ctx, r)

"""C01 - each job is handed to the HPC in exactly one batch and started at most once."""

import ast

from .. import AnalysisError
from ..cfg import ALL_KINDS, NORMAL_KINDS, iter_own
from ..guards import canon
from ..lib import (
    both_orders,
    always_followed_by,
    attr_stores,
    dominated_by,
    guard_forms,
    key_of,
    norm,
    render,
    return_conditions,
    type_is,
)
from ..report import describe, rule
from .common import ROLE_SITES, report_role

P = "C01"

describe(
    P,
    "Decides the mechanisms that make 'at most one batch per job' hold for every DAG, parameter set and interleaving: only a "
    "promoted handle reaches a mutating call (typestate over the five role-holding commands); a placed job flows, along an "
    "explicit chain of value-flow hops, into the locked status update that marks it submitted and serialises before the role "
    "is released; candidates are drawn only from not-submitted jobs; inside batch construction a job is appended only if not "
    "yet placed in this call and every placement is recorded; the remainder handed to the next batch of the same round is "
    "disjoint from the jobs just placed; batch identifiers are read-then-incremented and persisted; a queue entry is started "
    "or queued, never both, and every started entry leaves the queue; a constructed batch is always handed off."
    " Every file written for a batch (config, run script, job name, singularity wrapper) is named from that batch's own suffix / run script; the crashed-round marker is removed only after the persisted status update.",
    [
        "the scheduler runs a handed-off script once",
        "role exclusivity given the lock library is C10",
    ],
    "that every job is eventually placed (progress is C05); interleavings of submitter rounds beyond role exclusivity; "
    "what the scheduler does with a hand-off.",
)

HS = "HpcSubmitter"


@rule(P, "C01.1", "T5", "only a promoted handle reaches a mutating call", min_obligations=6)
def c01_1(ctx, r):
    report_role(ctx, r, ROLE_SITES, {"mutate"}, "however many nodes act as submitter ... every job of the configuration is placed into at most one batch")


def _try_append_test(ctx, fn):
    """The CFG test node `batch.try_append(x)` in _make_batch."""
    ss = ctx.sites(fn, short="_BatchJobs.try_append")
    if len(ss) != 1:
        raise AnalysisError("C01", f"expected one try_append call in {fn.short}, found {len(ss)}")
    nodes = [n for n in ctx.nodes_of(fn, ss[0].node) if n.kind == "test"]
    if len(nodes) != 1:
        raise AnalysisError("C01", f"try_append is not used as a branch condition in {fn.short}")
    return ss[0], nodes[0]


def _placed_set(ctx, fn, ta_node):
    """Local set that records placed names: X.add(job.name) on the try_append-True branch."""
    cfg = ctx.cfg(fn)
    out = []
    for n in cfg.nodes:
        for c in cfg.calls_at(n):
            if isinstance(c.func, ast.Attribute) and c.func.attr == "add" and isinstance(c.func.value, ast.Name) and len(c.args) == 1 and ctx.src(c.args[0]).endswith(".name"):
                forms = guard_forms(ctx, fn, n)
                if any(p and f.startswith("call:_BatchJobs.try_append(") for f, p in forms):
                    out.append((c.func.value.id, n, c))
    return out


@rule(P, "C01.2", "T8+T2", "placed => persisted as submitted before the role is released (value-flow chain)", min_obligations=9)
def c01_2(ctx, r):
    mb = ctx.fn(f"{HS}._make_batch", "C01.2")
    site, ta = _try_append_test(ctx, mb)
    cfg = ctx.cfg(mb)
    # hop 1: try_append True -> PARAM.append(job)
    param = None
    app_nodes = []
    for n in cfg.nodes:
        for c in cfg.calls_at(n):
            if isinstance(c.func, ast.Attribute) and c.func.attr == "append" and isinstance(c.func.value, ast.Name) and c.func.value.id in mb.params:
                forms = guard_forms(ctx, mb, n)
                if any(p and f.startswith("call:_BatchJobs.try_append(") for f, p in forms):
                    param = c.func.value.id
                    app_nodes.append(n)
                    loops = ctx.enclosing(mb, c, (ast.For,))
                    tgt = loops[0].target if loops else None
                    names = [e.id for e in ast.walk(tgt) if isinstance(e, ast.Name)] if tgt is not None else []
                    r.check(isinstance(c.args[0], ast.Name) and c.args[0].id in names, "the status job appended is the loop's candidate", key_of(mb, "append placed job"), mb.loc(c),
                            f"{ctx.src(c)} does not append the candidate job of this iteration")
    if param is None:
        r.bad(key_of(mb, "placed job not recorded"), mb.loc(site.node),
              "on the try_append()==True branch the placed job is not appended to any parameter list of _make_batch: it stays not_submitted on disk and the next round batches it again",
              "places every job of the configuration into at most one batch")
        return
    tsucc = [d for d, k, _ in ta.succ if k == "T"]
    ok = all(_must_pass(ctx, mb, d, app_nodes) for d in tsucc)
    r.check(ok, "every path from try_append()==True records the job before the next candidate", key_of(mb, "append on every True path"), mb.loc(site.node),
            "a path from try_append()==True reaches the next iteration / the exit without appending the job to the submitted list")
    # hop 2: _submit_batches passes one list object to every _make_batch call and extends its own parameter with it
    sb = ctx.fn(f"{HS}._submit_batches", "C01.2")
    local = None
    for s in ctx.some_sites(sb, "C01.2", short=f"{HS}._make_batch"):
        a = ctx.arg_for(s, mb, param)
        if not isinstance(a, ast.Name):
            raise AnalysisError("C01.2", f"{s.loc}: argument for {param} is not a plain name")
        local = a.id
        for n in ctx.nodes_of(sb, s.node):
            ud = ctx.rd(sb).unique_def(n, local)
            r.check(ud is not None and isinstance(ud[1], ast.List) and not ud[1].elts and not ctx.cfg(sb).in_loop(ud[0]),
                    "one list, created once per _submit_batches call, collects the placed jobs of all its batches", key_of(sb, "placed list identity"), s.loc,
                    f"the list passed to _make_batch as {param} is re-created or rebound between batches: placed jobs are forgotten")
    sbparam = None
    ext_nodes = []
    cfg_sb = ctx.cfg(sb)
    for n in cfg_sb.nodes:
        for c in cfg_sb.calls_at(n):
            if isinstance(c.func, ast.Attribute) and c.func.attr in ("extend", "__iadd__") and isinstance(c.func.value, ast.Name) and c.func.value.id in sb.params and c.args and isinstance(c.args[0], ast.Name) and c.args[0].id == local:
                sbparam = c.func.value.id
                ext_nodes.append(n)
        if n.kind == "stmt" and isinstance(n.ast, ast.AugAssign) and isinstance(n.ast.target, ast.Name) and n.ast.target.id in sb.params and isinstance(n.ast.value, ast.Name) and n.ast.value.id == local:
            sbparam = n.ast.target.id
            ext_nodes.append(n)
    if not ext_nodes:
        r.bad(key_of(sb, "placed jobs not propagated"), sb.loc(), f"_submit_batches never extends a parameter with {local}: placed jobs never reach the status update",
              "places every job of the configuration into at most one batch")
        return
    r.check(_must_pass(ctx, sb, cfg_sb.entry, ext_nodes), f"{sbparam}.extend({local}) on every normal path of _submit_batches", key_of(sb, "extend on every path"), sb.loc(ext_nodes[0].stmt),
            "a normal path through _submit_batches returns without adding the placed jobs to the caller's list")
    # hop 3: run passes the same variable to _submit_batches and to _update_status
    run = ctx.fn(f"{HS}.run", "C01.2")
    us = ctx.fn(f"{HS}._update_status", "C01.2")
    v1 = {ctx.src(ctx.arg_for(s, sb, sbparam)) for s in ctx.some_sites(run, "C01.2", short=f"{HS}._submit_batches")}
    v2 = set()
    for s in ctx.some_sites(run, "C01.2", short=f"{HS}._update_status"):
        a = ctx.arg_for(s, us, "submitted_jobs")
        v2.add(ctx.src(a) if a is not None else None)
        if isinstance(a, ast.Name):
            for n in ctx.nodes_of(run, s.node):
                defs = ctx.rd(run).reaching(n, a.id)
                r.check(len(defs) == 1, "the list given to _update_status is the one filled by _submit_batches (single definition)", key_of(run, "submitted list rebinding"), s.loc,
                        f"`{a.id}` is rebound between _submit_batches and _update_status")
    r.check(len(v1) == 1 and v1 == v2, "run passes the same list to _submit_batches and _update_status", key_of(run, "submitted list identity"), run.loc(),
            f"_submit_batches fills {sorted(v1)} but _update_status receives {sorted(map(str, v2))}: placed jobs are never marked submitted")
    # the status update is reached on every normal path after the submission loop, before the marker is removed (C11.3)
    # hop 4: _update_status forwards; the call is reached whenever submitted_jobs is non-empty
    ujs = ctx.fn("Cluster.update_job_status", "C01.2")
    cfg_us = ctx.cfg(us)
    calls = ctx.some_sites(us, "C01.2", short="Cluster.update_job_status")
    for s in calls:
        a = ctx.arg_for(s, ujs, "submitted_jobs")
        r.check(isinstance(a, ast.Name) and a.id == "submitted_jobs", "_update_status forwards submitted_jobs", key_of(us, "forward submitted_jobs"), s.loc,
                f"update_job_status receives {ctx.src(a) if a is not None else None} as submitted_jobs")
    call_nodes = [n for s in calls for n in ctx.nodes_of(us, s.node)]
    seen = set()
    stack = [cfg_us.entry]
    while stack:
        n = stack.pop()
        if n.id in seen or n in call_nodes:
            continue
        seen.add(n.id)
        for d, k, c in n.succ:
            if k not in NORMAL_KINDS:
                continue
            if k == "F" and isinstance(c, ast.Name) and c.id == "submitted_jobs":
                continue
            stack.append(d)
    r.check(cfg_us.exit.id not in seen, "update_job_status is called whenever submitted_jobs is non-empty", key_of(us, "update skipped with placed jobs"), us.loc(),
            "_update_status can return without calling update_job_status although jobs were placed: they stay not_submitted on disk and are batched again")
    # hop 5: wrapper -> _update_job_status(submitted_jobs)
    iujs = ctx.fn("Cluster._update_job_status", "C01.2")
    ws = [s for s in ctx.cg.sites_in(ujs) if s.via_wrapper and iujs.qual in s.wrapped]
    if not ws:
        r.bad(key_of(ujs, "wrapper"), ujs.loc(), "update_job_status does not call _update_job_status through the lock wrapper")
        return
    for s in ws:
        a = ctx.arg_for(s, iujs, "submitted_jobs")
        r.check(isinstance(a, ast.Name) and a.id == "submitted_jobs", "the wrapper forwards submitted_jobs in position", key_of(ujs, "wrapper arg"), s.loc,
                f"_update_job_status receives {ctx.src(a) if a is not None else None} as submitted_jobs (argument order changed?)")
    # hop 6: marks SUBMITTED (C09.2) and serialises job status on every normal path
    loops = [n for n in iter_own(iujs.node) if isinstance(n, ast.For) and isinstance(n.iter, ast.Name) and n.iter.id == "submitted_jobs"]
    ok = bool(loops) and any(isinstance(st, ast.Assign) and ctx.src(st.value) == "JobState.SUBMITTED" for st in loops[0].body)
    r.check(ok, "_update_job_status marks every element of submitted_jobs SUBMITTED", key_of(iujs, "mark submitted"), iujs.loc(), "_update_job_status does not set state=SUBMITTED for each submitted job")
    r.check(ctx.must(iujs, "SERIALIZE_JOBS"), "_update_job_status serialises the job status on every normal path", key_of(iujs, "serialize jobs"), iujs.loc(),
            "_update_job_status can return without _serialize_jobs: submitted states are not persisted")


def _must_pass(ctx, fn, start, targets, kinds=NORMAL_KINDS):
    """Every path from `start` (inclusive) to the function exit or back to an enclosing loop head of
    start passes a target node."""
    cfg = ctx.cfg(fn)
    tids = {t.id for t in targets}
    seen = set()
    stack = [start]
    while stack:
        n = stack.pop()
        if n.id in seen:
            continue
        seen.add(n.id)
        if n.id in tids:
            continue
        if n is cfg.exit:
            return False
        if n.kind == "for" and n is not start and n.id not in tids:
            # reaching a loop head that dominates `start` = next iteration without the target
            if dominated_by(ctx, fn, start, [n], kinds):
                return False
        stack.extend(d for d, k, _ in n.succ if k in kinds)
    return True


def candidate_collections(ctx, fn, rid):
    """How a _get_available_jobs* function collects candidates. Supports the loop form
    (`for job in cluster.iter_jobs(state=...): ... X.append(job)`) and the comprehension form
    (`[job for job in cluster.iter_jobs(state=...) if ...]`). Returns a list of dicts:
    iter (Call), state (expr or None), conds (set of (form, pol)) under which an element is collected,
    elem_ok (the collected element is / derives from the loop variable), at (node for locations)."""
    it = ctx.ix.find_func("Cluster.iter_jobs")
    out = []
    # comprehension form
    for n in iter_own(fn.node):
        if isinstance(n, (ast.ListComp, ast.GeneratorExp, ast.SetComp, ast.DictComp)) and len(n.generators) == 1:
            g = n.generators[0]
            s = ctx.cg.site_of(fn, g.iter) if isinstance(g.iter, ast.Call) else None
            if s is not None and s.calls_short(ctx.ix, "Cluster.iter_jobs"):
                conds = set()
                for c in g.ifs:
                    conds |= both_orders([norm(ctx, fn, c, None)])
                elt = n.value if isinstance(n, ast.DictComp) else n.elt
                names = {x.id for x in ast.walk(elt) if isinstance(x, ast.Name)}
                tv = {x.id for x in ast.walk(g.target) if isinstance(x, ast.Name)}
                out.append({"iter": g.iter, "state": ctx.arg_for(s, it, "state"), "conds": conds, "elem_ok": bool(names & tv), "at": n, "form": "comprehension"})
    # loop form
    for lp in [n for n in iter_own(fn.node) if isinstance(n, ast.For)]:
        s = ctx.cg.site_of(fn, lp.iter) if isinstance(lp.iter, ast.Call) else None
        if s is None or not s.calls_short(ctx.ix, "Cluster.iter_jobs"):
            continue
        lpvar = lp.target.id if isinstance(lp.target, ast.Name) else None
        cfg = ctx.cfg(fn)
        ins_nodes = []
        for cn in cfg.nodes:
            if not any(l is lp for l in ctx.enclosing(fn, cn.stmt, (ast.For,))):
                continue
            calls = [c for c in cfg.calls_at(cn) if isinstance(c.func, ast.Attribute) and c.func.attr in ("append", "add", "extend", "insert")]
            sub = cn.kind == "stmt" and isinstance(cn.ast, ast.Assign) and isinstance(cn.ast.targets[0], ast.Subscript)
            if calls or sub:
                ins_nodes.append(cn)
        for cn in ins_nodes:
            names = {x.id for x in ast.walk(cn.stmt) if isinstance(x, ast.Name) and isinstance(x.ctx, ast.Load)}
            out.append({"iter": lp.iter, "state": ctx.arg_for(s, it, "state"), "conds": guard_forms(ctx, fn, cn), "elem_ok": lpvar in names, "at": cn.stmt, "form": "loop"})
        if not ins_nodes:
            out.append({"iter": lp.iter, "state": ctx.arg_for(s, it, "state"), "conds": set(), "elem_ok": False, "at": lp, "form": "loop-without-collection"})
    if not out:
        raise AnalysisError(rid, f"{fn.short}: no loop or comprehension over Cluster.iter_jobs")
    return out


@rule(P, "C01.3", "T1+T13", "batch candidates are drawn only from not-submitted jobs", min_obligations=5)
def c01_3(ctx, r):
    it = ctx.fn("Cluster.iter_jobs", "C01.3")
    for spec in (f"{HS}._get_available_jobs", f"{HS}._get_available_jobs_by_time"):
        fn = ctx.fn(spec, "C01.3")
        for cc in candidate_collections(ctx, fn, "C01.3"):
            a = cc["state"]
            r.check(a is not None and ctx.src(a) == "JobState.NOT_SUBMITTED", f"{fn.short}: candidates = iter_jobs(state=NOT_SUBMITTED)", key_of(fn, "candidate state filter"), fn.loc(cc["at"]),
                    f"batch candidates are drawn with state={ctx.src(a) if a is not None else None}: submitted / done jobs are batched again",
                    "places every job of the configuration into at most one batch")
            r.check(cc["elem_ok"], f"{fn.short}: only loop candidates are collected", key_of(fn, f"collect {ctx.src(cc['at'])[:40]}"), fn.loc(cc["at"]),
                    f"`{ctx.src(cc['at'])[:60]}` adds something other than the current not-submitted candidate")
        # other insertions (outside a loop over iter_jobs) must not exist
        loops_ok = [n for n in iter_own(fn.node) if isinstance(n, ast.For) and isinstance(n.iter, ast.Call) and ctx.cg.site_of(fn, n.iter) is not None and ctx.cg.site_of(fn, n.iter).calls_short(ctx.ix, "Cluster.iter_jobs")]
        for n in iter_own(fn.node):
            if isinstance(n, ast.Call) and isinstance(n.func, ast.Attribute) and n.func.attr in ("append", "add", "extend", "insert"):
                inl = any(l in loops_ok for l in ctx.enclosing(fn, n, (ast.For,)))
                r.check(inl, f"{fn.short}: insertions happen only inside the candidate loop", key_of(fn, f"foreign insertion {ctx.src(n)[:40]}"), fn.loc(n), f"`{ctx.src(n)[:60]}` inserts outside the loop over not-submitted jobs")
    # iter_jobs yields a job only if state is None or job.state == state
    cfg = ctx.cfg(it)
    ys = [n for n in cfg.nodes if n.kind == "stmt" and any(isinstance(x, (ast.Yield, ast.YieldFrom)) for x in iter_own(n.ast))]
    if len(ys) != 1:
        raise AnalysisError("C01.3", f"Cluster.iter_jobs: expected one yield, found {len(ys)}")
    y = ys[0]
    bad = False
    npaths = 0
    for path in cfg.paths(kinds=NORMAL_KINDS, max_visits=1, cap=200, targets={y.id}):
        npaths += 1
        conds = set()
        for n, k, c in path:
            if k in ("T", "F") and c is not None:
                conds |= both_orders([norm(ctx, it, c, n, pol=(k == "T"))])
        if not (("state is None", True) in conds or ("<Job.state> == state", True) in conds):
            bad = True
    ctx.counters["paths"] += npaths
    r.check(not bad, "iter_jobs(state) yields only jobs in that state", key_of(it, "state filter"), it.loc(y.ast),
            "Cluster.iter_jobs can yield a job whose state differs from the requested one", "places every job of the configuration into at most one batch", paths=npaths)


@rule(P, "C01.4", "T1+T3", "within one batch construction a job is appended only if not yet placed, and every placement is recorded", min_obligations=3)
def c01_4(ctx, r):
    mb = ctx.fn(f"{HS}._make_batch", "C01.4")
    site, ta = _try_append_test(ctx, mb)
    placed = _placed_set(ctx, mb, ta)
    if not placed:
        r.bad(key_of(mb, "placements not recorded"), mb.loc(site.node), "no set records the names placed by this _make_batch call (X.add(job.name) on the try_append()==True branch): with several passes a job can be appended twice",
              "places every job of the configuration into at most one batch")
        return
    pname = placed[0][0]
    forms = guard_forms(ctx, mb, ta)
    ok = any((not p) and f.endswith(f".name in {pname}") for f, p in forms)
    r.check(ok, f"try_append is dominated by `job.name not in {pname}`", key_of(mb, "try_append without placed check"), mb.loc(site.node),
            f"try_append is reachable for a job already in {pname}: the job lands twice in the same batch", guards=sorted(("" if p else "not ") + f for f, p in forms))
    tsucc = [d for d, k, _ in ta.succ if k == "T"]
    okp = all(_must_pass(ctx, mb, d, [n for _, n, _ in placed]) for d in tsucc)
    r.check(okp, f"{pname}.add(job.name) on every path from try_append()==True", key_of(mb, "placement not recorded on a path"), mb.loc(site.node),
            f"a path from try_append()==True does not add the job to {pname}")
    ud = ctx.rd(mb).unique_def(ta, pname)
    r.check(ud is not None and not ctx.cfg(mb).in_loop(ud[0]) and ctx.src(ud[1]) in ("set()", "{}", "[]", "dict()"), f"{pname} starts empty, once per call", key_of(mb, "placed set init"), mb.loc(),
            f"{pname} is re-initialised inside the scan")


@rule(P, "C01.5", "T8", "the remainder handed to the next batch is disjoint from the jobs just placed", min_obligations=1)
def c01_5(ctx, r):
    mb = ctx.fn(f"{HS}._make_batch", "C01.5")
    site, ta = _try_append_test(ctx, mb)
    placed = _placed_set(ctx, mb, ta)
    pname = placed[0][0] if placed else None
    cfg = ctx.cfg(mb)
    rets = [n for n in cfg.nodes if n.kind == "stmt" and isinstance(n.ast, ast.Return)]
    if len(rets) != 1 or not isinstance(rets[0].ast.value, ast.Tuple) or len(rets[0].ast.value.elts) != 2:
        raise AnalysisError("C01.5", "_make_batch does not return (batch, remainder)")
    rem = rets[0].ast.value.elts[1]
    # candidate proofs
    defs = []
    if isinstance(rem, ast.Name):
        for d in ctx.rd(mb).reaching(rets[0], rem.id):
            defs.append(ctx.rd(mb).defs_at[d].get(rem.id))
    else:
        defs.append(rem)

    def filtered(e):
        if isinstance(e, (ast.List, ast.Tuple)) and not e.elts:
            return True
        if isinstance(e, ast.ListComp) and len(e.generators) == 1 and pname:
            g = e.generators[0]
            for cond in g.ifs:
                key, pol, _ = canon(cond)
                if key.endswith(f".name in {pname}") and pol is False:
                    return True
        if isinstance(e, ast.Call) and isinstance(e.func, ast.Name) and e.func.id == "list" and e.args:
            return filtered(e.args[0])
        return False

    proof_a = bool(defs) and all(isinstance(d, ast.AST) and filtered(d) for d in defs)
    # proof (a'): filtered on the way to the next call in _submit_batches
    sb = ctx.fn(f"{HS}._submit_batches", "C01.5")
    # proof (b): single pass
    multi = None
    for n in iter_own(mb.node):
        if isinstance(n, ast.For) and isinstance(n.iter, ast.Call) and isinstance(n.iter.func, ast.Name) and n.iter.func.id == "range":
            inner = [x for x in ast.walk(n) if isinstance(x, ast.For) and x is not n]
            if inner:
                arg = n.iter.args[0]
                nodes = cfg.nodes_of(n.iter)
                vals = set()
                if isinstance(arg, ast.Name) and nodes:
                    for d in ctx.rd(mb).reaching(nodes[0], arg.id):
                        v = ctx.rd(mb).defs_at[d].get(arg.id)
                        vals.add(ctx.src(v) if isinstance(v, ast.AST) else "?")
                else:
                    vals.add(ctx.src(arg))
                multi = vals != {"1"}
    regress = [n for n in iter_own(mb.node) if isinstance(n, ast.AugAssign) and isinstance(n.op, ast.Sub)]
    if proof_a:
        r.ok(f"remainder is empty or filtered by `name not in {pname}`", defs=[ctx.src(d)[:80] for d in defs])
    elif multi is False:
        r.ok("single-pass scan: the cursor only moves forward", note="proof (b)")
    elif multi is True and regress:
        r.bad(
            key_of(mb, "remainder may contain placed jobs"),
            mb.loc(rets[0].ast),
            f"the scan is multi-pass (max_iterations = {sorted(vals)}) and `{ctx.src(regress[0])}` can move the not-yet-checked cursor below an index placed in an earlier pass; "
            f"the remainder `{'; '.join(ctx.src(d)[:50] for d in defs if isinstance(d, ast.AST))}` is not filtered by {pname}: the next batch of the same round gets a job again "
            "(time-based batching x try-add-blocked x a blocked job sorted before its blocker: [B(3 min, blocked by A), A(5 min)], limit 7 min => batches [A], [A])",
            "places every job of the configuration into at most one batch",
        )
    else:
        raise AnalysisError("C01.5", "remainder computation has an unrecognised shape")


@rule(P, "C01.6", "T8+T3", "batch identifiers are fresh: read-then-increment, initialised from and persisted to the job status", min_obligations=6)
def c01_6(ctx, r):
    mk = ctx.fn(f"{HS}._make_async_submitter", "C01.6")
    cfg = ctx.cfg(mk)
    reads = [n for n in cfg.nodes if n.kind == "stmt" and not isinstance(n.ast, ast.AugAssign) and any(isinstance(x, ast.Attribute) and x.attr == "_batch_index" and isinstance(x.ctx, ast.Load) for x in iter_own(n.ast))]
    incs = [n for n in cfg.nodes if n.kind == "stmt" and isinstance(n.ast, ast.AugAssign) and ctx.src(n.ast.target) == "self._batch_index"]
    if not reads:
        raise AnalysisError("C01.6", "_make_async_submitter no longer reads self._batch_index")
    ok_inc = len(incs) == 1 and isinstance(incs[0].ast.op, ast.Add) and isinstance(incs[0].ast.value, ast.Constant) and incs[0].ast.value.value == 1
    r.check(ok_inc, "exactly one `self._batch_index += 1`", key_of(mk, "batch index increment"), mk.loc(),
            f"_make_async_submitter has {len(incs)} increments of the batch index: two batches of one round get the same config_batch_N.json / run_batch_N.sh",
            "never reuses a batch identifier")
    if ok_inc:
        pd = ctx.pdom(mk)
        r.check(incs[0].id in pd.get(cfg.entry.id, set()) and not cfg.in_loop(incs[0]), "the increment is on every normal path, once", key_of(mk, "increment on every path"), mk.loc(incs[0].ast),
                "a path through _make_async_submitter does not increment the batch index")
        # all uses of the index for naming are consistent: the suffix is built once
        sfx = [n for n in reads if isinstance(n.ast, ast.Assign)]
        r.check(len(sfx) == 1 and len(reads) == 1, "the index is read once (one suffix for config, script and job name)", key_of(mk, "index read once"), mk.loc(),
                f"self._batch_index is read in {len(reads)} statements: file names of one batch can disagree")
    # writers of _batch_index
    for fn, node, attr, t, kind in attr_stores(ctx, {"_batch_index"}):
        if fn.short == f"{HS}.__init__":
            st = ctx.stmt_of(fn, node)
            v = render(ctx, fn, st.value) if isinstance(st, ast.Assign) else None
            r.check(v == "<JobStatus.batch_index>", "initialised from the persisted JobStatus.batch_index", key_of(fn, "batch index init"), fn.loc(node),
                    f"HpcSubmitter starts numbering at {ctx.src(st.value) if isinstance(st, ast.Assign) else kind}: a later round reuses config_batch_N.json of an earlier one",
                    "never reuses a batch identifier")
        elif fn is mk:
            pass
        else:
            r.bad(key_of(fn, "writes _batch_index"), fn.loc(node), f"{fn.short} writes HpcSubmitter._batch_index", "never reuses a batch identifier")
    # persisted: _update_status passes it; _update_job_status stores it before serialising
    us = ctx.fn(f"{HS}._update_status", "C01.6")
    ujs = ctx.fn("Cluster.update_job_status", "C01.6")
    for s in ctx.some_sites(us, "C01.6", short="Cluster.update_job_status"):
        a = ctx.arg_for(s, ujs, "batch_index")
        r.check(a is not None and ctx.src(a) == "self._batch_index", "the next index is handed to the status update", key_of(us, "pass batch index"), s.loc,
                f"update_job_status receives batch_index={ctx.src(a) if a is not None else None}")
    iujs = ctx.fn("Cluster._update_job_status", "C01.6")
    for s in [s for s in ctx.cg.sites_in(ujs) if s.via_wrapper and iujs.qual in s.wrapped]:
        a = ctx.arg_for(s, iujs, "batch_index")
        r.check(isinstance(a, ast.Name) and a.id == "batch_index", "the wrapper forwards batch_index in position", key_of(ujs, "wrapper batch_index"), s.loc,
                f"_update_job_status receives {ctx.src(a) if a is not None else None} as batch_index")
    cfg2 = ctx.cfg(iujs)
    st = [n for n in cfg2.nodes if n.kind == "stmt" and isinstance(n.ast, ast.Assign) and ctx.src(n.ast.targets[0]).endswith("_job_status.batch_index") and ctx.src(n.ast.value) == "batch_index"]
    sj = ctx.nodes_with_effect(iujs, "SERIALIZE_JOBS")
    r.check(bool(st) and all(dominated_by(ctx, iujs, s2, st) for s2 in sj) and all(not guard_forms(ctx, iujs, n) for n in st), "JobStatus.batch_index is stored unconditionally before the job status is serialised", key_of(iujs, "store batch index"), iujs.loc(),
            "the next batch index is not stored (unconditionally, before _serialize_jobs): the next round restarts at a used index",
            "never reuses a batch identifier")
    # every file written for a batch is named from the batch's own suffix / run script (a name shared by two batches is
    # overwritten while the first batch is still queued: its HPC job then runs the other batch's jobs)
    def _mentions(fn, expr, at, pred, depth=4):
        """expr, or the unique definition of a local it reads (transitively), contains a node satisfying pred."""
        seen, work = set(), [(expr, at)]
        for _ in range(depth * 8):
            if not work:
                break
            e, where = work.pop()
            if any(pred(x) for x in ast.walk(e)):
                return True
            for x in ast.walk(e):
                if isinstance(x, ast.Name) and x.id not in seen and x.id != "self":
                    seen.add(x.id)
                    ud = ctx.rd(fn).unique_def(where, x.id)
                    if ud is not None and isinstance(ud[1], ast.AST):
                        work.append((ud[1], ud[0]))
        return False

    # role: the suffix local = the single assignment whose value reads self._batch_index
    SUF = sfx[0].ast.targets[0].id if ok_inc and len(sfx) == 1 and isinstance(sfx[0].ast.targets[0], ast.Name) else None
    if SUF is None:
        raise AnalysisError("C01.6", "the batch suffix local (the one statement reading self._batch_index) was not recognised")
    is_suffix = lambda x: isinstance(x, ast.Name) and x.id == SUF
    nfile = 0
    nfile_inline = []
    ahs_cls = ctx.cls("AsyncHpcSubmitter", "C01.6")
    ainit = ahs_cls.methods["__init__"]
    NAMEV = None
    for s9 in [x for x in ctx.cg.sites_in(mk) if x.constructs == ahs_cls.qual]:
        a9 = ctx.arg_for(s9, ainit, "name")
        NAMEV = a9.id if isinstance(a9, ast.Name) else None
        if a9 is not None and NAMEV is None:
            # the name is computed in the constructor call itself
            for n9 in ctx.nodes_of(mk, s9.node):
                nfile_inline.append(1)
                r.check(_mentions(mk, a9, n9, is_suffix), "the HPC job name carries this batch's suffix", key_of(mk, "job name without the batch suffix"), mk.loc(s9.node),
                        f"`name={ctx.src(a9)}`: two batches get the same job name, hence the same <name>.sh submission script", "never reuses a batch identifier")
    for n in cfg.nodes:
        for c in cfg.calls_at(n):
            fname = ctx.src(c.func).split(".")[-1]
            tgt = c.args[1] if fname == "dump_data" and len(c.args) > 1 else c.args[1] if fname == "_create_run_script" and len(c.args) > 1 else None
            if tgt is None:
                continue
            nfile += 1
            r.check(_mentions(mk, tgt, n, is_suffix), f"{fname}: the file name carries this batch's suffix", key_of(mk, f"{fname} target without the batch suffix"), mk.loc(c),
                    f"`{ctx.src(tgt)}` does not depend on the batch suffix: two batches write the same file", "never reuses a batch identifier")
            # ... and lies in this submission's directory, not in whatever directory the process runs in
            from ..lib import inline_locals, keeps_directory_of

            full = inline_locals(ctx, mk, tgt, n, depth=4)
            keeps, occ = keeps_directory_of(full, lambda x: isinstance(x, ast.Attribute) and isinstance(x.value, ast.Name) and x.value.id == mk.params[0] and x.attr in ("_config_file", "_output"))
            r.check(occ > 0 and keeps, f"{fname}: the per-batch file lies in the submission's directory", key_of(mk, f"{fname} target relative to the working directory"), mk.loc(c),
                    f"`{ctx.src(full)}` is built from the *name* of the submission's config file only: the per-batch file is written (and referenced by the run script) relative to the working directory, so two "
                    "submissions started from one directory share config_batch_<n>.json - the later one replaces the job list of the earlier one's queued batches, whose jobs then run twice or never",
                    "never starts a job's command more than once")
        if n.kind == "stmt" and isinstance(n.ast, ast.Assign) and NAMEV and ctx.src(n.ast.targets[0]) == NAMEV:
            nfile += 1
            r.check(_mentions(mk, n.ast.value, n, is_suffix), "the HPC job name carries this batch's suffix", key_of(mk, "job name without the batch suffix"), mk.loc(n.ast),
                    f"`{ctx.src(n.ast)}`: two batches get the same job name, hence the same <name>.sh submission script", "never reuses a batch identifier")
    nfile += len(nfile_inline)
    if nfile < 3:
        raise AnalysisError("C01.6", f"only {nfile} per-batch names recognised in _make_async_submitter (config file, run script, job name)")
    sg = ctx.fn("AsyncHpcSubmitter._make_singularity_command", "C01.6")
    cfgs = ctx.cfg(sg)
    per_batch = lambda x: isinstance(x, ast.Attribute) and x.attr in ("name", "stem") and ctx.src(x.value) == "self._run_script" or isinstance(x, ast.Attribute) and ctx.src(x) == "self._name"
    nw = 0
    for n in cfgs.nodes:
        for c in cfgs.calls_at(n):
            if ctx.src(c.func).split(".")[-1] == "create_script" and c.args:
                nw += 1
                r.check(_mentions(sg, c.args[0], n, per_batch), "the singularity wrapper is named after this batch's run script", key_of(sg, "wrapper name not per batch"), sg.loc(c),
                        f"the wrapper written by `{ctx.src(c)[:60]}` is not named from self._run_script.name / self._name: batches of one group share the file, and a queued HPC job later runs "
                        "whatever batch wrote it last (its own jobs never start, another batch's jobs start twice)", "never starts a job's command more than once")
    if nw != 1:
        raise AnalysisError("C01.6", f"expected one create_script call in _make_singularity_command, found {nw}")
    # the hpc round always reaches the update when batches were made (C01.2 hop 4 covers submitted_jobs non-empty)


@rule(P, "C01.7", "T3", "a queue entry is started or queued, never both; every started entry leaves the queue", min_obligations=6)
def c01_7(ctx, r):
    sub = ctx.fn("JobQueue.submit", "C01.7")
    cfg = ctx.cfg(sub)
    runs = [n for s in ctx.sites(sub, short="JobQueue._run_job") for n in ctx.nodes_of(sub, s.node)]
    apps = [n for n in cfg.nodes for c in cfg.calls_at(n) if isinstance(c.func, ast.Attribute) and c.func.attr == "append" and ctx.src(c.func.value) == "self._queued_jobs"]
    if not runs or not apps:
        raise AnalysisError("C01.7", "JobQueue.submit: _run_job / _queued_jobs.append not found")
    counts = set()
    npaths = 0
    for path in cfg.paths(kinds=NORMAL_KINDS, max_visits=1, cap=500, targets={cfg.exit.id}):
        npaths += 1
        ids = [n.id for n, _, _ in path]
        counts.add((sum(1 for i in ids if i in {x.id for x in runs}), sum(1 for i in ids if i in {x.id for x in apps})))
    ctx.counters["paths"] += npaths
    r.check(counts <= {(1, 0), (0, 1)}, "submit(): every path starts the entry xor queues it", key_of(sub, "run xor queue"), sub.loc(),
            f"paths through JobQueue.submit (started, queued) = {sorted(counts)}: an entry can be started and also left in the queue (started again by process_queue), or dropped",
            "never starts a job's command more than once", paths=npaths)
    for spec, start_short in (("JobQueue.process_queue", "JobQueue._run_job"), ("JobQueue._check_completions", None)):
        fn = ctx.fn(spec, "C01.7")
        cfg = ctx.cfg(fn)
        if start_short:
            acts = [(s.node, n) for s in ctx.sites(fn, short=start_short) for n in ctx.nodes_of(fn, s.node)]
        else:
            acts = [(c, n) for n in cfg.nodes for c in cfg.calls_at(n) if isinstance(c.func, ast.Attribute) and c.func.attr == "cancel"]
        if not acts:
            raise AnalysisError("C01.7", f"{fn.short}: start/cancel action not found")
        for call, node in acts:
            loops = ctx.enclosing(fn, call, (ast.For,))
            lp = next((l for l in loops if "_queued_jobs" in ctx.src(l.iter)), None)
            if lp is None or not (isinstance(lp.iter, ast.Call) and ctx.src(lp.iter.func) == "enumerate" and isinstance(lp.target, ast.Tuple)):
                raise AnalysisError("C01.7", f"{fn.short}: action is not inside `for i, job in enumerate(self._queued_jobs)`")
            ivar = lp.target.elts[0].id
            recs = [(n2, c2) for n2 in cfg.nodes for c2 in cfg.calls_at(n2) if isinstance(c2.func, ast.Attribute) and c2.func.attr == "append" and isinstance(c2.func.value, ast.Name) and c2.args and isinstance(c2.args[0], ast.Name) and c2.args[0].id == ivar
                    and any(l is lp for l in ctx.enclosing(fn, c2, (ast.For,)))]
            ok = bool(recs) and _must_pass(ctx, fn, node, [n2 for n2, _ in recs]) and node not in [n2 for n2, _ in recs]
            r.check(ok, f"{fn.short}: the index of every {ctx.src(call.func)}() entry is recorded", key_of(fn, f"record index after {ctx.src(call.func)}"), fn.loc(call),
                    f"after {ctx.src(call.func)}(job) a path reaches the next iteration without recording the entry's index: it stays in _queued_jobs and is started again at the next poll",
                    "never starts a job's command more than once")
            if not recs:
                continue
            lst = recs[0][1].func.value.id
            # removal loop after lp: for index in reversed(lst): self._queued_jobs.pop(index)
            rem = [l for l in iter_own(fn.node) if isinstance(l, ast.For) and l is not lp and ctx.src(l.iter) in (f"reversed({lst})", f"sorted({lst}, reverse=True)")
                   and any(isinstance(x, ast.Call) and ctx.src(x.func) == "self._queued_jobs.pop" and x.args and ctx.src(x.args[0]) == ctx.src(l.target) for x in ast.walk(l))]
            okr = False
            if rem:
                heads = [n2 for n2 in cfg.nodes if n2.kind == "for" and n2.ast is rem[0]]
                lphead = [n2 for n2 in cfg.nodes if n2.kind == "for" and n2.ast is lp][0]
                # every normal path leaving the scan loop (done edge or break) passes the removal loop head
                okr = _must_pass(ctx, fn, lphead, heads) if heads else False
                # the scan loop may be nested (per completed name): removal must be in the same block
                okr = okr or (heads and always_followed_by(ctx, fn, lphead, heads, NORMAL_KINDS))
            r.check(bool(rem) and bool(okr), f"{fn.short}: all recorded indices are popped (in reverse order) after the scan", key_of(fn, "pop recorded indices"), fn.loc(lp),
                    "recorded indices are not all removed from _queued_jobs after the scan (or not in reverse order, which removes the wrong entries)",
                    "never starts a job's command more than once")
            # init, scan and removal belong together: same statement block, in this order (indices of one scan are
            # removed before the next scan shifts the positions they refer to)
            def blk_of(st):
                par = ctx.parents(fn).get(id(st))
                return next((getattr(par, f) for f in ("body", "orelse", "finalbody") if isinstance(getattr(par, f, None), list) and any(x is st for x in getattr(par, f))), None)

            inits = [cfg.nodes[d].stmt for n2, _ in recs for d in ctx.rd(fn).reaching(n2, lst) if isinstance(ctx.rd(fn).defs_at[d].get(lst), ast.List)]
            sib = bool(rem) and bool(inits) and all(blk_of(i) is blk_of(lp) for i in inits) and blk_of(rem[0]) is blk_of(lp)
            if sib:
                b = blk_of(lp)
                order = [next(i for i, x in enumerate(b) if x is st) for st in (inits[0], lp, rem[0])]
                sib = order == sorted(order)
            r.check(sib, f"{fn.short}: the index list is initialised, filled and emptied within one scan (same block, in order)", key_of(fn, "index list spans several scans"), fn.loc(lp),
                    f"`{lst}` is not initialised / popped in the same block as the scan that fills it: indices recorded by different scans are popped together, in an order that is not descending, "
                    "so the wrong entries leave the queue (a canceled entry stays queued with no blockers and is started; another entry is dropped)",
                    "never starts a job's command more than once / a canceled job is never started")
            # the list of indices is fresh for each scan
            uds = {ctx.src(ctx.rd(fn).defs_at[d].get(lst)) for n2, _ in recs for d in ctx.rd(fn).reaching(n2, lst) if isinstance(ctx.rd(fn).defs_at[d].get(lst), ast.AST)}
            r.check(uds == {"[]"}, f"{fn.short}: index list starts empty for each scan", key_of(fn, "index list init"), fn.loc(lp), f"{lst} is initialised from {sorted(uds)}")
    # only submit() inserts into _queued_jobs (ownership)
    for fn, node, attr, t, kind in attr_stores(ctx, {"_queued_jobs"}):
        if kind in ("mutate:append", "mutate:extend", "mutate:insert"):
            r.check(fn.short == "JobQueue.submit", "only submit() inserts into _queued_jobs", key_of(fn, "insert into _queued_jobs"), fn.loc(node), f"{fn.short} inserts into JobQueue._queued_jobs")


@rule(P, "C01.8", "T1+T13", "a constructed batch is always handed off (never parked in a queue nobody polls)", min_obligations=5)
def c01_8(ctx, r):
    sb = ctx.fn(f"{HS}._submit_batches", "C01.8")
    run = ctx.fn(f"{HS}.run", "C01.8")
    notfull = "len(<JobQueue._outstanding_jobs>) < <JobQueue._queue_depth>"
    for fn, short in ((sb, f"{HS}._submit_batch"), (run, f"{HS}._submit_batches")):
        for s in ctx.some_sites(fn, "C01.8", short=short):
            for n in ctx.nodes_of(fn, s.node):
                forms = guard_forms(ctx, fn, n)
                r.check((notfull, True) in forms, f"{fn.short}: {short.split('.')[-1]}() only while the HPC queue is not full", key_of(fn, f"{short} when full"), s.loc,
                        "a batch can be constructed while the queue is full: JobQueue.submit parks it in _queued_jobs of a queue that is discarded at the end of the round, while its jobs are persisted as submitted",
                        "When the submission completes without faults, every job was either placed in exactly one batch or canceled", guards=sorted(("" if p else "not ") + f for f, p in forms))
    sbt = ctx.fn(f"{HS}._submit_batch", "C01.8")
    qs = ctx.some_sites(sbt, "C01.8", short="JobQueue.submit")
    mk = ctx.some_sites(sbt, "C01.8", short=f"{HS}._make_async_submitter")
    for s in qs:
        a = s.node.args[0] if s.node.args else None
        ok = False
        if a is not None:
            from ..lib import is_value_of

            for n in ctx.nodes_of(sbt, s.node):
                ok = is_value_of(ctx, sbt, a, n, mk[0].node)
                r.check(not guard_forms(ctx, sbt, n), "queue.submit is unconditional in _submit_batch", key_of(sbt, "conditional submit"), s.loc, "queue.submit(...) is conditional in _submit_batch")
        r.check(ok, "the object submitted to the queue is the one just created", key_of(sbt, "submit created batch"), s.loc, "queue.submit does not receive the AsyncHpcSubmitter created for this batch")
    gb = ctx.fn("AsyncHpcSubmitter.get_blocking_jobs", "C01.8")
    from ..lib import _single_return

    rx = _single_return(gb)
    r.check(rx is not None and ctx.src(rx) in ("set()", "frozenset()", "[]", "()"), "AsyncHpcSubmitter.get_blocking_jobs() is the constant empty set", key_of(gb, "blocking jobs of a batch"), gb.loc(),
            "a batch object reports blocking jobs: JobQueue.submit queues it instead of handing it off, and nothing polls that queue again")
    # _run_job records the entry as outstanding only when run() returned GOOD (C12.3) - shared with C06.4


@rule(P, "C01.9", "T1", "a job is a candidate of exactly one group's pass (states are persisted only at the end of the round)", min_obligations=2)
def c01_9(ctx, r):
    from .c07 import c07_4

    c07_4(ctx, r)


@rule(P, "C01.10", "T1+T6", "only one promoted submitter: the submitter field is taken only when empty", min_obligations=3)
def c01_10(ctx, r):
    from .c10 import c10_1

    c10_1(ctx, r)


@rule(P, "C01.11", "T2", "the crashed-round marker outlives the persisted status update (a failed status write cannot be followed by a silent re-placement)", min_obligations=2)
def c01_11(ctx, r):
    from .c11 import c11_3

    c11_3(ctx, r)


@rule(P, "C01.12", "T3+T6", "a job canceled by the submitter or on a node is never placed / started afterwards", min_obligations=4)
def c01_12(ctx, r):
    from .c04 import c04_5

    c04_5(ctx, r)


@rule(P, "C01.13", "T1", "time-based batching: a job the batch refuses is not inside it (else it is also the first job of the next batch)", min_obligations=5)
def c01_13(ctx, r):
    from .c07 import c07_3

    c07_3(ctx, r)


@rule(P, "C01.14", "T1+T6", "a group listed twice is rejected up front (its jobs would be candidates of two passes of one round)", min_obligations=8)
def c01_14(ctx, r):
    from .c17 import c17_4

    c17_4(ctx, r)


@rule(P, "C01.15", "T8", "a later submitter round never runs the configuration locally: only the initial submission may pass force_local", min_obligations=3)
def c01_15(ctx, r):
    """JobSubmitter.submit_jobs(cluster, force_local=...) with force_local true runs every job of config.json on the calling
    machine, whatever their states.  Only run_submit_jobs (the first submission, `--local`) may decide that; the rounds started
    by try-submit-jobs / resubmit-jobs must take the default."""
    sj = ctx.fn("JobSubmitter.submit_jobs", "C01.15")
    n = 0
    for s in ctx.callers_of(sj):
        if not s.calls_short(ctx.ix, "JobSubmitter.submit_jobs"):
            continue
        n += 1
        a = ctx.arg_for(s, sj, "force_local")
        if s.fn.short == "JobSubmitter.run_submit_jobs":
            r.ok("run_submit_jobs decides local mode")
            continue
        r.check(a is None or (isinstance(a, ast.Constant) and a.value is False), f"{s.fn.short}: submit_jobs takes the default force_local", key_of(s.fn, "round forced into local mode"), s.loc,
                f"`{ctx.src(s.node)}` passes `{ctx.src(a) if a is not None else None}` as force_local: when it is true the round ignores the job states and starts every job of the configuration on this machine - "
                "jobs already placed in batches are started a second time", "never starts a job's command more than once")
    if n < 3:
        raise AnalysisError("C01.15", f"only {n} callers of JobSubmitter.submit_jobs found")


@rule(P, "C01.16", "T9", "the node-side batch id is the submitter's: the pattern matches exactly the file name written", min_obligations=5)
def c01_16(ctx, r):
    from .c07 import c07_8

    c07_8(ctx, r)


@rule(P, "C01.17", "X0", "one node of a multi-node batch is the manager (the one that starts the user's command and records results)", min_obligations=1)
def c01_17(ctx, r):
    from .c08 import manager_election

    manager_election(ctx, r, "C01.17", single_node=False)  # a single-node run that does not elect itself loses results (C03), it starts nothing twice


@rule(P, "C01.18", "T2", "what a round collected is recorded by that round (a job whose blocker's result was consumed but not recorded is never placed)", min_obligations=2)
def c01_18(ctx, r):
    from .c05 import c05_19

    c05_19(ctx, r)


@rule(P, "C01.19", "T9", "the persisted status is loaded whole: every field of the model is taken from the file (batch_index, active ids, jobs, version)", min_obligations=2)
def c01_19(ctx, r):
    """job_status.json carries batch_index - the next batch number - between rounds.  It has a default (1), so a loader that builds JobStatus
    from some explicitly named keys and forgets it still runs: every later round numbers its batches from 1 again and overwrites
    config_batch_<n>.json / run_batch_<n>.sh of batches the scheduler has not started yet.  Decided for both state files: the model is
    constructed from the loaded mapping with `**data`, or every annotated field of the model is passed."""
    for fname, cname in (("Cluster._deserialize_jobs", "JobStatus"), ("Cluster._deserialize", "ClusterConfig")):
        fn = ctx.fn(fname, "C01.19")
        cls = ctx.cls(cname, "C01.19")
        sites = [s for s in ctx.cg.sites_in(fn) if (s.constructs or "") == cls.qual]
        if len(sites) != 1:
            raise AnalysisError("C01.19", f"{len(sites)} constructions of {cname} in {fname}")
        c = sites[0].node
        spread = [k for k in c.keywords if k.arg is None]
        fields = set()
        for k in ctx.ix.mro(cls):
            fields |= set(k.ann_fields)
        given = {k.arg for k in c.keywords if k.arg is not None}
        ok = (bool(spread) and not c.args) or fields <= given
        r.check(ok, f"{cname} is built from the whole file", key_of(fn, f"{cname} fields not loaded: {sorted(fields - given)[:4]}"), fn.loc(c),
                f"{fname} builds {cname} from {sorted(given)} only: {sorted(fields - given)} fall back to their defaults on every load although the file carries them - e.g. batch_index restarts at 1 in every round, "
                "so batch numbers (and the per-batch files named after them) are reused", "never reuses a batch identifier")

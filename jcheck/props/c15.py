"""C15 - pipeline stages run strictly in order, each exactly once."""

import ast

from .. import AnalysisError
from ..cfg import ALL_KINDS, NORMAL_KINDS, iter_own
from ..lib import attr_stores, both_orders, dominated_by, guard_forms, key_of, norm, reachable_from, render, type_is
from ..report import describe, rule
from .common import expand_cmd, spawn_sites

P = "C15"

describe(
    P,
    "Decides the sequencing mechanism: the next stage is triggered only after mark_complete() of the current stage, only for "
    "pipeline submissions, with --stage-num = the completed stage's number + 1 and --return-code = the completion status, "
    "both options existing on the registered click command; the manager advances its persisted stage counter (and records "
    "the return code of stage k in slot k-1... i.e. stages[stage_num-2]) only if the requested stage is exactly current+1 "
    "and otherwise raises; the stage that is configured and submitted is indexed by the persisted counter, never by the "
    "command-line argument; the first stage is entered only under `assert stage_num == 1`; the advanced counter is "
    "serialised before the stage is submitted, so a repeated trigger is rejected; the pipeline is marked complete only when "
    "the counter has passed the last stage; the stage number reaches ClusterConfig.pipeline_stage_num of the new submission.",
    ["completion of a stage's submission happens once (C05)", "pipeline.json is written by one process at a time (no lock; rests on C05)"],
    "exactly-once under racing completions of the same stage (rests on C05).",
)

PM = "PipelineManager"


@rule(P, "C15.1", "T2", "the next stage is triggered only after the current stage's submission was marked complete", min_obligations=2)
def c15_1(ctx, r):
    fn = ctx.fn("JobSubmitter._handle_completion", "C15.1")
    sp = spawn_sites(ctx, fn, "jade pipeline submit-next-stage")
    if not sp:
        r.bad(key_of(fn, "no next-stage trigger"), fn.loc(), "a completing stage no longer triggers `jade pipeline submit-next-stage`: the pipeline stops after its first stage", "stage k+1 is configured and submitted")
        return
    mc = [n for s in ctx.sites(fn, short="Cluster.mark_complete") for n in ctx.nodes_of(fn, s.node)]
    for s in sp:
        for n in ctx.nodes_of(fn, s.node):
            r.check(bool(mc) and dominated_by(ctx, fn, n, mc, ALL_KINDS), "mark_complete() dominates the trigger", key_of(fn, "trigger before mark_complete"), s.loc,
                    "the next stage can be triggered before the current stage's submission is marked complete: stage k+1 starts while stage k is still accounted as running (and a failure in between triggers it twice)",
                    "stage k+1 is configured and submitted only after stage k's submission is complete")
            forms = guard_forms(ctx, fn, n)
            r.check(("<ClusterConfig.pipeline_stage_num> is None", False) in forms, "only submissions that are pipeline stages trigger", key_of(fn, "trigger guard"), s.loc,
                    f"the trigger is guarded by {sorted(f for f, p in forms)}", guards=sorted(("" if p else "not ") + f for f, p in forms))
            r.check(not ctx.cfg(fn).in_loop(n), "the trigger is not in a loop", key_of(fn, "trigger in loop"), s.loc, "the trigger lies on a cycle", "each stage is submitted exactly once")
            others = sorted(("" if p else "not ") + f for f, p in forms if "pipeline_stage_num" not in f)
            r.check(not others, "nothing but `is a pipeline stage` decides the trigger", key_of(fn, "trigger depends on other conditions"), s.loc,
                    f"the trigger also depends on {others}: for some completed stages (other settings) the next stage is never submitted and the pipeline never completes", "stage k+1 is configured and submitted")
    # every completion reaches the decision: no return between mark_complete() and the `is a pipeline stage` test
    from ..lib import always_followed_by

    tests = [n for n in ctx.cfg(fn).nodes if n.kind == "test" and "pipeline_stage_num" in ctx.src(n.ast)]
    for m in mc:
        r.check(bool(tests) and always_followed_by(ctx, fn, m, tests, kinds=NORMAL_KINDS), "every mark_complete() is followed by the pipeline-stage decision", key_of(fn, "completion path skips the trigger"), fn.loc(m.stmt),
                "a path of _handle_completion marks the submission complete and returns without reaching the `pipeline_stage_num is not None` decision: a stage completing on that path (e.g. with reports disabled) "
                "never triggers submit-next-stage - pipeline.json stays at stage k, stage k+1 is never submitted", "stage k+1 is configured and submitted only after stage k's submission is complete")
    r.check(len(sp) == 1, "exactly one trigger site", key_of(fn, "trigger sites"), fn.loc(), f"{len(sp)} trigger sites")
    # nobody else spawns it
    for f2 in ctx.ix.all_functions():
        if f2 is fn:
            continue
        if any(True for _ in ctx.sites(f2, short=["run_command.run_command", "run_command.check_run_command"])):
            if spawn_sites(ctx, f2, "jade pipeline submit-next-stage"):
                r.bad(key_of(f2, "second trigger"), f2.loc(), f"{f2.short} also spawns `jade pipeline submit-next-stage`", "each stage is submitted exactly once")


@rule(P, "C15.2", "T8+X0", "--stage-num = completed stage + 1, --return-code = the completion status; both options exist", min_obligations=5)
def c15_2(ctx, r):
    fn = ctx.fn("JobSubmitter._handle_completion", "C15.2")
    for s in spawn_sites(ctx, fn, "jade pipeline submit-next-stage"):
        e, node = expand_cmd(ctx, fn, s)
        txt = render(ctx, fn, e)
        opts = {}
        if isinstance(e, ast.JoinedStr):
            cur = None
            lit = ""
            for v in e.values:
                if isinstance(v, ast.Constant):
                    lit += v.value
                elif isinstance(v, ast.FormattedValue):
                    key = lit.split()[-1] if lit.split() else ""
                    if key.startswith("--") and key.endswith("="):
                        opts[key[:-1]] = v.value
                    elif lit.endswith(" ") or not lit.split():
                        opts.setdefault("ARG", v.value)
                    lit = ""
        else:
            raise AnalysisError("C15.2", f"trigger command is not an f-string: {txt}")
        sn = opts.get("--stage-num")
        ok = False
        if isinstance(sn, ast.Name):
            ud = ctx.rd(fn).unique_def(node, sn.id)
            ok = ud is not None and render(ctx, fn, ud[1]) == "(<ClusterConfig.pipeline_stage_num> + 1)"
        elif sn is not None:
            ok = render(ctx, fn, sn) in ("(<ClusterConfig.pipeline_stage_num> + 1)", "<ClusterConfig.pipeline_stage_num> + 1")
        r.check(ok, "--stage-num = cluster.config.pipeline_stage_num + 1", key_of(fn, "stage-num value"), s.loc, f"--stage-num is `{ctx.src(sn) if sn is not None else None}`",
                "stage k+1 ... after stage k")
        rc = opts.get("--return-code")
        from .common import completion_roles

        _h, RESULT, _m = completion_roles(ctx, "C15.2")
        r.check(rc is not None and ctx.src(rc) == f"{RESULT}.value", "--return-code = result.value", key_of(fn, "return-code value"), s.loc, f"--return-code is `{ctx.src(rc) if rc is not None else None}`",
                "per-stage return codes match what happened")
        arg = opts.get("ARG")
        okd = False
        if isinstance(arg, ast.Name):
            ud = ctx.rd(fn).unique_def(node, arg.id)
            okd = ud is not None and ctx.src(ud[1]) == "os.path.dirname(self._output)"
        elif arg is not None:
            okd = ctx.src(arg) == "os.path.dirname(self._output)"
        r.check(okd, "the pipeline directory is the parent of the stage's output", key_of(fn, "pipeline dir"), s.loc, f"pipeline directory argument is `{ctx.src(arg) if arg is not None else None}`")
        # X0: options exist on the click command
        cmd = ctx.fn("pipeline.submit_next_stage", "C15.2")
        declared = {a.value for d in cmd.node.decorator_list if isinstance(d, ast.Call) for a in d.args if isinstance(a, ast.Constant) and isinstance(a.value, str)}
        for o in [k for k in opts if k.startswith("--")]:
            r.check(o in declared, f"{o} exists on `jade pipeline submit-next-stage`", key_of(fn, f"option {o}"), s.loc, f"the trigger passes {o}, which the command does not define", declared=sorted(declared))
        mod = ctx.ix.modules["jade.cli.pipeline"]
        r.check("pipeline.add_command(submit_next_stage)" in mod.source and "cli.add_command(pipeline)" in ctx.ix.modules["jade.cli.jade"].source, "the command is registered (jade pipeline submit-next-stage)", "cli::pipeline.submit_next_stage registered", cmd.loc(),
                "submit_next_stage is not registered on the jade CLI")
        fw = ctx.some_sites(cmd, "C15.2", short=f"{PM}.submit_next_stage")
        a0 = fw[0].node.args[0] if fw[0].node.args else None
        kw = {k.arg: ctx.src(k.value) for k in fw[0].node.keywords}
        r.check(a0 is not None and ctx.src(a0) == "stage_num" and kw.get("return_code") == "return_code", "the command forwards (stage_num, return_code) to the manager", key_of(cmd, "forward"), fw[0].loc, f"forwards {ctx.src(a0) if a0 is not None else None}, {kw}")
        r.check(bool(ctx.sites(cmd, short=f"{PM}.load")), "the manager is loaded from pipeline.json (persisted counter)", key_of(cmd, "load"), cmd.loc(), "submit-next-stage does not load the PipelineManager from the directory")


@rule(P, "C15.3", "T1+T8", "the counter advances only for stage == current+1; the stage run is indexed by the persisted counter", min_obligations=7)
def c15_3(ctx, r):
    fn = ctx.fn(f"{PM}._submit_next_stage", "C15.3")
    cfg = ctx.cfg(fn)
    want = "stage_num == (<PipelineConfig.stage_num> + 1)"
    incs = [n for n in cfg.nodes if n.kind == "stmt" and isinstance(n.ast, ast.AugAssign) and render(ctx, fn, n.ast.target) == "<PipelineConfig.stage_num>"]
    # `self._config.stage_num = stage_num` under the same sequence check is the same advance (stage_num == current + 1 there)
    sets = [n for n in cfg.nodes if n.kind == "stmt" and isinstance(n.ast, ast.Assign) and len(n.ast.targets) == 1 and render(ctx, fn, n.ast.targets[0]) == "<PipelineConfig.stage_num>"]
    if len(incs) + len(sets) != 1:
        raise AnalysisError("C15.3", f"expected one increment of the persisted stage_num, found {len(incs) + len(sets)}")
    inc = (incs + sets)[0]
    if incs:
        r.check(isinstance(inc.ast.op, ast.Add) and ctx.src(inc.ast.value) == "1", "stage_num += 1", key_of(fn, "increment"), fn.loc(inc.ast), f"`{ctx.src(inc.ast)}`", "each stage is submitted exactly once")
    else:
        r.check(isinstance(inc.ast.value, ast.Name) and inc.ast.value.id == "stage_num", "stage_num := the requested stage", key_of(fn, "increment"), fn.loc(inc.ast), f"`{ctx.src(inc.ast)}`", "each stage is submitted exactly once")
    forms = guard_forms(ctx, fn, inc, ALL_KINDS, kill=False)
    r.check((want, True) in forms, "the increment is dominated by `stage_num == self.stage_num + 1`", key_of(fn, "increment without sequence check"), fn.loc(inc.ast),
            "the persisted stage counter can advance for an out-of-sequence (repeated or skipped) request: a stage is submitted twice or skipped",
            "each stage is submitted exactly once", guards=sorted(("" if p else "not ") + f for f, p in forms))
    # the mismatch branch raises
    for n in cfg.nodes:
        for d, k, c in n.succ:
            if k in ("T", "F") and c is not None and (want, False) in both_orders([norm(ctx, fn, c, n, pol=(k == "T"))]):
                seen, stack = set(), [d]
                while stack:
                    x = stack.pop()
                    if x.id in seen:
                        continue
                    seen.add(x.id)
                    stack.extend(dd for dd, kk, _ in x.succ if kk in NORMAL_KINDS)
                r.check(cfg.exit.id not in seen, "an out-of-sequence request raises", key_of(fn, "mismatch continues"), fn.loc(d.stmt), "an out-of-sequence request does not raise")
    # return code stored in stages[stage_num - 2], under the same check
    rcs = [n for n in cfg.nodes if n.kind == "stmt" and isinstance(n.ast, ast.Assign) and ctx.src(n.ast.targets[0]).endswith(".return_code")]
    ok = len(rcs) == 1 and ctx.src(rcs[0].ast.targets[0]).replace(" ", "") == "self._config.stages[stage_num-2].return_code" and ctx.src(rcs[0].ast.value) == "return_code"
    r.check(ok, "return code of the completed stage stored in stages[stage_num - 2]", key_of(fn, "return code slot"), fn.loc(), f"return code store: {[ctx.src(n.ast) for n in rcs]}", "per-stage return codes match what happened")
    for n in rcs:
        r.check((want, True) in guard_forms(ctx, fn, n, ALL_KINDS, kill=False) and dominated_by(ctx, fn, inc, [n]), "stored under the same sequence check, before the increment", key_of(fn, "return code guard"), fn.loc(n.ast), "return code stored without the sequence check / after the increment (wrong slot)")
    # first stage: assert stage_num == 1 on the return_code-is-None branch
    asserts = [n for n in cfg.nodes if n.kind == "test" and isinstance(n.stmt, ast.Assert) and ctx.src(n.ast).replace(" ", "") in ("stage_num==1", "1==stage_num")]
    okf = bool(asserts) and all(("return_code is None", True) in guard_forms(ctx, fn, n) for n in asserts)
    r.check(okf, "without a return code only stage 1 may be requested (assert)", key_of(fn, "first stage assert"), fn.loc(), "the first-stage path no longer asserts stage_num == 1", "stage k+1 ... only after stage k")
    # the stage that is configured and submitted
    STAGE = None
    for c in iter_own(fn.node):
        if isinstance(c, ast.Call) and ctx.src(c.func).split(".")[-1] == "create_config_from_file" and c.args and isinstance(c.args[0], ast.Attribute) and c.args[0].attr == "config_file" and isinstance(c.args[0].value, ast.Name):
            STAGE = c.args[0].value.id
    stg = [n for n in cfg.nodes if n.kind == "stmt" and isinstance(n.ast, ast.Assign) and STAGE and ctx.src(n.ast.targets[0]) == STAGE]
    oks = len(stg) == 1 and render(ctx, fn, stg[0].ast.value) == "<PipelineConfig.stages>[(<PipelineConfig.stage_num> - 1)]"
    r.check(oks, "the stage run is stages[persisted stage_num - 1]", key_of(fn, "stage index"), fn.loc(), f"stage selected by `{ctx.src(stg[0].ast.value) if stg else None}`: indexing by the command-line argument lets a stale trigger run an arbitrary stage",
            "the recorded current stage ... match what happened")
    rs = ctx.some_sites(fn, "C15.3", short="JobSubmitter.run_submit_jobs")
    rsj = ctx.fn("JobSubmitter.run_submit_jobs", "C15.3")
    for s in rs:
        a = ctx.arg_for(s, rsj, "pipeline_stage_num")
        r.check(a is not None and render(ctx, fn, a) == "<PipelineConfig.stage_num>", "pipeline_stage_num = the persisted counter", key_of(fn, "pipeline_stage_num arg"), s.loc, f"pipeline_stage_num={ctx.src(a) if a is not None else None}")
        c = ctx.arg_for(s, rsj, "config")
        okc = False
        if isinstance(c, ast.Name):
            for n in ctx.nodes_of(fn, s.node):
                defs = {ctx.src(ctx.rd(fn).defs_at[d].get(c.id)) for d in ctx.rd(fn).reaching(n, c.id) if isinstance(ctx.rd(fn).defs_at[d].get(c.id), ast.AST)}
                okc = STAGE is not None and defs == {f"create_config_from_file({STAGE}.config_file)"}
        r.check(okc, "the configuration submitted is the selected stage's", key_of(fn, "stage config"), s.loc, "the submitted configuration is not loaded from stage.config_file")
        o = ctx.arg_for(s, rsj, "output")
        oko = False
        if isinstance(o, ast.Name):
            for n in ctx.nodes_of(fn, s.node):
                ud = ctx.rd(fn).unique_def(n, o.id)
                oko = ud is not None and ctx.src(ud[1]) == "self.get_stage_output_path(self.path, self.stage_num)"
        r.check(oko, "the output directory is the stage's own (output-stage<N>)", key_of(fn, "stage output"), s.loc, "output directory is not derived from the persisted stage number")
        for n in ctx.nodes_of(fn, s.node):
            r.check(not cfg.in_loop(n), "one submission per request", key_of(fn, "submit in loop"), s.loc, "run_submit_jobs in a loop")


@rule(P, "C15.4", "T2", "the advanced counter is serialised before the stage is submitted", min_obligations=2)
def c15_4(ctx, r):
    fn = ctx.fn(f"{PM}._submit_next_stage", "C15.4")
    ser = [n for s in ctx.sites(fn, short=f"{PM}._serialize") for n in ctx.nodes_of(fn, s.node)]
    rs = [n for s in ctx.some_sites(fn, "C15.4", short="JobSubmitter.run_submit_jobs") for n in ctx.nodes_of(fn, s.node)]
    ac = [n for s in ctx.sites(fn, short=f"{PM}._run_auto_config") for n in ctx.nodes_of(fn, s.node)]
    for n in rs + ac:
        r.check(bool(ser) and dominated_by(ctx, fn, n, ser, ALL_KINDS), f"_serialize() dominates `{ctx.src(n.stmt)[:40]}`", key_of(fn, f"{'submit' if n in rs else 'auto-config'} before serialize"), fn.loc(n.stmt),
                "the stage is configured/submitted before the advanced stage counter is on disk: a repeated trigger (or a crash and retry) passes the sequence check again and submits the stage twice",
                "each stage is submitted exactly once")
    sz = ctx.fn(f"{PM}._serialize", "C15.4")
    ok = any(isinstance(n, ast.With) and "self._config_file" in ctx.src(n.items[0].context_expr) and '"w"' in ctx.src(n.items[0].context_expr).replace("'", '"') for n in iter_own(sz.node)) and "self._config.json(" in ctx.src(sz.node)
    r.check(ok, "_serialize writes the whole config to pipeline.json", key_of(sz, "write"), sz.loc(), "_serialize no longer writes self._config.json() to self._config_file")
    # the serialisation sits after the increment on the advancing path
    cfg = ctx.cfg(fn)
    incs = [n for n in cfg.nodes if n.kind == "stmt" and isinstance(n.ast, ast.AugAssign) and "stage_num" in ctx.src(n.ast.target)]
    from ..lib import always_followed_by

    for inc in incs:
        r.check(always_followed_by(ctx, fn, inc, ser + [cfg.raise_exit], NORMAL_KINDS), "every normal path after the increment serialises", key_of(fn, "increment not serialised"), fn.loc(inc.ast), "a path after the increment returns without serialising")


@rule(P, "C15.5", "T1", "the pipeline is complete only when the counter has passed the last stage", min_obligations=2)
def c15_5(ctx, r):
    n_st = 0
    for fn, node, attr, t, kind in attr_stores(ctx, {"is_complete"}):
        if not type_is(ctx, t, "PipelineConfig"):
            continue
        n_st += 1
        st = ctx.stmt_of(fn, node)
        r.check(fn.short == f"{PM}._submit_next_stage", f"PipelineConfig.is_complete written in {fn.short}", key_of(fn, "writes pipeline is_complete"), fn.loc(node), f"{fn.short} writes PipelineConfig.is_complete")
        for n in ctx.nodes_of(fn, st):
            forms = guard_forms(ctx, fn, n)
            ok = ("<PipelineConfig.stage_num> == (len(<PipelineConfig.stages>) + 1)", True) in forms
            r.check(ok and ctx.src(st.value) == "True", "is_complete = True only if stage_num == len(stages) + 1", key_of(fn, "pipeline complete guard"), fn.loc(node),
                    f"the pipeline is marked complete under {sorted(('' if p else 'not ') + f for f, p in forms)}: complete before the last stage finished (or never)",
                    "the pipeline is marked complete only after the last stage completes", guards=sorted(("" if p else "not ") + f for f, p in forms))
    if n_st == 0:
        r.bad("PipelineManager::pipeline never complete", "jade/jobs/pipeline_manager.py:1", "PipelineConfig.is_complete is never set", "the pipeline is marked complete only after the last stage completes")
    fn = ctx.fn(f"{PM}._submit_next_stage", "C15.5")
    cfg = ctx.cfg(fn)
    # on the completing branch nothing is submitted
    for n in cfg.nodes:
        if n.kind == "stmt" and isinstance(n.ast, ast.Assign) and ctx.src(n.ast.targets[0]).endswith("is_complete"):
            from ..lib import reachable_from

            reach = reachable_from(ctx, fn, n, NORMAL_KINDS)
            subs = [x for s in ctx.sites(fn, short="JobSubmitter.run_submit_jobs") for x in ctx.nodes_of(fn, s.node)]
            r.check(not any(x.id in reach for x in subs), "a complete pipeline submits nothing further", key_of(fn, "submit after complete"), fn.loc(n.ast), "after marking the pipeline complete a stage is still submitted")


@rule(P, "C15.6", "T8", "the stage number reaches the new submission's ClusterConfig.pipeline_stage_num", min_obligations=3)
def c15_6(ctx, r):
    rsj = ctx.fn("JobSubmitter.run_submit_jobs", "C15.6")
    cc = ctx.fn("Cluster.create", "C15.6")
    for s in ctx.some_sites(rsj, "C15.6", short="Cluster.create"):
        a = ctx.arg_for(s, cc, "pipeline_stage_num")
        r.check(isinstance(a, ast.Name) and a.id == "pipeline_stage_num", "run_submit_jobs forwards pipeline_stage_num to Cluster.create", key_of(rsj, "forward stage num"), s.loc,
                f"Cluster.create receives pipeline_stage_num={ctx.src(a) if a is not None else None}: the stage's submission does not know it is part of a pipeline and never triggers the next stage")
    cfgc = ctx.cls("ClusterConfig")
    for s in [s for s in ctx.cg.sites_in(cc) if s.constructs == cfgc.qual]:
        kw = {k.arg: ctx.src(k.value) for k in s.node.keywords}
        r.check(kw.get("pipeline_stage_num") == "pipeline_stage_num", "Cluster.create stores it in ClusterConfig", key_of(cc, "store stage num"), s.loc, f"ClusterConfig(pipeline_stage_num={kw.get('pipeline_stage_num')})")
    r.check("pipeline_stage_num" in cfgc.ann_fields, "ClusterConfig has the field", "ClusterConfig::pipeline_stage_num", cfgc.module.relpath + ":1", "ClusterConfig.pipeline_stage_num is gone")
    # the first stage is submitted with stage number 1
    sub = ctx.fn("pipeline.submit", "C15.6")
    ss = ctx.some_sites(sub, "C15.6", short=f"{PM}.submit_next_stage")
    r.check(len(ss) == 1 and [ctx.src(a) for a in ss[0].node.args] == ["1"] and not ss[0].node.keywords, "`jade pipeline submit` starts with stage 1 and no return code", key_of(sub, "first stage"), ss[0].loc, "pipeline submit does not start with submit_next_stage(1)")
    crt = [f for f in (ctx.fn(f"{PM}.create_config_from_files"), ctx.fn(f"{PM}.create_config_from_commands"))]
    for f in crt:
        ok = any(isinstance(n, ast.Call) and ctx.src(n.func) == "PipelineConfig" and {k.arg: ctx.src(k.value) for k in n.keywords}.get("stage_num") == "1" for n in iter_own(f.node))
        r.check(ok, f"{f.short}: a new pipeline starts at stage_num 1", key_of(f, "initial stage"), f.loc(), "a new pipeline config does not start at stage 1")


@rule(P, "C15.7", "T8", "the return code handed to the next stage is ERROR when the stage has missing jobs", min_obligations=2)
def c15_7(ctx, r):
    hc = ctx.fn("JobSubmitter._handle_completion", "C15.7")
    cfg = ctx.cfg(hc)
    from .common import completion_roles

    _h, RESULT, MISSING = completion_roles(ctx, "C15.7")
    errs = [n for n in cfg.nodes if n.kind == "stmt" and isinstance(n.ast, ast.Assign) and ctx.src(n.ast.targets[0]) == RESULT and ctx.src(n.ast.value) == "Status.ERROR"]
    miss = [n for n in cfg.nodes if n.kind == "stmt" and isinstance(n.ast, ast.Assign) and ctx.src(n.ast.targets[0]) == MISSING and not (isinstance(n.ast.value, ast.List) and not n.ast.value.elts)]
    if not miss:
        raise AnalysisError("C15.7", "missing-jobs computation not found in _handle_completion")
    from ..lib import always_followed_by

    for m in miss:
        ok = bool(errs) and (always_followed_by(ctx, hc, m, errs + [cfg.raise_exit], NORMAL_KINDS) or any(
            __import__("jcheck.lib", fromlist=["dominated_by"]).dominated_by(ctx, hc, m, [e]) for e in errs))
        r.check(ok, "a stage with missing jobs completes with Status.ERROR", key_of(hc, "status on missing"), hc.loc(m.ast),
                "on the branch that finds missing jobs the completion status stays GOOD: the pipeline records return code 0 for a stage whose jobs did not all finish",
                "the recorded ... per-stage return codes match what happened")
    # result starts as GOOD and is what the trigger sends / the function returns
    init = [n for n in cfg.nodes if n.kind == "stmt" and isinstance(n.ast, ast.Assign) and ctx.src(n.ast.targets[0]) == RESULT]
    r.check({ctx.src(n.ast.value) for n in init} == {"Status.GOOD", "Status.ERROR"}, "result is GOOD unless jobs are missing", key_of(hc, "result values"), hc.loc(), f"result takes {sorted({ctx.src(n.ast.value) for n in init})}")
    rets = [n for n in cfg.nodes if n.kind == "stmt" and isinstance(n.ast, ast.Return)]
    r.check(all(ctx.src(n.ast.value) == RESULT for n in rets), "_handle_completion returns that status", key_of(hc, "return"), hc.loc(), "return value changed")


@rule(P, "C15.8", "T2+T8", "auto-config: the stale stage config is removed before the generator runs, and that same file is what is checked and copied", min_obligations=3)
def c15_8(ctx, r):
    fn = ctx.fn("PipelineManager._run_auto_config", "C15.8")
    cfg = ctx.cfg(fn)
    gen = [n for n in cfg.nodes for c in cfg.calls_at(n) if ctx.src(c.func).split(".")[-1] in ("run_command", "check_run_command") and c.args and "auto_config_cmd" in ctx.src(c.args[0])]
    if len(gen) != 1:
        raise AnalysisError("C15.8", f"expected one generator call in _run_auto_config, found {len(gen)}")
    g = gen[0]

    def path_of(call, node):
        a = call.args[0] if call.args else None
        a = ctx.guards(fn).expand(a, node) if isinstance(a, ast.Name) else a
        return render(ctx, fn, a) if a is not None else None

    removed = [(n, path_of(c, n)) for n in cfg.nodes for c in cfg.calls_at(n) if ctx.src(c.func) in ("os.remove", "os.unlink")]
    checked = [(n, path_of(c, n)) for n in cfg.nodes if n.kind == "test" for c in cfg.calls_at(n) if ctx.src(c.func) == "os.path.exists"]
    copied = [(n, path_of(c, n)) for n in cfg.nodes for c in cfg.calls_at(n) if ctx.src(c.func).split(".")[-1] in ("copyfile", "copy", "copy2", "move")]
    after = reachable_from(ctx, fn, g, NORMAL_KINDS)
    post_checks = [p for n, p in checked if n.id in after]
    pre_removed = [p for n, p in removed if n.id not in after]
    srcs = [p for n, p in copied if n.id in after]
    if not post_checks or not srcs:
        raise AnalysisError("C15.8", f"post-generator existence check ({post_checks}) / copy ({srcs}) not found")
    produced = post_checks[0]
    r.check(produced in pre_removed, "the file expected from the generator is removed before the generator runs", key_of(fn, f"stale config not removed: removes {pre_removed}"), fn.loc(g.stmt),
            f"before running the generator _run_auto_config removes {pre_removed or 'nothing'}, but afterwards accepts `{produced}` if it exists: a file left by an earlier run (or written before stage k finished) passes for the "
            "fresh configuration, so stage k+1 is submitted with a configuration that was not produced after stage k completed", "stage k+1 is configured and submitted only after stage k's submission is complete")
    r.check(all(s == produced for s in srcs), "the file copied into the pipeline directory is the file the generator produced", key_of(fn, "copy source"), fn.loc(g.stmt), f"the generator's product is `{produced}` but {srcs} is copied")
    r.check(all(dominated_by(ctx, fn, n, [g]) for n, p in copied), "the copy follows the generator", key_of(fn, "copy order"), fn.loc(), "the stage config is copied before the generator ran")


@rule(P, "C15.9", "T1", "`jade pipeline submit` never starts over on an existing pipeline directory (each stage is submitted exactly once)", min_obligations=1)
def c15_9(ctx, r):
    fn = ctx.fn("pipeline.submit", "C15.9")
    cfg = ctx.cfg(fn)
    creates = [n for s in ctx.sites(fn, short="PipelineManager.create") for n in ctx.nodes_of(fn, s.node)]
    if not creates:
        raise AnalysisError("C15.9", "pipeline submit no longer calls PipelineManager.create")
    wipes = {n.id for n in cfg.nodes for c in cfg.calls_at(n) if ctx.src(c.func) in ("shutil.rmtree",)}
    # forward search from the entry that refuses to cross (a) the 'does not exist' edge of os.path.exists(output), (b) a wipe
    seen, stack = set(), [cfg.entry]
    while stack:
        n = stack.pop()
        if n.id in seen or n.id in wipes:
            continue
        seen.add(n.id)
        for d, k, c in n.succ:
            if k in ("T", "F") and c is not None and "os.path.exists(output)" in ctx.src(c).replace(" ", ""):
                form, pol = norm(ctx, fn, c, n, pol=(k == "T"))
                if "os.path.exists(output)" in form and pol is False:
                    continue
            stack.append(d)
    for c in creates:
        r.check(c.id not in seen, "PipelineManager.create only on a fresh (absent or just wiped) output directory", key_of(fn, "create on an existing pipeline directory"), fn.loc(c.stmt),
                "PipelineManager.create is reachable with the output directory existing and not wiped: a repeated `jade pipeline submit` resets pipeline.json to stage 1 and submits every stage again",
                "each stage is submitted exactly once")


@rule(P, "C15.10", "T2", "the stage id exported to the auto-config script is read after the recorded stage advanced, in the function that runs the generator", min_obligations=1)
def c15_10(ctx, r):
    """`JADE_PIPELINE_STAGE_ID = str(<persisted stage>)` must see the stage that is about to be configured: the store and the
    stage increment are in one function and the increment dominates-or-is-unreachable-after the store.  Exported by a caller
    before the increment ran, every stage after the first is configured as its predecessor."""
    pm = ctx.cls(PM, "C15.10")
    stores = []
    for m in pm.methods.values():
        for n in ctx.cfg(m).nodes:
            a = n.ast
            if n.kind == "stmt" and isinstance(a, ast.Assign) and isinstance(a.targets[0], ast.Subscript) and ctx.src(a.targets[0].value) == "os.environ" and isinstance(a.targets[0].slice, ast.Constant) and a.targets[0].slice.value == "JADE_PIPELINE_STAGE_ID":
                stores.append((m, n))
    if not stores:
        r.bad(key_of(pm.methods["_submit_next_stage"], "stage id never exported"), pm.methods["_submit_next_stage"].loc(), "JADE_PIPELINE_STAGE_ID is never set: auto-config scripts cannot tell which stage to configure",
              "stage k+1 is configured ... only after stage k")
        return
    inc_fns = {m.qual for m in pm.methods.values() if any(isinstance(x, ast.AugAssign) and ctx.src(x.target).endswith("stage_num") for x in iter_own(m.node))}
    for m, n in stores:
        cfg = ctx.cfg(m)
        after = reachable_from(ctx, m, n, NORMAL_KINDS)
        later_inc = [x for x in cfg.nodes if x.id in after and ((x.kind == "stmt" and isinstance(x.ast, ast.AugAssign) and ctx.src(x.ast.target).endswith("stage_num")) or any(
            (set(s.targets()) & inc_fns) or any(q in ctx.ix.functions and (ctx.cg.reachable_from(q) & inc_fns if hasattr(ctx.cg, "reachable_from") else False) for q in s.targets()) for s in ctx.cg.sites_in(m) if s.node in cfg.calls_at(x)))]
        r.check(not later_inc and ctx.src(n.ast.value) == "str(self.stage_num)", "the exported stage id is the recorded stage, read after it advanced", key_of(m, "stage id exported before the stage advances"), m.loc(n.ast),
                f"`{ctx.src(n.ast)}` in {m.short} is followed by the stage increment (directly or in a callee): the variable carries the previous stage's number, so an auto-config script keyed on it "
                "configures stage k again as 'stage k+1' (stage k's jobs run twice, the last stage's never)", "stage k+1 is configured and submitted only after stage k's submission is complete, each stage is submitted exactly once")


@rule(P, "C15.11", "T13", "a stage is complete only when every job is done (never from the counters alone)", min_obligations=2)
def c15_11(ctx, r):
    from .c03 import c03_4

    c03_4(ctx, r)


@rule(P, "C15.12", "T6", "pipeline.json is written only by the steps that advance or create the pipeline - loading it (status, any CLI start-up) never rewrites it", min_obligations=3)
def c15_12(ctx, r):
    """pipeline.json has no lock and no version; its consistency rests on there being one writer at a time: the process that creates the
    pipeline, then the single completing stage that calls submit-next-stage.  A write on the *load* path (constructor, load(), a property)
    lets any concurrent reader - `jade pipeline status` - put back a stale copy: stage_num goes backwards, the running stage's notification is
    then rejected and the later stages are never submitted.  Decided: who may reach PipelineManager._serialize."""
    ser = ctx.fn(f"{PM}._serialize", "C15.12")
    allowed = {f"{PM}.create", f"{PM}._submit_next_stage"}
    callers = {}
    for s in ctx.cg.call_sites_of(ser.qual):
        callers.setdefault(s.fn.short, []).append(s)
    if not callers:
        raise AnalysisError("C15.12", "no caller of PipelineManager._serialize")
    for short, sites in sorted(callers.items()):
        f = sites[0].fn
        r.check(short in allowed, f"{short} may write pipeline.json", key_of(f, "writes pipeline.json"), sites[0].loc,
                f"{short} calls _serialize(): pipeline.json is rewritten outside the create / advance steps (only {sorted(allowed)} may). The file has no lock, so a process that merely loads the pipeline "
                "can write back a stale copy over a stage advance made in between", "stage k+1 is submitted once, after stage k completes")
    # other writers of the file: open(self._config_file, "w") / dump_data(..., self._config_file) outside _serialize
    cls = ctx.cls(PM, "C15.12")
    for m in cls.methods.values():
        if m is ser or m.kind == "staticmethod":
            continue
        w = [c for c in iter_own(m.node) if isinstance(c, ast.Call) and any("_config_file" in ctx.src(a) for a in c.args) and (ctx.src(c.func) in ("open", "dump_data") or ctx.src(c.func).endswith(".write_text"))
             and (ctx.src(c.func) != "open" or any(isinstance(a, ast.Constant) and isinstance(a.value, str) and set(a.value) & set("wa+") for a in list(c.args[1:]) + [k.value for k in c.keywords]))]
        r.check(not w, f"{m.short} does not write pipeline.json itself", key_of(m, "direct pipeline.json write"), m.loc(w[0]) if w else m.loc(m.node), f"{m.short} writes the pipeline file directly: `{ctx.src(w[0]) if w else ''}`",
                "stage k+1 is submitted once")


@rule(P, "C15.13", "T2", "the internal submit-next-stage command always hands the report to the pipeline manager - whatever the stage's return code", min_obligations=1)
def c15_13(ctx, r):
    """A stage that ends with missing jobs reports return code 1.  The pipeline must still record that code and go on (C15.3 decides what the
    manager does with it).  An early exit of the CLI command for a non-zero code - before PipelineManager.submit_next_stage() - leaves
    pipeline.json at stage k with no return code, and the completing submitter ignores the command's exit status: the pipeline just stops."""
    fn = ctx.fn("pipeline.submit_next_stage", "C15.13")
    cfg = ctx.cfg(fn)
    calls = [n for s in ctx.sites(fn, short=f"{PM}.submit_next_stage") for n in ctx.nodes_of(fn, s.node)]
    if not calls:
        raise AnalysisError("C15.13", "the command no longer calls PipelineManager.submit_next_stage")
    exits = [n for n in cfg.nodes if n.kind == "stmt" and ((isinstance(n.ast, ast.Expr) and isinstance(n.ast.value, ast.Call) and ctx.src(n.ast.value.func) in ("sys.exit", "exit", "os._exit")) or isinstance(n.ast, ast.Return))]
    for n in exits:
        r.check(dominated_by(ctx, fn, n, calls, ALL_KINDS), "the command exits only after the manager was told", key_of(fn, "exit before the pipeline manager is told"), fn.loc(n.ast),
                f"`{ctx.src(n.ast)}` (under {sorted(('' if p else 'not ') + f for f, p in guard_forms(ctx, fn, n))}) leaves the command before mgr.submit_next_stage(): for those reports the finished stage's return code is never "
                "recorded, the stage counter never advances and the later stages are never submitted", "stage k+1 is configured and submitted ... per-stage return codes match what happened")
    for c in calls:
        forms = guard_forms(ctx, fn, c)
        r.check(not forms, "the hand-over is unconditional", key_of(fn, "conditional hand-over"), fn.loc(c.stmt), f"mgr.submit_next_stage() is called only under {sorted(f for f, p in forms)}", "stage k+1 is configured and submitted")

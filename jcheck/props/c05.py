"""C05 - a submission makes progress and completes exactly once."""

import ast

from .. import AnalysisError
from ..cfg import ALL_KINDS, NORMAL_KINDS, iter_own
from ..lib import always_followed_by, attr_stores, dominated_by, guard_forms, key_of, norm, render, return_conditions, type_is
from ..report import describe, rule
from .common import ROLE_SITES, report_role

P = "C05"

describe(
    P,
    "Decides necessary conditions of progress and of once-only completion: the results summary is written before the "
    "completion mark; the completion step is a single funnel outside any loop; the round's completion decision is True only "
    "if all jobs are done or - the forced path that the documented try-submit-jobs recovery relies on - no batch id is active "
    "(both paths must exist); nothing is submitted after completion (try-submit-jobs exits on a complete submission, "
    "resubmit-jobs first re-opens it); the flag is set under `assert not is_complete`; the submitter role is released on "
    "every normal exit of the five role-holding commands (otherwise no later round can ever act); the crashed-round marker "
    "is removed on every normal path of a round (otherwise the next round refuses for ever); the batch config carries the "
    "remaining, not the original, blockers (otherwise a node waits for ever)."
    " A candidate refused by a full batch stays in the remainder (the cursor is rewound on the refusal path); the forced-completion branch depends on nothing but 'not done' and 'no active id' (plus the FAKE exemption).",
    ["role exclusivity (C10)", "a finishing node spawns try-submit-jobs (cli/run_jobs.py, checked as a spawn site)"],
    "liveness ('after finitely many rounds'), 'one try-submit-jobs either hands a batch or completes', and 'a round leaves an unblocked job "
    "unsubmitted only at the max-nodes limit' quantify over histories and over the cursor arithmetic of batch construction; only the necessary conditions above are checked.",
)


@rule(P, "C05.1", "T2", "the results summary is written before the completion mark", min_obligations=2)
def c05_1(ctx, r):
    fn = ctx.fn("JobSubmitter._handle_completion", "C05.1")
    sw = ctx.nodes_with_effect(fn, "SUMMARY_WRITE")
    mc = [n for s in ctx.sites(fn, short="Cluster.mark_complete") for n in ctx.nodes_of(fn, s.node)]
    if not mc:
        r.bad(key_of(fn, "never marks complete"), fn.loc(), "_handle_completion never marks the submission complete: every later round repeats the completion step", "completion happens once")
        return
    for n in mc:
        r.check(bool(sw) and dominated_by(ctx, fn, n, sw, ALL_KINDS), "write_results_summary dominates mark_complete", key_of(fn, "mark_complete before summary"), fn.loc(n.stmt),
                "the completion flag can be set before results.json exists: a reader that sees is_complete finds no (or stale) results", "the results summary is written before it")
    # every normal path marks completion (through *some* mark_complete call: `if not reports: mark; return` + `reports(); mark` is fine)
    r.check(always_followed_by(ctx, fn, ctx.cfg(fn).entry, mc + [ctx.cfg(fn).raise_exit], NORMAL_KINDS), "every normal path of the completion step marks completion", key_of(fn, "path without mark_complete"), fn.loc(),
            "a normal path through _handle_completion does not mark completion" + (f" (mark_complete is guarded by {sorted({f for n in mc for f, p in guard_forms(ctx, fn, n)})})" if any(guard_forms(ctx, fn, n) for n in mc) else ""),
            "the completion flag is set")


@rule(P, "C05.2", "T6", "single completion funnel, outside any loop", min_obligations=4)
def c05_2(ctx, r):
    from .c03 import c03_2

    c03_2(ctx, r)


@rule(P, "C05.3", "T13", "a round reports completion only if all jobs are done or no batch is active - and both paths exist", min_obligations=3)
def c05_3(ctx, r):
    completion_decision(ctx, r, "C05.3")


def completion_decision(ctx, r, rid):
    fn = ctx.fn("HpcSubmitter._is_complete", rid)
    cfg = ctx.cfg(fn)
    rets = [n for n in cfg.nodes if n.kind == "stmt" and isinstance(n.ast, ast.Return)]
    named = [n for n in rets if isinstance(n.ast.value, ast.Name)]
    if len(named) != 1:
        raise AnalysisError(rid, "_is_complete does not end in `return <flag>`")
    var = named[0].ast.value.id
    for n in rets:
        # `if <flag>: return True` before the forced-completion part answers the same as falling through to `return <flag>`
        if n is not named[0] and not (isinstance(n.ast.value, ast.Constant) and n.ast.value.value is True and any(p and f == var for f, p in guard_forms(ctx, fn, n))):
            raise AnalysisError(rid, f"_is_complete has an early `{ctx.src(n.ast)}` that is not `if <flag>: return True`")
    rets = named
    defs = [n for n in cfg.nodes if n.kind == "stmt" and isinstance(n.ast, ast.Assign) and ctx.src(n.ast.targets[0]) == var]
    base = [n for n in defs if isinstance(n.ast.value, ast.Call) and ctx.cg.site_of(fn, n.ast.value) is not None and ctx.cg.site_of(fn, n.ast.value).calls_short(ctx.ix, "Cluster.are_all_jobs_complete")]
    forced = [n for n in defs if isinstance(n.ast.value, ast.Constant) and n.ast.value.value is True]
    other = [n for n in defs if n not in base and n not in forced]
    r.check(len(base) == 1 and not other, "the answer starts from Cluster.are_all_jobs_complete()", key_of(fn, "base answer"), fn.loc(),
            f"_is_complete derives its answer from {[ctx.src(n.ast) for n in defs]}", "the completion flag is set only when every job has a result")
    if not forced:
        r.bad(key_of(fn, "forced completion path missing"), fn.loc(),
              "the forced-completion path is gone: when a batch failed to submit, was killed or timed out, its jobs never get results, are_all_jobs_complete() stays False and the submission never completes",
              "after finitely many rounds the submission is complete / affected jobs are reported as missing once no batch remains active")
    for n in forced:
        forms = guard_forms(ctx, fn, n)
        no_active = any((not p) and f == "<JobStatus.hpc_job_ids>" for f, p in forms)
        not_done = any((not p) and f == var for f, p in forms)
        r.check(no_active, "forced completion only when no HPC batch id is active", key_of(fn, "forced completion guard"), fn.loc(n.ast),
                "completion is forced although batches are still active: their jobs are reported missing while they run, and their results arrive after completion",
                "once no batch remains active", guards=sorted(("" if p else "not ") + f for f, p in forms))
        extra = sorted({("" if p else "not ") + f for f, p in forms if not (f == var or "hpc_job_ids" in f or "HpcType.FAKE" in f or "are_all_jobs_complete" in f)})
        r.check(not extra, "forced completion depends on nothing else", key_of(fn, f"forced completion also requires {extra}"), fn.loc(n.ast),
                f"completion is forced only if additionally {extra}: with no batch active and that condition false (e.g. a job that can never be submitted because it waits for a missing job) "
                "every later round returns 'not complete' and the submission never completes", "The submission still reaches completion after the documented try-submit-jobs",
                guards=sorted(("" if p else "not ") + f for f, p in forms))
        fake = [f for f, p in forms if "HpcType.FAKE" in f]
        r.check(all(("==" in f) for f in fake), "only the FAKE scheduler is exempt", key_of(fn, "fake exemption"), fn.loc(n.ast), f"forced completion exemption changed: {fake}")
    # hpc_job_ids read here is the list persisted by this round's status update: _is_complete is called after _update_status
    run = ctx.fn("HpcSubmitter.run", rid)
    ic = [n for s in ctx.some_sites(run, rid, short="HpcSubmitter._is_complete") for n in ctx.nodes_of(run, s.node)]
    upd = [n for s in ctx.sites(run, short="HpcSubmitter._update_status") for n in ctx.nodes_of(run, s.node)]
    for n in ic:
        r.check(bool(upd) and dominated_by(ctx, run, n, upd, NORMAL_KINDS), "the decision is taken after this round's status update", key_of(run, "decision before update"), run.loc(n.stmt),
                "the completion decision reads the active ids / job states of the previous round")
    rets_run = [n for n in ctx.cfg(run).nodes if n.kind == "stmt" and isinstance(n.ast, ast.Return)]
    def _is_decision(n):
        v = n.ast.value
        if isinstance(v, ast.Name):
            ud = ctx.rd(run).unique_def(n, v.id)
            v = ud[1] if ud else None
        site = ctx.cg.site_of(run, v) if isinstance(v, ast.Call) else None
        return site is not None and site.calls_short(ctx.ix, "HpcSubmitter._is_complete")

    okr = any(_is_decision(n) for n in rets_run if n.ast.value is not None)
    r.check(okr, "HpcSubmitter.run returns that decision", key_of(run, "returns decision"), run.loc(), "HpcSubmitter.run does not return the result of _is_complete()")


@rule(P, "C05.4", "T1", "nothing is submitted after completion", min_obligations=3)
def c05_4(ctx, r):
    fn = ctx.fn("try_submit_jobs.try_submit_jobs", "C05.4")
    for s in ctx.some_sites(fn, "C05.4", short="JobSubmitter.submit_jobs"):
        for n in ctx.nodes_of(fn, s.node):
            # kill=True: the test must be about the handle that is submitted (a test on a handle loaded *before* promotion is stale:
            # another node may complete the submission in between, and completion - teardown, reports, next stage - would run twice)
            forms = guard_forms(ctx, fn, n, ALL_KINDS, kill=True)
            r.check(("<ClusterConfig.is_complete>", False) in forms, "try-submit-jobs submits only if the promoted handle says the submission is not complete", key_of(fn, "submit on complete submission"), s.loc,
                    "try-submit-jobs runs a submitter round without having tested is_complete on the handle it was promoted with (no test, or a test on a handle loaded before promotion): "
                    "on a complete submission batches are submitted / the completion step (teardown, reports, next pipeline stage) runs again",
                    "no batch is ever submitted afterwards", guards=sorted(("" if p else "not ") + f for f, p in forms))
    rs = ctx.fn("resubmit_jobs.resubmit_jobs", "C05.4")
    prep = [n for s in ctx.some_sites(rs, "C05.4", short="Cluster.prepare_for_resubmission") for n in ctx.nodes_of(rs, s.node)]
    for s in ctx.some_sites(rs, "C05.4", short="JobSubmitter.submit_jobs"):
        for n in ctx.nodes_of(rs, s.node):
            r.check(dominated_by(ctx, rs, n, prep, ALL_KINDS), "resubmit-jobs re-opens the submission before submitting", key_of(rs, "submit before prepare"), s.loc,
                    "resubmit-jobs submits without prepare_for_resubmission: batches are submitted for a submission still marked complete")
    pf = ctx.ix.try_func("Cluster._prepare_for_resubmission") or ctx.fn("Cluster.prepare_for_resubmission", "C05.4")
    okc = any(isinstance(n, ast.Assign) and ctx.src(n.targets[0]).endswith("is_complete") and ctx.src(n.value) == "False" for n in iter_own(pf.node))
    r.check(okc, "prepare_for_resubmission clears is_complete", key_of(pf, "clears is_complete"), pf.loc(), "prepare_for_resubmission no longer clears is_complete")
    # show-status: only offers try-submit-jobs on an incomplete submission
    ss = ctx.fn("show_status.show_status", "C05.4")
    # ... and what it compares with HpcJobStatus.NONE is a status (HpcManager.check_status hands back the status field)
    from ..lib import only_return

    hc = ctx.fn("HpcManager.check_status", "C05.4")
    rx = only_return(ctx, hc)
    cmp_sites = [n for n in iter_own(ss.node) if isinstance(n, ast.Compare) and any("HpcJobStatus.NONE" in ctx.src(c) for c in n.comparators)]
    if cmp_sites:
        okst = False
        if isinstance(rx, ast.Attribute) and rx.attr == "status":
            base = rx.value
            rn = [n for n in ctx.cfg(hc).nodes if n.kind == "stmt" and isinstance(n.ast, ast.Return)]
            base = ctx.guards(hc).expand(base, rn[0]) if isinstance(base, ast.Name) and rn else base
            site = ctx.cg.site_of(hc, base) if isinstance(base, ast.Call) else None
            okst = site is not None and any(ctx.ix.functions[q].name == "check_status" for q in site.targets() if q in ctx.ix.functions)
        r.check(okst, "HpcManager.check_status returns the status of the interface's answer", key_of(hc, "returns status"), hc.loc(),
                f"HpcManager.check_status returns `{ctx.src(rx) if rx is not None else None}` (rendered {render(ctx, hc, rx) if rx is not None else None}), which show-status compares with HpcJobStatus.NONE: "
                "the comparison can never be equal, so show-status never detects that all recorded batches are gone and never offers / runs try-submit-jobs",
                "the documented recovery, also offered by show-status")
    from .common import spawn_sites

    for s in spawn_sites(ctx, ss, "jade try-submit-jobs"):
        for n in ctx.nodes_of(ss, s.node):
            forms = guard_forms(ctx, ss, n, ALL_KINDS, kill=False)
            r.check(("<ClusterConfig.is_complete>", False) in forms, "show-status spawns try-submit-jobs only for an incomplete submission", key_of(ss, "spawn on complete"), s.loc, "show-status offers try-submit-jobs on a complete submission")


@rule(P, "C05.5", "T1", "the completion flag is set under `assert not is_complete`", min_obligations=2)
def c05_5(ctx, r):
    fn = ctx.fn("Cluster._mark_complete", "C05.5")
    cfg = ctx.cfg(fn)
    st = [n for n in cfg.nodes if n.kind == "stmt" and isinstance(n.ast, ast.Assign) and ctx.src(n.ast.targets[0]).endswith("is_complete") and ctx.src(n.ast.value) == "True"]
    if not st:
        r.bad(key_of(fn, "flag never set"), fn.loc(), "_mark_complete does not set is_complete = True", "completion happens once")
        return
    for n in st:
        forms = guard_forms(ctx, fn, n, ALL_KINDS, kill=False)
        r.check(("<ClusterConfig.is_complete>", False) in forms, "is_complete = True only if it was False (assert)", key_of(fn, "assert not complete"), fn.loc(n.ast),
                "completion can be marked twice without anyone noticing (teardown / reports / next pipeline stage run twice)", "completion happens once")
    r.check(ctx.must(fn, "SERIALIZE_CONFIG"), "_mark_complete serialises the flag", key_of(fn, "serialize"), fn.loc(), "the completion flag is not serialised on every path")
    r.check(ctx.is_locked_only(fn, "cluster"), "_mark_complete runs only under the cluster lock", key_of(fn, "locked-only"), fn.loc(), "_mark_complete is reachable without the cluster lock")


@rule(P, "C05.6", "T5", "the submitter role is released on every normal exit of the five role-holding commands", min_obligations=5)
def c05_6(ctx, r):
    report_role(ctx, r, ROLE_SITES, {"leak"}, "after finitely many rounds the submission is complete (a role that is never released blocks every later round)")


@rule(P, "C05.7", "T3", "the crashed-round marker is removed on every normal path of a round", min_obligations=2)
def c05_7(ctx, r):
    from .c11 import marker_nodes

    fn = ctx.fn("HpcSubmitter.run", "C05.7")
    cfg = ctx.cfg(fn)
    tests, sets, clears, var = marker_nodes(ctx, fn)
    if not sets:
        raise AnalysisError("C05.7", "marker is never set (C11.1 reports that)")
    for s in sets:
        ok = bool(clears) and always_followed_by(ctx, fn, s, clears, NORMAL_KINDS)
        r.check(ok, "MARKER_SET is followed by MARKER_CLEAR on every normal path", key_of(fn, "marker left on a normal path"), fn.loc(s.stmt),
                "a round that ends normally can leave submitter.lock behind: the next round raises 'a previous submitter crashed' and the submission never finishes",
                "after finitely many rounds the submission is complete")
        r.check(not cfg.in_loop(s), "marker set once per round", key_of(fn, "marker in loop"), fn.loc(s.stmt), "marker set inside a loop")
    for c in clears:
        r.check(not guard_forms(ctx, fn, c), "MARKER_CLEAR is unconditional on the normal path", key_of(fn, "conditional clear"), fn.loc(c.stmt), f"marker removal guarded by {sorted(f for f, p in guard_forms(ctx, fn, c))}")


@rule(P, "C05.8", "T8", "the batch config carries the remaining blockers; a finishing node triggers the next round", min_obligations=3)
def c05_8(ctx, r):
    from .c02 import c02_3

    c02_3(ctx, r)
    # node side: after a good run with the distributed submitter, try-submit-jobs is spawned
    from .common import spawn_sites

    cli = ctx.fn("run_jobs.run_jobs", "C05.8")
    ts = ctx.some_sites(cli, "C05.8", short="run_jobs._try_submit_jobs")
    for s in ts:
        for n in ctx.nodes_of(cli, s.node):
            forms = {(f, p) for f, p in guard_forms(ctx, cli, n)}
            extra = sorted(("" if p else "not ") + f for f, p in forms if f != "distributed_submitter" and "Status.GOOD" not in f)
            r.check(not extra and ("distributed_submitter", True) in forms, "a finishing node runs try-submit-jobs whenever the distributed submitter is on and its jobs ran", key_of(cli, "node round trigger"), s.loc,
                    f"the node's try-submit-jobs is additionally guarded by {extra}: the last node may not trigger completion", "whenever all running batches have ended ... one try-submit-jobs ...")
    h = ctx.fn("run_jobs._try_submit_jobs", "C05.8")
    r.check(bool(spawn_sites(ctx, h, "jade try-submit-jobs")), "the helper spawns `jade try-submit-jobs <output>`", key_of(h, "spawn"), h.loc(), "_try_submit_jobs no longer spawns jade try-submit-jobs")


@rule(P, "C05.11", "T1", "the persisted active-batch list is rewritten whenever it changed (stale ids would block forced completion for ever)", min_obligations=1)
def c05_11(ctx, r):
    ids_persisted_when_changed(ctx, r, "C05.11")


def ids_persisted_when_changed(ctx, r, rid):
    us = ctx.fn("HpcSubmitter._update_status", rid)
    cfg = ctx.cfg(us)
    calls = [n for s in ctx.some_sites(us, rid, short="Cluster.update_job_status") for n in ctx.nodes_of(us, s.node)]
    from ..lib import both_orders

    same = {("<JobStatus.hpc_job_ids> == hpc_job_ids", True), ("hpc_job_ids == <JobStatus.hpc_job_ids>", True)}
    seen = set()
    stack = [cfg.entry]
    while stack:
        n = stack.pop()
        if n.id in seen or n in calls:
            continue
        seen.add(n.id)
        for d, k, c in n.succ:
            if k not in NORMAL_KINDS:
                continue
            if k in ("T", "F") and c is not None:
                if both_orders([norm(ctx, us, c, n, pol=(k == "T"))]) & same:
                    continue  # the ids did not change on this edge
            stack.append(d)
    r.check(cfg.exit.id not in seen, "update_job_status is called whenever the active ids differ from the persisted ones", key_of(us, "update skipped although active ids changed"), us.loc(),
            "_update_status can return without update_job_status although the set of active batch ids changed: when a lost batch is the only change, its id stays in job_status.json, "
            "_is_complete never sees 'no active id' and the submission never completes",
            "The submission still reaches completion after the documented try-submit-jobs")


@rule(P, "C05.9", "T2", "a round determines which batches are still active before it collects results", min_obligations=2)
def c05_9(ctx, r):
    poll_before_collect(ctx, r, "C05.9")


def poll_before_collect(ctx, r, rid):
    """A batch writes its last result before it leaves the scheduler. If results are collected first and
    the scheduler is polled afterwards, a batch that ends in between is seen as inactive although its
    last results were not collected: with no active id left the round forces completion and those jobs
    are reported missing (and the flag is set while jobs have results that were never read)."""
    run = ctx.fn("HpcSubmitter.run", rid)
    polls = ctx.nodes_with_effect(run, "POLL")
    coll = ctx.nodes_with_effect(run, "COLLECT")
    if not polls:
        r.bad(key_of(run, "no poll"), run.loc(), "HpcSubmitter.run never polls the scheduler: finished batches stay active for ever", "whenever all running batches have ended ...")
        return
    if not coll:
        r.bad(key_of(run, "no collection"), run.loc(), "HpcSubmitter.run never collects results", "the completion flag is set only when every job has a result")
        return
    for c in coll:
        r.check(dominated_by(ctx, run, c, polls, NORMAL_KINDS), "the scheduler poll dominates the result collection of the round", key_of(run, "results collected before the poll"), run.loc(c.stmt),
                "results are collected before the scheduler is polled: a batch that finishes between the two is counted inactive although its last results were not collected, so with no active id left "
                "completion is forced and finished jobs are reported missing (the later try-submit-jobs exits early on the flag and never collects them)",
                "the completion flag is set only when every job has a result")
    # the decision reads the ids persisted from the poll of this same round
    dec = [n for s in ctx.some_sites(run, rid, short="HpcSubmitter._is_complete") for n in ctx.nodes_of(run, s.node)]
    for d in dec:
        r.check(all(dominated_by(ctx, run, d, [c], NORMAL_KINDS) for c in coll[:1]) and dominated_by(ctx, run, d, polls, NORMAL_KINDS), "the completion decision follows both", key_of(run, "decision order"), run.loc(d.stmt),
                "the completion decision is taken before the poll / the collection of this round")


@rule(P, "C05.10", "T1+T11", "a job whose blockers have outcomes is unblocked whatever those outcomes are (unless it is canceled)", min_obligations=2)
def c05_10(ctx, r):
    from .c04 import c04_6

    c04_6(ctx, r)


def refused_candidate_stays(ctx, r, rid):
    """A candidate that a full batch refuses (try_append() False) must be offered to the next batch of the same
    round.  With a cursor-based remainder (`available[cursor + 1:]`) that means the refusal path rewinds the cursor
    below the refused job; a remainder that is filtered only by the placed-names set needs nothing."""
    from .c01 import _try_append_test

    mb = ctx.fn("HpcSubmitter._make_batch", rid)
    cfg = ctx.cfg(mb)
    site, ta = _try_append_test(ctx, mb)
    rets = [n for n in cfg.nodes if n.kind == "stmt" and isinstance(n.ast, ast.Return)]
    if len(rets) != 1 or not isinstance(rets[0].ast.value, ast.Tuple) or len(rets[0].ast.value.elts) != 2:
        raise AnalysisError(rid, "_make_batch does not return (batch, remainder)")
    rem = rets[0].ast.value.elts[1]
    defs = [ctx.rd(mb).defs_at[d].get(rem.id) for d in ctx.rd(mb).reaching(rets[0], rem.id)] if isinstance(rem, ast.Name) else [rem]
    cursors = set()
    for d in defs:
        if not isinstance(d, ast.AST):
            raise AnalysisError(rid, "remainder definition is not an expression")
        for x in ast.walk(d):
            if isinstance(x, ast.Subscript) and isinstance(x.slice, ast.Slice) and x.slice.lower is not None:
                cursors |= {y.id for y in ast.walk(x.slice.lower) if isinstance(y, ast.Name)}
    if not cursors:
        r.ok("the remainder is not cut at a cursor: a refused candidate is not in the placed set, so it stays", defs=[ctx.src(d)[:80] for d in defs])
        return
    rewinds = [n for n in cfg.nodes if n.kind == "stmt" and isinstance(n.ast, ast.AugAssign) and isinstance(n.ast.op, ast.Sub) and isinstance(n.ast.target, ast.Name) and n.ast.target.id in cursors]
    blocked = {n.id for n in rewinds}
    loops = ctx.enclosing(mb, site.node, (ast.For, ast.While))
    if not loops:
        raise AnalysisError(rid, "try_append is not inside the candidate scan")
    inner = loops[0]
    head = [n for n in cfg.nodes if n.kind == "for" and n.ast is inner]
    seen, stack, escaped = set(), [d for d, k, _ in ta.succ if k == "F"], None
    while stack:
        n = stack.pop()
        if n.id in seen or n.id in blocked:
            continue
        seen.add(n.id)
        st = n.stmt if n.stmt is not None else n.ast
        inside = st is not None and st is not inner and any(l is inner for l in ctx.enclosing(mb, st, (ast.For, ast.While)))
        if (head and n is head[0]) or not inside:
            escaped = n
            break
        stack.extend(d for d, k, _ in n.succ if k in NORMAL_KINDS)
    r.check(escaped is None, "the refusal path moves the remainder cursor back below the refused job", key_of(mb, "refused candidate dropped from the remainder"), mb.loc(site.node),
            f"when try_append() refuses a job (the batch is full) the scan continues / ends without rewinding `{sorted(cursors)[0]}`: the remainder `{'; '.join(ctx.src(d)[:60] for d in defs if ctx.src(d) != '[]')}` starts "
            "behind the refused job, so it is not offered to the next batch of this round although its blockers have outcomes and the node limit is not reached",
            "A submitter round leaves a job whose blockers all have outcomes unsubmitted only when the max-nodes limit is reached")


@rule(P, "C05.12", "T3", "a candidate refused by a full batch is offered to the next batch of the same round", min_obligations=1)
def c05_12(ctx, r):
    refused_candidate_stays(ctx, r, "C05.12")


@rule(P, "C05.13", "T9+T1", "a batch counts as ended only if the scheduler says finished or absent (else completion is forced under running batches)", min_obligations=6)
def c05_13(ctx, r):
    from .c18 import c18_3

    c18_3(ctx, r)


def placed_not_reported_blocked(ctx, r, rid):
    """_make_batch scans the candidates several times (try_add_blocked_jobs): a job recorded as blocked by an earlier
    pass and placed by a later one must leave the blocked collection - otherwise the round reports it both submitted
    and blocked, the status update asserts under the cluster lock after sbatch already ran, the crashed-round marker
    stays and every later round refuses."""
    from .c01 import _try_append_test

    mb = ctx.fn("HpcSubmitter._make_batch", rid)
    cfg = ctx.cfg(mb)
    site, ta = _try_append_test(ctx, mb)
    # collections the 'blocked' branch inserts into: X[job.name] = job under is_job_blocked() True
    blocked = set()
    for n in cfg.nodes:
        a = n.ast
        if n.kind == "stmt" and isinstance(a, ast.Assign) and isinstance(a.targets[0], ast.Subscript) and isinstance(a.targets[0].value, ast.Name):
            if any(p and "is_job_blocked" in f for f, p in guard_forms(ctx, mb, n)):
                blocked.add(a.targets[0].value.id)
    if not blocked:
        raise AnalysisError(rid, "no collection of blocked jobs found in _make_batch")
    loops = [l for l in ctx.enclosing(mb, site.node, (ast.For, ast.While))]
    multi = len(loops) >= 2
    for x in sorted(blocked):
        removed = False
        for n in cfg.nodes:
            for c in cfg.calls_at(n):
                if isinstance(c.func, ast.Attribute) and c.func.attr in ("pop", "discard", "remove") and isinstance(c.func.value, ast.Name) and c.func.value.id == x:
                    if any(p and f.startswith("call:_BatchJobs.try_append(") for f, p in guard_forms(ctx, mb, n)):
                        removed = True
            if n.kind == "stmt" and isinstance(n.ast, ast.Delete) and any(isinstance(t, ast.Subscript) and ctx.src(t.value) == x for t in n.ast.targets):
                if any(p and f.startswith("call:_BatchJobs.try_append(") for f, p in guard_forms(ctx, mb, n)):
                    removed = True
        # alternative: the blocked list handed back is filtered by the placed-names set
        filtered = any(isinstance(n2, ast.comprehension) and x in ast.unparse(n2.iter) and any("not in" in ast.unparse(i) for i in n2.ifs) for n2 in ast.walk(mb.node))
        r.check(removed or filtered or not multi, f"a job placed by a later pass leaves `{x}`", key_of(mb, f"placed job stays in {x}"), mb.loc(site.node),
                f"the scan is multi-pass and a placed job is never removed from `{x}`: a dependent listed before its blocker is first recorded as blocked, then placed, and the round reports it both submitted and blocked - "
                "Cluster._update_job_status asserts under the cluster lock after the batch was handed to the HPC, the marker and the lock file stay behind and no later round can run",
                "one try-submit-jobs ... either hands at least one new batch to the HPC or completes the submission")


@rule(P, "C05.14", "T3", "within one batch construction a job is reported either placed or blocked, never both", min_obligations=1)
def c05_14(ctx, r):
    placed_not_reported_blocked(ctx, r, "C05.14")


@rule(P, "C05.15", "T1+T13", "a constructed batch is always handed off, never parked in a queue nobody polls (its jobs would be 'submitted' without ever running)", min_obligations=5)
def c05_15(ctx, r):
    from .c01 import c01_8

    c01_8(ctx, r)


@rule(P, "C05.16", "X0", "the recovery / trigger commands JADE spawns are well-formed: registered commands, defined options, blank-separated fragments", min_obligations=5)
def c05_16(ctx, r):
    from ..thorough import sweep_commands

    out, _ = sweep_commands(ctx, P)
    for ob in out.obligations:
        r.obligations.append(ob)
    for f in out.findings:
        f2 = dict(f)
        f2["rule"] = "C05.16"
        f2["clause"] = "one try-submit-jobs (the documented recovery, also offered by show-status) either hands at least one new batch to the HPC or completes the submission"
        r.findings.append(f2)
    if out.verdict == "UNKNOWN":
        raise AnalysisError("C05.16", out.error or "command sweep failed")


@rule(P, "C05.17", "T8", "every recorded active batch is its own queue entry at the start of a round (none drops out of the persisted list while it runs)", min_obligations=6)
def c05_17(ctx, r):
    from .c06 import c06_5

    c06_5(ctx, r)


@rule(P, "C05.18", "T7+T2", "a refused promotion changes nothing on disk (the active submitter's round is not invalidated)", min_obligations=4)
def c05_18(ctx, r):
    from .c10 import c10_2

    c10_2(ctx, r)


@rule(P, "C05.19", "T2", "completions collected by a round are persisted by that round: no normal return between the sweep and the status update", min_obligations=2)
def c05_19(ctx, r):
    """_update_completed_jobs() moves result rows into the consolidated file and hands back the names *once*; the DONE states and the reduced
    blocker sets they imply reach job_status.json only through _update_status(..., completed_job_names).  A normal return of run() in between
    (an early `return False` because the queue is full, say) loses them for good - no later round sees those rows as new - so dependents are
    never released and the submission can only end by forced completion with missing jobs."""
    run = ctx.fn("HpcSubmitter.run", "C05.19")
    cfg = ctx.cfg(run)
    sweeps = [s for s in ctx.sites(run, short="HpcSubmitter._update_completed_jobs")]
    ups = [s for s in ctx.sites(run, short="HpcSubmitter._update_status")]
    if len(sweeps) != 1 or not ups:
        raise AnalysisError("C05.19", f"{len(sweeps)} sweeps and {len(ups)} status updates in HpcSubmitter.run")
    st = ctx.stmt_of(run, sweeps[0].node)
    names = [t.id for t in (st.targets[0].elts if isinstance(st, ast.Assign) and isinstance(st.targets[0], ast.Tuple) else (st.targets if isinstance(st, ast.Assign) else [])) if isinstance(t, ast.Name)]
    if not names:
        raise AnalysisError("C05.19", "the sweep's result is not bound to locals")
    us = ctx.fn("HpcSubmitter._update_status", "C05.19")
    passed = {ctx.src(a) for s in ups for a in list(s.node.args) + [k.value for k in s.node.keywords]}
    r.check(set(names) <= passed, "every value the sweep returned is handed to _update_status", key_of(run, f"sweep results not forwarded: {sorted(set(names) - passed)}"), run.loc(st),
            f"_update_status is not given {sorted(set(names) - passed)} returned by _update_completed_jobs: the completions of this round are never recorded", "every job ... has a result recorded ... and the completion flag is set")
    upn = [n for s in ups for n in ctx.nodes_of(run, s.node)]
    for a in ctx.nodes_of(run, sweeps[0].node):
        ok = always_followed_by(ctx, run, a, upn, kinds=NORMAL_KINDS)
        r.check(ok, "every normal path from the sweep to a return passes _update_status", key_of(run, "return between sweep and status update"), run.loc(st),
                "HpcSubmitter.run can return normally after _update_completed_jobs() without calling _update_status: the rows were already moved to the consolidated file, so no later round reports them "
                "as new - their jobs are never marked done and the jobs they block are never released", "every job that is neither blocked forever nor lost ends with a result recorded")


@rule(P, "C05.20", "T9", "the submitted / blocked lists a round persists carry the cluster's job records, not the configuration's", min_obligations=3)
def c05_20(ctx, r):
    """Cluster._update_job_status copies `blocked_by` from the jobs it is handed.  The cluster's records (models.jobs.Job, from available_jobs)
    carry the blocker sets already reduced by earlier rounds; the configuration's job (config.get_job(name)) still has the original set.
    Handing the latter back restores finished blockers, and a job with two blockers that finish in different rounds is never released."""
    from ..callgraph import PARAM_TYPES

    mb = ctx.fn("HpcSubmitter._make_batch", "C05.20")
    src_p = mb.params[1]
    accs = [p for p in mb.params[2:] if PARAM_TYPES.get((mb.short, p)) == ("list", "Job")]
    if len(accs) < 2:
        raise AnalysisError("C05.20", f"_make_batch accumulator parameters typed list[Job]: {accs}")
    feeders, feeder_calls = {}, set()
    for lp in [x for x in iter_own(mb.node) if isinstance(x, ast.For)]:
        it = lp.iter
        if isinstance(it, ast.Call) and isinstance(it.func, ast.Attribute) and it.func.attr == "values" and isinstance(it.func.value, ast.Name) and isinstance(lp.target, ast.Name):
            if any(isinstance(c, ast.Call) and isinstance(c.func, ast.Attribute) and c.func.attr == "append" and isinstance(c.func.value, ast.Name) and c.func.value.id in accs
                   and len(c.args) == 1 and isinstance(c.args[0], ast.Name) and c.args[0].id == lp.target.id for c in ast.walk(lp)):
                feeders[it.func.value.id] = lp.target.id
                feeder_calls.update(id(c) for c in ast.walk(lp) if isinstance(c, ast.Call))
    n = 0

    def is_cluster_job(e):
        t = ctx.ty.expr_type(mb, e)
        return type_is(ctx, t, "Job")

    for x in iter_own(mb.node):
        if isinstance(x, ast.Call) and isinstance(x.func, ast.Attribute) and x.func.attr == "append" and isinstance(x.func.value, ast.Name) and x.func.value.id in accs and len(x.args) == 1:
            if id(x) in feeder_calls:
                continue
            n += 1
            r.check(is_cluster_job(x.args[0]), f"{x.func.value.id}.append(...) adds a cluster job record", key_of(mb, f"{x.func.value.id} receives {ctx.src(x.args[0])}"), mb.loc(x),
                    f"`{ctx.src(x)}` puts `{ctx.src(x.args[0])}` (not a cluster Job record from `{src_p}`) on the list persisted by update_job_status: its blocked_by / state are the configuration's, "
                    "so blockers removed by earlier rounds come back", "every job that is neither blocked forever nor lost ends with a result")
        if isinstance(x, ast.Assign) and len(x.targets) == 1 and isinstance(x.targets[0], ast.Subscript) and isinstance(x.targets[0].value, ast.Name) and x.targets[0].value.id in feeders:
            n += 1
            r.check(is_cluster_job(x.value), f"{x.targets[0].value.id}[...] holds a cluster job record", key_of(mb, f"{x.targets[0].value.id} receives {ctx.src(x.value)}"), mb.loc(x),
                    f"`{ctx.src(x)}` stores `{ctx.src(x.value)}` - the configuration's job, not the cluster's record from `{src_p}` - in the map whose values are persisted as this round's blocked jobs: "
                    "update_job_status copies its *original* blocked_by back, restoring blockers that earlier rounds had removed; a job whose blockers finish in different rounds is never submitted",
                    "every job that is neither blocked forever nor lost ends with a result")
    if n < 2:
        raise AnalysisError("C05.20", f"{n} stores into the persisted lists recognised in _make_batch")
    r.ok(f"accumulators {accs}, fed through {sorted(feeders)}")
    # the candidate listers hand _make_batch cluster records as well (both siblings: by count and by time)
    for lname in ("HpcSubmitter._get_available_jobs", "HpcSubmitter._get_available_jobs_by_time"):
        lf = ctx.fn(lname, "C05.20")
        m = 0
        for x in iter_own(lf.node):
            v = None
            if isinstance(x, ast.Assign) and len(x.targets) == 1 and isinstance(x.targets[0], ast.Subscript) and isinstance(x.targets[0].value, ast.Name):
                v = x.value
            elif isinstance(x, ast.Call) and isinstance(x.func, ast.Attribute) and x.func.attr == "append" and len(x.args) == 1 and not isinstance(x.args[0], ast.Tuple):
                v = x.args[0]
            if v is None and isinstance(x, ast.ListComp) and len(x.generators) == 1:
                v = x.elt          # `[job for job in ... if ...]` form of the same list
            if v is None:
                continue
            t = ctx.ty.expr_type(lf, v)
            if (t is None or t[0] != "cls") and isinstance(x, ast.ListComp) and isinstance(v, ast.Name):
                # the comprehension variable: typed by what it iterates
                it = ctx.ty.expr_type(lf, x.generators[0].iter)
                t = it[1] if it and it[0] == "list" else t
            if t is None or t[0] != "cls":
                continue
            m += 1
            r.check(type_is(ctx, t, "Job"), f"{lname.split('.')[-1]} lists cluster job records", key_of(lf, f"candidate list receives {ctx.src(v)}"), lf.loc(x),
                    f"`{ctx.src(x)}` puts `{ctx.src(v)}` - the configuration's job - among the batch candidates: blockedness is then judged on the *original* blocked_by of config.json and written back by the status "
                    "update, so a dependent whose blocker finished in an earlier batch is never submitted", "a job whose blockers all have outcomes is left unsubmitted only when the max-nodes limit is reached")
        if m < 1:
            raise AnalysisError("C05.20", f"no typed candidate store recognised in {lname}")


@rule(P, "C05.21", "T2", "a try-submit-jobs round always reaches the submitter: nothing returns from submit_jobs before the local run or the HPC round", min_obligations=1)
def c05_21(ctx, r):
    """`one try-submit-jobs either hands a batch or completes the submission` - and the recovery round the documentation relies on is run from
    wherever the user is (a login node: no SLURM_NODEID, not 'the manager node').  JobSubmitter.submit_jobs must therefore reach
    _submit_to_hpc() (or the local runner) on every normal path; an early return for some class of hosts makes every recovery attempt from
    those hosts a no-op."""
    fn = ctx.fn("JobSubmitter.submit_jobs", "C05.21")
    cfg = ctx.cfg(fn)
    work = [n for s in ctx.sites(fn, short="JobSubmitter._submit_to_hpc") for n in ctx.nodes_of(fn, s.node)] + [n for s in ctx.sites(fn, short="JobRunner.run_jobs") for n in ctx.nodes_of(fn, s.node)]
    if len(work) < 2:
        raise AnalysisError("C05.21", f"{len(work)} submission sites (HPC round, local run) in JobSubmitter.submit_jobs")
    ok = always_followed_by(ctx, fn, cfg.entry, work + [cfg.raise_exit], NORMAL_KINDS)
    rets = [n for n in cfg.nodes if n.kind == "stmt" and isinstance(n.ast, ast.Return) and not any(dominated_by(ctx, fn, n, [w]) for w in work)]
    r.check(ok, "every normal path of submit_jobs runs the HPC round or the local run", key_of(fn, "round returns before submitting"), fn.loc(rets[0].ast) if rets else fn.loc(fn.node),
            "JobSubmitter.submit_jobs can return normally without having called _submit_to_hpc() or the local runner" + (f" (guards of the early return: {sorted(f for f, p in guard_forms(ctx, fn, rets[0]))[:3]})" if rets else "") +
            ": a try-submit-jobs on that path neither hands a batch nor completes the submission - the recovery round is a no-op there", "one try-submit-jobs either hands at least one new batch to the HPC or completes the submission")


@rule(P, "C05.22", "T1", "show-status can always poll a carried batch id: an id the scheduler has purged reads as 'gone', not as an error", min_obligations=2)
def c05_22(ctx, r):
    """The recovery `also offered by show-status` starts by polling the ids recorded in job_status.json with `squeue -j`.  For an id SLURM has
    purged squeue fails with 'Invalid job id specified' on *stderr*; check_status must turn exactly that into NONE.  Looking for the text in
    another stream makes the command raise instead, and show-status dies before it can run try-submit-jobs - every time."""
    from .c18 import c18_7

    c18_7(ctx, r)

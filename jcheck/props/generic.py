"""Contradiction lints that need no property-specific knowledge, applied per property to the functions the property's own rules name as anchors
(so that a report always concerns code the property's decision depends on).  Registered as rule <Cxx>.G1 by cli.load_rules().

  G1a  argument slots: a positional argument that is a plain name equal to a *parameter name of the callee* sits in another parameter's slot,
       while that parameter itself receives something else  (swapped / shifted arguments - the call type-checks and runs, with two values exchanged).
  G1b  an expression whose static type is a plain Enum class is compared (== != in) with str/int literals only: the comparison is constant,
       so the guard it forms never (or always) fires.
  G1c  a method that takes no argument is referenced but not called, and the reference is consumed as a value (`flag = intf.am_i_manager`):
       a bound method is always truthy.
  G1d  an expression of static type str is passed to a parameter the callee iterates (`for s in error_strings`): the callee walks characters.
  G1e  a keyword argument that no parameter, attribute or string key anywhere in the package is called, passed to a callee whose **kwargs are
       only ever looked up by name: a misspelt option, dropped without a trace.
  G3   a click command of jade/cli never reads one of its own parameters: the option is accepted and ignored.  Reported by the properties
       whose statement the option belongs to (OPTION_PROPS), so that `-n` dropped by `jade pipeline create` is a C06 finding and nobody else's.
  G2   (scope: the model modules the property is anchored in) a pydantic validator with a normal path that returns no value: the field becomes None.
"""

import ast

import json
import os

from ..lib import argument_slot_mismatches, enum_literal_compares, key_of, str_for_collection_args, uncalled_getters, unknown_keywords, unused_cli_parameters, validators_without_value
from ..report import RULES, rule

# command-line option (parameter name) -> properties whose statement it is part of
OPTION_PROPS = {
    "max_nodes": ("C06",), "num_parallel_processes_per_node": ("C06",), "per_node_batch_size": ("C07",), "time_based_batching": ("C07",), "dry_run": ("C07",),
    "try_add_blocked_jobs": ("C07", "C02"), "hpc_config": ("C07", "C18"), "local": ("C03",), "poll_interval": ("C05",), "reports": ("C20",), "force": ("C03", "C10"),
    "resource_monitor_interval": ("C20",), "resource_monitor_type": ("C20",), "resource_monitor_stats": ("C20",), "enable_singularity": ("C19",), "container": ("C19",),
    "failed": ("C13",), "missing": ("C13",), "successful": ("C13",), "submission_groups_file": ("C13", "C06"), "stage_num": ("C15",), "return_code": ("C15",),
    "append_output_dir": ("C19",), "append_job_name": ("C19",), "cancel_on_blocking_job_failure": ("C04",), "minutes_per_job": ("C07", "C17"), "complete": ("C14",),
    "no_distributed_submitter": ("C07",), "distributed_submitter": ("C07",), "output": ("C10",), "config_file": ("C17",), "submitter_params": ("C07",),
}
UNUSED_OK = {("pipeline.status", "verbose")}  # read by nobody on the pinned tree as well; the command does not log

_ANCHORS = {}


def anchored_files(prop):
    if not _ANCHORS:
        path = os.path.join(os.path.dirname(os.path.dirname(os.path.dirname(os.path.abspath(__file__)))), "properties.jsonl")
        with open(path, encoding="utf-8") as f:
            for line in f:
                if line.strip():
                    rec = json.loads(line)
                    _ANCHORS[rec["id"]] = list(rec["anchors"]["files"])
    return set(_ANCHORS.get(prop, []))


def register(prop):
    rid = f"{prop}.G1"
    if any(r.id == rid for r in RULES.get(prop, [])):
        return

    @rule(prop, rid, "X1", "no exchanged call arguments and no constant enum/literal guard in the functions this property's rules analyse", min_obligations=2)
    def generic(ctx, r, prop=prop, rid=rid):
        # scope: what the other rules of this property name as their anchors (this rule is registered, hence run, last):
        # a call is examined when its *callee* is such an anchor (the property's decision depends on what that function is given),
        # a comparison when the function it stands in is one.
        named = set(ctx.named)
        fns = list(ctx.ix.functions.values())
        examined, bad = argument_slot_mismatches(ctx, fns, callees=named)
        for _ in range(examined):
            r.ok("call site: every positional name that is also a parameter name of the callee sits in its own slot (or that parameter gets the same name)")
        for fn, call, a, p in bad:
            callee = ast.unparse(call.func)
            r.bad(key_of(fn, f"argument `{a}` in slot `{p}` of {callee}"), fn.loc(call),
                  f"`{a}` is passed in the position of parameter `{p}` of {callee}(), and the parameter `{a}` receives a different value: two arguments are exchanged or shifted, so the callee "
                  "acts on the wrong flag / value although the call still runs", "the call passes each value to the parameter it is meant for")
        examined, bad = enum_literal_compares(ctx, [f for f in fns if f.qual in named])
        for _ in range(examined):
            r.ok("comparison of an Enum-typed expression is against Enum members")
        for fn, cmp_, cls in bad:
            r.bad(key_of(fn, f"{cls} compared with a literal: {ast.unparse(cmp_)}"), fn.loc(cmp_),
                  f"`{ast.unparse(cmp_)}` compares a {cls} member with a plain literal; {cls} is a plain Enum, so this is constant and the branch it guards never (or always) runs",
                  "the guard distinguishes the cases it names")
        examined, bad = uncalled_getters(ctx, [f for f in fns if f.qual in named])
        for _ in range(examined):
            r.ok("reference to an argument-less method is a call or a callback")
        for fn, node, callee in bad:
            r.bad(key_of(fn, f"{callee} referenced, not called"), fn.loc(node),
                  f"`{ast.unparse(node)}` names the method {callee} without calling it and uses the result as a value: a bound method is always truthy / never equal to the data expected, so every "
                  "test of it takes the same branch", "the value consulted is the one the method returns")
        examined, bad = str_for_collection_args(ctx, fns, callees=named)
        for _ in range(examined):
            r.ok("argument for an iterated parameter is not a plain string")
        for fn, call, p in bad:
            r.bad(key_of(fn, f"str passed as collection `{p}` of {ast.unparse(call.func)}"), fn.loc(call),
                  f"`{ast.unparse(call)[:100]}` passes a plain string for `{p}`, which {ast.unparse(call.func)}() iterates: it is walked character by character, so every test against its elements is a "
                  "test against single letters", "the call passes each value to the parameter it is meant for")
        examined, bad = unknown_keywords(ctx, [f for f in fns if f.qual in named])
        ex2, bad2 = unknown_keywords(ctx, [f for f in fns if f.qual not in named])
        bad2 = [(fn, call, k) for fn, call, k in bad2 if any(q in named for q in (ctx.cg.site_of(fn, call).targets() if ctx.cg.site_of(fn, call) else []))]
        for _ in range(examined):
            r.ok("keyword argument is known to its consumer")
        for fn, call, k in bad + bad2:
            r.bad(key_of(fn, f"keyword `{k}` of {ast.unparse(call.func)} is read by nobody"), fn.loc(call),
                  f"`{k}=` is passed to {ast.unparse(call.func)}(), which accepts it through **kwargs, but no parameter, attribute or key anywhere in the package has that name: the value is dropped silently "
                  "(a misspelt option)", "the call passes each value to the parameter it is meant for")
        files = anchored_files(prop)
        classes = {c.name for c in ctx.ix.classes.values() if c.module.relpath in files}
        examined, bad = validators_without_value(ctx, classes)
        for _ in range(examined):
            r.ok("validator returns the value on every normal path")
        for fn, node in bad:
            r.bad(key_of(fn, "validator path without a value"), fn.loc(node.ast) if node.ast is not None else fn.loc(fn.node),
                  f"the pydantic validator {fn.short} can finish without `return <value>`: pydantic stores what the validator returns, so every value that passes validation on that path is replaced by None",
                  "the configured value reaches its consumer")
        examined, bad = unused_cli_parameters(ctx)
        mine = [(fn, p0) for fn, p0 in bad if prop in OPTION_PROPS.get(p0, ()) and (fn.short, p0) not in UNUSED_OK]
        r.ok(f"{examined} click commands: every option that belongs to this property is read by its command")
        for fn, p0 in mine:
            r.bad(key_of(fn, f"option `{p0}` is never read"), fn.loc(fn.node),
                  f"the command `{fn.short}` accepts `{p0}` (--{p0.replace('_', '-')}) and never reads it: what the user configured there is silently ignored", "the configured limit / option is honoured")

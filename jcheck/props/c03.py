"""C03 - final results are complete and independent of schedule and batching."""

import ast
import re

from .. import AnalysisError
from ..cfg import ALL_KINDS, NORMAL_KINDS, iter_own
from ..lib import dominated_by, guard_forms, key_of, norm, render, return_conditions
from ..report import describe, rule

P = "C03"

describe(
    P,
    "Decides ONLY four necessary conditions, and says so: (1) on every path of submit_jobs that reaches the completion step, "
    "result collection certainly happened after the last job-running call, in local and in HPC mode (interprocedural "
    "must-pass-through); (2) there is a single completion funnel shared by both modes - the results summary and the "
    "completion mark are produced only by _handle_completion, which is called only from submit_jobs; (3) the completeness "
    "check compares the configured job names with the names in the consolidated results and passes the sorted difference "
    "on as missing_jobs; (4) the all-done detector answers True only if no job is in a state other than done.",
    ["C08 (exactly-once collection) and C04 (cancel exactness) for what the collected rows contain"],
    "the core of the property - equality of every job's classification with the topological reference evaluation and independence "
    "from batch size, node limits, try-add-blocked, submission groups, local vs HPC mode and interleaving - is an equivalence "
    "over runtime schedules and values; no sound static argument in reach bounds it.",
)


def collect_before_completion(ctx, r, rid):
    fn = ctx.fn("JobSubmitter.submit_jobs", rid)
    hc = [n for s in ctx.some_sites(fn, rid, short="JobSubmitter._handle_completion") for n in ctx.nodes_of(fn, s.node)]
    must = ctx.nodes_with_effect(fn, "COLLECT", must=True)
    for n in hc:
        r.check(bool(must) and dominated_by(ctx, fn, n, must, NORMAL_KINDS), "a call that certainly collects results precedes _handle_completion on every path", key_of(fn, "completion without collection"), fn.loc(n.stmt),
                "a path reaches _handle_completion without a call that certainly moves the node result files into the consolidated file: finished jobs are reported missing",
                "the completed submission's results contain exactly one entry per configured job")
    # local branch: collection after the jobs ran
    runs = [n for s in ctx.sites(fn, short="JobRunner.run_jobs") for n in ctx.nodes_of(fn, s.node)]
    direct = [n for s in ctx.cg.sites_in(fn) if "COLLECT" in ctx.site_may(s) and s.calls_short(ctx.ix, "ResultsAggregator.process_results") for n in ctx.nodes_of(fn, s.node)]
    if runs:
        r.check(bool(direct) and all(dominated_by(ctx, fn, d, runs, NORMAL_KINDS) for d in direct) and all(
            __import__("jcheck.lib", fromlist=["always_followed_by"]).always_followed_by(ctx, fn, rn, direct + [ctx.cfg(fn).raise_exit], NORMAL_KINDS) for rn in runs),
            "local mode: process_results() runs after runner.run_jobs() on every normal path", key_of(fn, "local collection order"), fn.loc(runs[0].stmt),
            "in local mode results are not collected after the jobs ran (collection precedes the run, or is skipped on a path)", "local versus HPC mode")
    # HPC branch: HpcSubmitter.run collects before it decides completion
    run = ctx.fn("HpcSubmitter.run", rid)
    ic = [n for s in ctx.some_sites(run, rid, short="HpcSubmitter._is_complete") for n in ctx.nodes_of(run, s.node)]
    mustr = ctx.nodes_with_effect(run, "COLLECT", must=True)
    for n in ic:
        r.check(bool(mustr) and dominated_by(ctx, run, n, mustr, NORMAL_KINDS), "HPC mode: collection precedes the completion decision of the round", key_of(run, "decision before collection"), run.loc(n.stmt),
                "HpcSubmitter.run decides completion without having collected this round's results")


@rule(P, "C03.1", "T2", "collection certainly happens before the completion step, in both modes", min_obligations=3)
def c03_1(ctx, r):
    collect_before_completion(ctx, r, "C03.1")


@rule(P, "C03.2", "T6", "single completion funnel shared by local and HPC mode", min_obligations=4)
def c03_2(ctx, r):
    hc = ctx.fn("JobSubmitter._handle_completion", "C03.2")
    for short, allowed in (("JobSubmitter.write_results_summary", {"JobSubmitter._handle_completion"}), ("Cluster.mark_complete", {"JobSubmitter._handle_completion"}),
                           ("JobSubmitter._handle_completion", {"JobSubmitter.submit_jobs"})):
        f = ctx.fn(short, "C03.2")
        callers = ctx.callers_of(f)
        if not callers:
            r.bad(key_of(f, "no caller"), f.loc(), f"{short} is never called: the submission never completes / never reports")
        for s in callers:
            r.check(s.fn.short in allowed, f"{short} called from {s.fn.short}", key_of(s.fn, f"calls {short}"), s.loc,
                    f"{short} is also called from {s.fn.short}: a second completion path bypasses the missing-jobs accounting / marks completion twice",
                    "completion happens once")
    sj = ctx.fn("JobSubmitter.submit_jobs", "C03.2")
    for s in ctx.some_sites(sj, "C03.2", short="JobSubmitter._handle_completion"):
        for n in ctx.nodes_of(sj, s.node):
            r.check(not ctx.cfg(sj).in_loop(n), "the completion step is not in a loop", key_of(sj, "completion in loop"), s.loc, "_handle_completion is called on a cycle")
            forms = guard_forms(ctx, sj, n)
            # role: the guard is a local whose reaching definitions are `True` (local mode, after collection) / the result of _submit_to_hpc()
            okc = False
            for f, p in forms:
                if p and re.fullmatch(r"\w+", f):
                    defs = {ctx.src(ctx.rd(sj).defs_at[d].get(f)) for d in ctx.rd(sj).reaching(n, f) if isinstance(ctx.rd(sj).defs_at[d].get(f), ast.AST)}
                    okc = okc or (bool(defs) and defs <= {"True", "self._submit_to_hpc(cluster)"} and "self._submit_to_hpc(cluster)" in defs)
            r.check(okc, "the completion step runs only when the round reported completion", key_of(sj, "completion guard"), s.loc, f"_handle_completion is guarded by {sorted(f for f, p in forms)}")
    # both modes define the completion flag (the guard local found above): local True, HPC from _submit_to_hpc
    cfg = ctx.cfg(sj)
    okall = False
    for s in ctx.some_sites(sj, "C03.2", short="JobSubmitter._handle_completion"):
        for n in ctx.nodes_of(sj, s.node):
            for f, p in guard_forms(ctx, sj, n):
                if p and re.fullmatch(r"\w+", f):
                    defs = {ctx.src(x.ast.value) for x in cfg.nodes if x.kind == "stmt" and isinstance(x.ast, ast.Assign) and ctx.src(x.ast.targets[0]) == f}
                    okall = okall or defs == {"True", "self._submit_to_hpc(cluster)"}
    r.check(okall, "completion flag = True (local) | _submit_to_hpc(cluster) (HPC)", key_of(sj, "is_complete sources"), sj.loc(), "the completion flag is not defined from exactly {True, self._submit_to_hpc(cluster)}")
    sh = ctx.fn("JobSubmitter._submit_to_hpc", "C03.2")
    for ret, conds, path in return_conditions(ctx, sh):
        val = ret.value if isinstance(ret, ast.Constant) else None
        runs_true = any(p and "HpcSubmitter.run" in f for f, p in conds)
        r.check((val is True) == runs_true, f"_submit_to_hpc returns {val} iff HpcSubmitter.run() returned {'True' if runs_true else 'False'}", key_of(sh, f"return {val}"), sh.loc(ret), "_submit_to_hpc does not forward HpcSubmitter.run()'s completion answer")


@rule(P, "C03.3", "T8", "missing jobs = configured names minus names in the consolidated results", min_obligations=4)
def c03_3(ctx, r):
    missing_flow(ctx, r, "C03.3")


def missing_flow(ctx, r, rid):
    hc = ctx.fn("JobSubmitter._handle_completion", rid)
    cfg = ctx.cfg(hc)
    # results come from the consolidated file
    res = [n for n in cfg.nodes if n.kind == "stmt" and isinstance(n.ast, ast.Assign) and ctx.src(n.ast.targets[0]) == "self._results"]
    ok = len(res) == 1 and isinstance(res[0].ast.value, ast.Call) and ctx.cg.site_of(hc, res[0].ast.value) is not None and ctx.cg.site_of(hc, res[0].ast.value).calls_short(ctx.ix, "ResultsAggregator.list_results")
    r.check(ok, "the final results are read from the consolidated file (list_results)", key_of(hc, "results source"), hc.loc(), "_handle_completion does not read the consolidated results")
    ws = ctx.some_sites(hc, rid, short="JobSubmitter.write_results_summary")
    wrs = ctx.fn("JobSubmitter.write_results_summary", rid)
    for s in ws:
        a = ctx.arg_for(s, wrs, "missing_jobs")
        if not isinstance(a, ast.Name):
            raise AnalysisError(rid, "missing_jobs argument is not a local")
        for n in ctx.nodes_of(hc, s.node):
            defs = ctx.rd(hc).reaching(n, a.id)
            vals = {}
            for d in defs:
                v = ctx.rd(hc).defs_at[d].get(a.id)
                vals[d] = v
            empties = [d for d, v in vals.items() if isinstance(v, (ast.List, ast.Tuple)) and not v.elts]
            diffs = [d for d, v in vals.items() if d not in empties]
            okd = len(diffs) == 1
            if okd:
                v = vals[diffs[0]]
                dn = ctx.cfg(hc).nodes[diffs[0]]
                # the whole expression with its single-definition locals written in place: sorted(<all names>.difference(<result names>)) or sorted(A - B)
                from ..lib import inline_locals

                e = inline_locals(ctx, hc, v, dn, depth=4)
                A = B = None
                if isinstance(e, ast.Call) and ctx.src(e.func) == "sorted" and len(e.args) == 1:
                    d = e.args[0]
                    if isinstance(d, ast.Call) and isinstance(d.func, ast.Attribute) and d.func.attr == "difference" and len(d.args) == 1:
                        A, B = d.func.value, d.args[0]
                    elif isinstance(d, ast.BinOp) and isinstance(d.op, ast.Sub):
                        A, B = d.left, d.right
                ta, tb = (ctx.src(A).replace(" ", ""), ctx.src(B).replace(" ", "")) if A is not None else ("", "")
                srcs = {"all": ta, "finished": tb}
                okd = A is not None and "self._config.iter_jobs()" in ta and ".name" in ta and "if" not in ta and "self._results" in tb and ".name" in tb and "if" not in tb
                r.check(okd, "missing = sorted(configured names - result names)", key_of(hc, "missing computation"), hc.loc(dn.ast),
                        f"missing_jobs is computed as `{ctx.src(v)}` with {srcs}: jobs without a result are not reported missing (or finished ones are)", "reported as missing in the final results")
                forms = guard_forms(ctx, hc, dn)
                okg = any((not p) and "len(<JobManagerBase._results>)" in f.replace("self._results", "<JobManagerBase._results>") and "get_num_jobs" in f or ((not p) and "len(" in f and "==" in f) for f, p in forms)
                r.check(okg, "the difference is computed whenever the result count differs from the job count", key_of(hc, "missing guard"), hc.loc(dn.ast), f"missing computation guarded by {sorted(f for f, p in forms)}")
            else:
                r.bad(key_of(hc, "missing computation"), s.loc, f"missing_jobs has {len(diffs)} non-empty definitions")
            for d in empties:
                dn = ctx.cfg(hc).nodes[d]
                forms = guard_forms(ctx, hc, dn)
                r.check(any(p and "len(" in f and "==" in f for f, p in forms), "missing = [] only when the result count equals the job count", key_of(hc, "empty missing guard"), hc.loc(dn.ast),
                        f"missing_jobs = [] under {sorted(f for f, p in forms)}: missing jobs are silently dropped", "never ... silently dropped")
    # write_results_summary stores the list under 'missing_jobs' and the summary counts it
    dumps = [c for c in iter_own(wrs.node) if isinstance(c, ast.Call) and ctx.src(c.func).split(".")[-1] == "dump_data" and c.args and isinstance(c.args[0], ast.Name)]
    DV = dumps[0].args[0].id if dumps else None
    okk = any(isinstance(n, ast.Assign) and DV and ctx.src(n.targets[0]).replace("'", '"') == f'{DV}["missing_jobs"]' and ctx.src(n.value) == "missing_jobs" for n in iter_own(wrs.node))
    r.check(okk, "results.json['missing_jobs'] = the computed list", key_of(wrs, "missing key"), wrs.loc(), "write_results_summary does not store missing_jobs under the 'missing_jobs' key")
    okr = any(isinstance(n, ast.Assign) and DV and ctx.src(n.targets[0]).replace("'", '"') == f'{DV}["results"]' for n in iter_own(wrs.node)) and any(
        isinstance(n, ast.Call) and ctx.src(n.func) == "serialize_results" and ctx.src(n.args[0]) == "self._results" for f2 in (ctx.fn("JobSubmitter._build_results"),) for n in iter_own(f2.node))
    r.check(okr, "results.json['results'] = every consolidated result", key_of(wrs, "results key"), wrs.loc(), "results.json no longer holds serialize_results(self._results)")
    # Status.ERROR when jobs are missing
    from .common import completion_roles

    _hc, RESULT, MISSING = completion_roles(ctx, "C03.3")
    errs = [n for n in cfg.nodes if n.kind == "stmt" and isinstance(n.ast, ast.Assign) and ctx.src(n.ast.targets[0]) == RESULT and ctx.src(n.ast.value) == "Status.ERROR"]
    r.check(bool(errs), "a submission with missing jobs completes with Status.ERROR", key_of(hc, "status on missing"), hc.loc(), "missing jobs no longer turn the completion status into ERROR")


@rule(P, "C03.4", "T13", "all-done detection is True only if no job is in a state other than done", min_obligations=2)
def c03_4(ctx, r):
    fn = ctx.fn("Cluster._are_all_jobs_complete", "C03.4")
    trues = falses = 0
    for ret, conds, path in return_conditions(ctx, fn):
        val = ret.value if isinstance(ret, ast.Constant) else None
        if val is True:
            trues += 1
            inside = any(n.kind == "for" and k == "iter" for n, k, _ in path)
            bad = any(f == "<Job.state> == JobState.DONE" and p is False for f, p in conds)
            r.check(not bad and not any(n.kind == "for" and k == "iter" and False for n, k, _ in path), "True is returned only after the loop found no job that is not DONE", key_of(fn, "returns True"), fn.loc(ret),
                    "_are_all_jobs_complete can return True although a job is not done", "completion flag is set only when every job has a result")
            # True must not be returned from inside the loop body
            in_loop = bool(ctx.enclosing(fn, ret, (ast.For,)))
            r.check(not in_loop, "True is returned after the whole scan", key_of(fn, "True inside loop"), fn.loc(ret), "_are_all_jobs_complete returns True from inside the scan (after the first done job)")
        elif val is False:
            falses += 1
            ok = ("<Job.state> == JobState.DONE", False) in conds
            r.check(ok, "False is returned for a job that is not DONE", key_of(fn, "returns False"), fn.loc(ret), f"_are_all_jobs_complete returns False under {sorted(f for f, p in conds)}")
        else:
            raise AnalysisError("C03.4", "non-constant return")
    if not trues or not falses:
        raise AnalysisError("C03.4", f"expected both answers (True x{trues}, False x{falses})")
    loops = [n for n in iter_own(fn.node) if isinstance(n, ast.For)]
    r.check(len(loops) == 1 and ctx.src(loops[0].iter) == "self.iter_jobs()", "the scan covers every job", key_of(fn, "scan domain"), fn.loc(), "the all-done scan does not iterate every job")
    # True only after the scan ran to its end: no `return True` is reachable without crossing the loop's exhaustion edge
    # (a shortcut on the counters answers True while a job is still submitted - the counters count results, not jobs)
    cfg = ctx.cfg(fn)
    if loops:
        head = [n for n in cfg.nodes if n.kind == "for" and n.ast is loops[0]][0]
        seen, stack = set(), [cfg.entry]
        while stack:
            x = stack.pop()
            if x.id in seen:
                continue
            seen.add(x.id)
            for d, k, _ in x.succ:
                if k in NORMAL_KINDS and not (x is head and k == "done"):
                    stack.append(d)
        for n in cfg.nodes:
            if n.kind == "stmt" and isinstance(n.ast, ast.Return) and isinstance(n.ast.value, ast.Constant) and n.ast.value.value is True:
                r.check(n.id not in seen, "True is answered only after every job was examined", key_of(fn, "True without the full scan"), fn.loc(n.ast),
                        "_are_all_jobs_complete can answer True without having scanned the job states to the end (a shortcut on counters or flags): completed_jobs counts recorded results, so a job that produced two "
                        "results (requeued batch) makes the count reach num_jobs while another job is still running - the stage / submission is completed early", "completion flag is set only when every job has a result")


@rule(P, "C03.5", "T2", "a round determines which batches are still active before it collects results", min_obligations=2)
def c03_5(ctx, r):
    from .c05 import poll_before_collect

    poll_before_collect(ctx, r, "C03.5")


@rule(P, "C03.6", "T10", "cancel exactness: both cancel sites decide by the same predicate over a failed set of non-zero return codes, with feedback", min_obligations=6)
def c03_6(ctx, r):
    from .c04 import c04_2, c04_4

    c04_2(ctx, r)
    c04_4(ctx, r)


@rule(P, "C03.7", "T7+T2", "collection is atomic against the runners: a node file is moved under its own lock, append before delete", min_obligations=6)
def c03_7(ctx, r):
    from .c08 import c08_1b, c08_3, node_rows_go_to_node_file

    c08_1b(ctx, r)
    c08_3(ctx, r)
    node_rows_go_to_node_file(ctx, r, "C03.7")


@rule(P, "C03.8", "T11", "every producible (return code sign, status) cell falls into exactly one class (a killed job is failed, not unclassified)", min_obligations=4)
def c03_8(ctx, r):
    from .c20 import c20_2

    c20_2(ctx, r)


@rule(P, "C03.9", "T8", "every node file is found and moved: the rows collected are the rows written, from every batch", min_obligations=5)
def c03_9(ctx, r):
    from .c08 import c08_5

    c08_5(ctx, r)


@rule(P, "C03.10", "T8+T3", "batch identifiers are fresh across rounds (a pending batch's files are never overwritten by a later batch)", min_obligations=6)
def c03_10(ctx, r):
    from .c01 import c01_6

    c01_6(ctx, r)


@rule(P, "C03.11", "T3", "the node's cancel branch re-arms its fixpoint loop (a canceled entry is processed, not left outstanding)", min_obligations=2)
def c03_11(ctx, r):
    from .c04 import c04_3

    c04_3(ctx, r)


@rule(P, "C03.12", "T9", "the node parses its batch number from the config file name the submitter writes, for every number", min_obligations=5)
def c03_12(ctx, r):
    from .c07 import c07_8

    c07_8(ctx, r)


@rule(P, "C03.13", "T1+T2", "a new submission starts from an empty output directory: an existing one is refused or wiped, then created exclusively", min_obligations=3)
def c03_13(ctx, r):
    """Result rows that an earlier, interrupted run left in results/results_batch_<n>.csv are indistinguishable from this run's rows: the first
    sweep merges them, and a job then has two entries (or a stale classification).  `jade submit-jobs` therefore either refuses an existing
    directory or removes it (`--force`) before creating it anew; the creation itself is exclusive (no exist_ok)."""
    from .c10 import c10_9

    c10_9(ctx, r)
    fn = ctx.fn("submit_jobs.submit_jobs", "C03.13")
    rm = [c for c in iter_own(fn.node) if isinstance(c, ast.Call) and ctx.src(c.func).split(".")[-1] == "rmtree" and c.args and ctx.src(c.args[0]) == "output"]
    if not rm:
        r.bad(key_of(fn, "existing directory not wiped"), fn.loc(fn.node), "submit_jobs no longer removes an existing output directory on --force: rows left by an earlier run are merged into the new one", "exactly one entry per job")
        return
    for c in rm:
        for nd in ctx.nodes_of(fn, c):
            forms = {(f.replace(" ", ""), p) for f, p in guard_forms(ctx, fn, nd)}
            ok = ("os.path.exists(output)", True) in forms and ("force", True) in forms and len({f for f, p in forms}) == 2
            r.check(ok, "the wipe runs exactly when the directory exists and --force was given", key_of(fn, "wipe condition"), fn.loc(c), f"rmtree(output) is guarded by {sorted(forms)}", "exactly one entry per job")


@rule(P, "C03.14", "T8", "starting a submission truncates the consolidated results file (header only)", min_obligations=2)
def c03_14(ctx, r):
    """JobSubmitter.run_submit_jobs() may be handed a directory that already holds a completed run (the pipeline manager, the Python API).
    ResultsAggregator.create() -> _create_files() must *replace* processed_results.csv by a bare header: opened in a truncating mode, header
    written unconditionally.  Appending keeps the earlier run's rows, and the new run ends with two entries per job."""
    fn = ctx.fn("ResultsAggregator._create_files", "C03.14")
    opens = [c for c in iter_own(fn.node) if isinstance(c, ast.Call) and ctx.src(c.func) == "open" and c.args and "_filename" in ctx.src(c.args[0])]
    if len(opens) != 1:
        raise AnalysisError("C03.14", f"{len(opens)} open() of the results file in _create_files")
    c = opens[0]
    mode = c.args[1] if len(c.args) > 1 else next((k.value for k in c.keywords if k.arg == "mode"), None)
    okm = isinstance(mode, ast.Constant) and isinstance(mode.value, str) and "w" in mode.value and "a" not in mode.value
    r.check(okm, "the file is opened in a truncating mode", key_of(fn, "results file not truncated"), fn.loc(c),
            f"_create_files opens the consolidated results file with mode {ctx.src(mode) if mode is not None else 'r'}: rows of an earlier run in the same directory survive into the new submission - every job ends with two "
            "entries and results.json counts both", "exactly one entry per job")
    writes = [n for n in ctx.cfg(fn).nodes if n.kind == "stmt" and any(isinstance(x, ast.Call) and isinstance(x.func, ast.Attribute) and x.func.attr == "write" for x in ast.walk(n.ast))]
    r.check(bool(writes) and all(not guard_forms(ctx, fn, n) for n in writes), "the header is written unconditionally", key_of(fn, "conditional header"), fn.loc(fn.node),
            "the header of the consolidated results file is written conditionally", "the consolidated file always parses")


@rule(P, "C03.15", "T1", "a job is admitted to a batch on the blockedness of its *cluster* record (the one earlier rounds updated)", min_obligations=3)
def c03_15(ctx, r):
    """Asking the configuration's job (original blocked_by) instead leaves a dependent whose blockers finished in earlier rounds blocked for ever:
    the last round forces completion and the job - and what depends on it - ends up missing instead of having an entry."""
    from .c02 import c02_3

    c02_3(ctx, r)

"""C10 - only one submitter at a time; stale state never overwrites newer state."""

import ast
import re

from .. import AnalysisError
from ..callgraph import LOCK_WRAPPERS
from ..cfg import ALL_KINDS, NORMAL_KINDS, iter_own
from ..lib import bound_from, attr_stores, dominated_by, guard_forms, key_of, render, type_is
from ..report import describe, rule
from .common import PROMOTE_SITES, ROLE_SITES, report_role

P = "C10"

describe(
    P,
    "Decides the mechanisms C10 rests on, on all paths: the submitter field is written only by _promote_to_submitter "
    "(under `submitter is None`) and _demote_from_submitter (under `submitter == hostname`); promotion is an atomic "
    "read-check-write (the state is loaded from disk inside the same lock hold that promotes); every write of the two "
    "state files and their version files is preceded, on every path, by a passed comparison of the in-memory version with "
    "the version read back from the version file, the failing branch raising before any write; demotion happens only in "
    "typestate Promoted in all five role-holding commands; all public mutators go through a lock wrapper whose structure "
    "(acquire dominates the call, release on every exit) is re-verified, and no function that runs under the cluster lock "
    "re-acquires it.",
    [
        "filelock.SoftFileLock provides mutual exclusion on the shared filesystem",
        "two processes on one host share the hostname identity (am_i_submitter cannot tell them apart) - noted, not a rule",
    ],
    "mutual exclusion over all interleavings given the lock library; that the bytes on disk are unchanged after a "
    "rejected write follows from 'raise precedes every write' but is not observed.",
)


@rule(P, "C10.1", "T1+T6", "the submitter field is taken only when empty and cleared only by its holder", min_obligations=3)
def c10_1(ctx, r):
    n_take = n_clear = 0
    for fn, node, attr, t, kind in attr_stores(ctx, {"submitter"}):
        if t is not None and not type_is(ctx, t, "ClusterConfig"):
            continue
        st = ctx.stmt_of(fn, node)
        val = st.value if isinstance(st, ast.Assign) else None
        is_none = isinstance(val, ast.Constant) and val.value is None
        nodes = ctx.nodes_of(fn, st)
        if fn.short == "Cluster._promote_to_submitter" and not is_none:
            n_take += 1
            for n in nodes:
                forms = guard_forms(ctx, fn, n)
                r.check(
                    ("<ClusterConfig.submitter> is None", True) in forms,
                    "submitter is taken only under `submitter is None`",
                    key_of(fn, "take submitter unguarded"),
                    fn.loc(node),
                    "ClusterConfig.submitter is overwritten without checking that no submitter exists: two processes are promoted at once",
                    "promotion fails while another holds the role",
                    guards=sorted(("" if p else "not ") + f for f, p in forms),
                )
            r.check(render(ctx, fn, val) == "<Cluster._hostname>", "the taker records its own hostname", key_of(fn, "take submitter value"), fn.loc(node),
                    f"submitter is set to {ctx.src(val)}, not the local hostname")
        elif fn.short == "Cluster._demote_from_submitter" and is_none:
            n_clear += 1
            for n in nodes:
                forms = guard_forms(ctx, fn, n)
                r.check(
                    ("<ClusterConfig.submitter> == <Cluster._hostname>", True) in forms,
                    "submitter is cleared only under `submitter == hostname`",
                    key_of(fn, "clear submitter unguarded"),
                    fn.loc(node),
                    "ClusterConfig.submitter is cleared without asserting that this host holds the role",
                    guards=sorted(("" if p else "not ") + f for f, p in forms),
                )
        else:
            r.bad(
                key_of(fn, f"store submitter = {ctx.src(val) if val is not None else kind}"),
                fn.loc(node),
                f"ClusterConfig.submitter is written in {fn.short} (only _promote_to_submitter / _demote_from_submitter may): the one-submitter protocol is bypassed",
            )
    if n_take == 0 or n_clear == 0:
        raise AnalysisError("C10.1", f"promotion/demotion stores not found (take={n_take} clear={n_clear})")
    # _promote_to_submitter returns False on the refusal branch, True after taking
    fn = ctx.fn("Cluster._promote_to_submitter", "C10.1")
    from ..lib import return_conditions

    for ret, conds, path in return_conditions(ctx, fn):
        val = ret.value if isinstance(ret, ast.Constant) else "?"
        has = ("<ClusterConfig.submitter> is None", False) in conds
        if has:
            r.check(val is False, "refusal branch returns False", key_of(fn, "return on refusal"), fn.loc(ret), f"promotion returns {val!r} although a submitter exists")
        else:
            took = any(isinstance(n.ast, ast.Assign) and "submitter" in ctx.src(n.ast.targets[0]) for n, _, _ in path if n.kind == "stmt")
            r.check(val is True and took, "success branch stores the submitter and returns True", key_of(fn, "return on success"), fn.loc(ret),
                    f"promotion returns {val!r} / stores={took} on the no-submitter branch")


@rule(P, "C10.2", "T7+T2", "promotion is an atomic read-check-write under the cluster lock", min_obligations=4)
def c10_2(ctx, r):
    fn = ctx.fn("Cluster._deserialize", "C10.2")
    r.check(ctx.is_locked_only(fn, "cluster"), "_deserialize runs only under the cluster lock", key_of(fn, "locked-only"), fn.loc(),
            "Cluster._deserialize (load + promote) is reachable without the cluster lock: check-then-set on the submitter field races")
    ps = ctx.sites(fn, short="Cluster._promote_to_submitter")
    if not ps:
        raise AnalysisError("C10.2", "no _promote_to_submitter call in Cluster._deserialize")
    for s in ps:
        recv = s.node.func.value if isinstance(s.node.func, ast.Attribute) else None
        if not isinstance(recv, ast.Name):
            raise AnalysisError("C10.2", f"{s.loc}: promotion receiver is not a local")
        for n in ctx.nodes_of(fn, s.node):
            ud = ctx.rd(fn).unique_def(n, recv.id)
            ok = False
            detail = None
            if ud and isinstance(ud[1], ast.Call) and ud[1].args:
                a0 = ud[1].args[0]
                # the configuration handed to the constructor: a local bound to ClusterConfig(**load_data(...)), or that call written in place
                src0 = a0
                if isinstance(a0, ast.Name):
                    ud2 = ctx.rd(fn).unique_def(ud[0], a0.id)
                    src0 = ud2[1] if ud2 else None
                if isinstance(src0, ast.Call):
                    txt = render(ctx, fn, src0)
                    detail = txt
                    ok = "load_data(" in txt and (ctx.cg.site_of(fn, src0).constructs or "").endswith("ClusterConfig")
            r.check(ok, "the handle that is promoted was built from cluster_config.json loaded in this lock hold", key_of(fn, "promote fresh state"), s.loc,
                    "the object being promoted is not constructed from state loaded inside the same lock hold (stale submitter field may be tested)", chain=detail)
    # a refused promotion writes nothing: besides the promotion itself (which writes only after taking the empty field) no
    # call in _deserialize may reach a state write unless the promotion succeeded
    pq = {ctx.ix.find_func("Cluster._promote_to_submitter").qual}
    for s in ctx.cg.sites_in(fn):
        if set(s.targets()) & pq:
            # the promotion call itself must let the method persist (serialize stays at its default / True)
            kw = {k.arg: ctx.src(k.value) for k in s.node.keywords}
            r.check(kw.get("serialize", "True") == "True", "the promotion persists itself (inside the same test-and-set)", key_of(fn, "promotion not persisted by _promote_to_submitter"), s.loc,
                    f"_promote_to_submitter is called with serialize={kw.get('serialize')}: the field is persisted elsewhere, outside the has_submitter() test")
            continue
        if "STATE_WRITE" in ctx.site_may(s):
            for n in ctx.nodes_of(fn, s.node):
                forms = guard_forms(ctx, fn, n, ALL_KINDS, kill=False)
                okp = any(p and re.fullmatch(r"\w+", f) and bound_from(ctx, fn, ast.Name(id=f, ctx=ast.Load()), n, "Cluster._promote_to_submitter") for f, p in forms)
                r.check(okp, "a state write in _deserialize happens only after a successful promotion", key_of(fn, "state written although promotion was refused"), s.loc,
                        f"`{ctx.src(s.node)[:50]}` writes the cluster config whether or not this process was promoted: a refused try-submit-jobs (another node is submitter) bumps the config version, and the "
                        "active submitter's next write fails with ConfigVersionMismatch under the lock - its round dies with the marker and the role in place, and no later round can run",
                        "promotion fails while another holds the role (and the refused process changes nothing)")
    # the public entry passes _deserialize through the static wrapper
    pub = ctx.fn("Cluster.deserialize", "C10.2")
    ws = [s for s in ctx.cg.sites_in(pub) if s.via_wrapper and fn.qual in s.wrapped]
    r.check(bool(ws), "Cluster.deserialize wraps _deserialize in do_action_under_lock", key_of(pub, "wrapper"), pub.loc(), "Cluster.deserialize calls _deserialize without the lock wrapper")
    for s in ws:
        callee = fn
        a = ctx.arg_for(s, callee, "try_promote_to_submitter")
        r.check(isinstance(a, ast.Name) and a.id == "try_promote_to_submitter", "try_promote_to_submitter is forwarded", key_of(pub, "forward try_promote"), s.loc,
                f"try_promote_to_submitter is not forwarded to _deserialize ({ctx.src(a) if a is not None else None})")
    pfn = ctx.fn("Cluster._promote_to_submitter", "C10.2")
    r.check(ctx.is_locked_only(pfn, "cluster"), "_promote_to_submitter runs only under the cluster lock", key_of(pfn, "locked-only"), pfn.loc(),
            "Cluster._promote_to_submitter is reachable without the cluster lock")


VERSION_RULES = {
    "Cluster._serialize": ("<ClusterConfig.version> == call:Cluster._get_config_version()@self", "Cluster._get_config_version", "_config_version_file", "Cluster._serialize_config_version"),
    "Cluster._serialize_jobs": ("<JobStatus.version> == call:Cluster._get_job_status_version()@self", "Cluster._get_job_status_version", "_job_status_version_file", "Cluster._serialize_job_status_version"),
}


@rule(P, "C10.3", "T1+T2", "every state write is preceded by a passed version comparison; the mismatch branch raises first", min_obligations=10)
def c10_3(ctx, r):
    for spec, (want, reader, attr, writer) in VERSION_RULES.items():
        fn = ctx.fn(spec, "C10.3")
        cfg = ctx.cfg(fn)
        writes = ctx.nodes_with_effect(fn, "STATE_WRITE")
        if not writes:
            raise AnalysisError("C10.3", f"no state write in {fn.short}")
        for n in writes:
            forms = guard_forms(ctx, fn, n, ALL_KINDS, kill=False)
            r.check(
                (want, True) in forms,
                f"{fn.short}: write dominated by the passed version comparison",
                key_of(fn, f"write before version check: {ctx.src(n.stmt)[:40]}"),
                fn.loc(n.stmt),
                "a state-file write is reachable without the in-memory version having been compared (equal) with the version file: a stale handle overwrites newer state",
                "A process holding an out-of-date copy of the cluster state cannot write it",
                guards=sorted(("" if p else "not ") + f for f, p in forms if "version" in f),
            )
        # mismatch branch: raises, and performs no write / no field store before raising
        raised = False
        for n in cfg.nodes:
            for d, k, c in n.succ:
                if k in ("T", "F") and c is not None:
                    from ..lib import norm

                    form, pol = norm(ctx, fn, c, n, pol=(k == "T"))
                    from ..lib import swap_eq

                    if form in (want, swap_eq(want)) and pol is False:
                        # everything reachable on this edge (normal kinds) must end in raise
                        seen, stack = set(), [d]
                        ends_normally = False
                        while stack:
                            x = stack.pop()
                            if x.id in seen:
                                continue
                            seen.add(x.id)
                            if x is cfg.exit:
                                ends_normally = True
                            for d2, k2, _ in x.succ:
                                if k2 in NORMAL_KINDS:
                                    stack.append(d2)
                        hits = [w for w in writes if w.id in seen]
                        r.check(not ends_normally and not hits, f"{fn.short}: version mismatch raises before any write", key_of(fn, "mismatch branch"), fn.loc(d.stmt),
                                "on a version mismatch the function continues (or writes) instead of raising: the rejected write still changes the files")
                        raised = True
        if not raised:
            r.bad(key_of(fn, "no mismatch branch"), fn.loc(), f"{fn.short} has no branch comparing the in-memory version with the version file")
        # the comparison is unconditional: every normal path through the serialiser passes it (a call that finds "nothing
        # changed" must still reject a stale handle - the caller goes on to write the other file)
        tests = []
        for n in cfg.nodes:
            for d, k, c in n.succ:
                if k in ("T", "F") and c is not None:
                    from ..lib import norm, swap_eq

                    form, pol = norm(ctx, fn, c, n, pol=(k == "T"))
                    if form in (want, swap_eq(want)):
                        tests.append(n)
        from ..lib import dominated_by as _dom

        r.check(bool(tests) and _dom(ctx, fn, cfg.exit, tests, NORMAL_KINDS), f"{fn.short}: the version comparison is on every normal path", key_of(fn, "version comparison skipped on a path"), fn.loc(),
                f"{fn.short} can return normally without having compared the versions (the comparison sits under another condition): a stale handle whose copy of this file needs no rewrite is not rejected, "
                "and its caller goes on to write the other state file", "A process holding an out-of-date copy of the cluster state cannot write it")
        # reader reads the file the writer writes
        rf, wf = ctx.fn(reader, "C10.3"), ctx.fn(writer, "C10.3")
        def opens(f, modes):
            for s in ctx.cg.sites_in(f):
                if s.external == "open" and s.node.args:
                    a0 = s.node.args[0]
                    mode = s.node.args[1].value if len(s.node.args) > 1 and isinstance(s.node.args[1], ast.Constant) else "r"
                    if isinstance(a0, ast.Attribute) and a0.attr == attr and mode in modes:
                        return True
            return False
        # the reader answers from the file alone: nothing of the handle's own (possibly stale) state may stand in for it
        own = sorted({ctx.src(x) for x in iter_own(rf.node) if isinstance(x, ast.Attribute) and isinstance(x.value, ast.Name) and x.value.id == "self" and x.attr != attr})
        r.check(not own, f"{reader} depends on the version file only", key_of(rf, f"version reader also reads {own}"), rf.loc(),
                f"{reader} reads {own} besides self.{attr}: when the file cannot supply the number (e.g. left empty by a writer killed between truncate and write) the handle's own version is compared with itself, "
                "so any out-of-date copy passes the check and overwrites newer state", "A process holding an out-of-date copy of the cluster state cannot write it")
        r.check(opens(rf, ("r",)) and opens(wf, ("w",)), f"{reader} reads and {writer} writes self.{attr}", key_of(rf, "version file agreement"), rf.loc(),
                f"version reader/writer do not agree on self.{attr}")
        # the version written is the incremented in-memory one: increment precedes the version write
        vw = [n for s in ctx.sites(fn, short=writer) for n in ctx.nodes_of(fn, s.node)]
        incs = [n for n in cfg.nodes if n.kind == "stmt" and isinstance(n.ast, ast.AugAssign) and isinstance(n.ast.op, ast.Add) and ctx.src(n.ast.target).endswith(".version")]
        for n in vw:
            r.check(bool(incs) and dominated_by(ctx, fn, n, incs), f"{fn.short}: version incremented before the version file is written", key_of(fn, "version increment"), fn.loc(n.stmt),
                    "the version file is written without the in-memory version having been incremented: the next stale writer is not detected",
                    "version numbers increase with every change")


@rule(P, "C10.3b", "T2", "the version file is written before the data file (a crash between the two leaves the version ahead, never behind)", min_obligations=2)
def c10_3b(ctx, r):
    for spec, (want, reader, attr, writer) in VERSION_RULES.items():
        fn = ctx.fn(spec, "C10.3b")
        vw = [n for s in ctx.sites(fn, short=writer) for n in ctx.nodes_of(fn, s.node)]
        dw = [n for s in ctx.sites(fn, short="Cluster._serialize_file") for n in ctx.nodes_of(fn, s.node)]
        if not vw or not dw:
            raise AnalysisError("C10.3b", f"{fn.short}: version write / data write not found")
        for d in dw:
            r.check(dominated_by(ctx, fn, d, vw, ALL_KINDS), f"{fn.short}: the version-file write dominates the data-file write", key_of(fn, "data file written before version file"), fn.loc(d.stmt),
                    "the data file is written before the version file: if the writer dies (or the second write fails) in between, the new state is on disk while the version file still shows the old version, "
                    "so a handle loaded before the update passes the version comparison and overwrites the newer state",
                    "A process holding an out-of-date copy of the cluster state cannot write it")


@rule(P, "C10.4", "T5", "demote_from_submitter() only in typestate Promoted", min_obligations=8)
def c10_4(ctx, r):
    report_role(ctx, r, ROLE_SITES, {"demote"}, "promotion fails while another holds the role (a process that was refused must not clear the field)")


@rule(P, "C10.5", "T7", "public mutators take the lock exactly once (wrapper structure L0; no nested acquisition)", min_obligations=12)
def c10_5(ctx, r):
    # L0: wrapper structure
    w = ctx.fn("Cluster._do_action_under_lock_internal", "C10.5")
    _check_wrapper(ctx, r, w, "C10.5")
    for short in ("Cluster._do_action_under_lock", "Cluster.do_action_under_lock"):
        f = ctx.fn(short, "C10.5")
        ss = [s for s in ctx.cg.sites_in(f) if s.calls_short(ctx.ix, "Cluster._do_action_under_lock_internal")]
        ok = len(ss) == 1 and ss[0].forwards_param == "func"
        r.check(ok, f"{short} forwards func to the acquiring wrapper", key_of(f, "forward func"), f.loc(), f"{short} does not forward its func argument to _do_action_under_lock_internal (calls it without the lock?)")
        direct = [s for s in ctx.cg.sites_in(f) if isinstance(s.node.func, ast.Name) and s.node.func.id == "func"]
        r.check(not direct, f"{short} never calls func directly", key_of(f, "direct func call"), f.loc(), f"{short} calls func(...) itself, outside the lock")
    # public mutators: every public Cluster method that reaches a state write does so via a wrapper
    cl = ctx.cls("Cluster", "C10.5")
    for name, m in sorted(cl.methods.items()):
        if name.startswith("_"):
            continue
        wrapped = [s for s in ctx.cg.sites_in(m) if s.via_wrapper]
        for s in wrapped:
            for q in s.wrapped:
                f2 = ctx.ix.functions[q]
                r.check(ctx.is_locked_only(f2, "cluster") or f2.short in ("Cluster._serialize", "Cluster._serialize_jobs"),
                        f"{m.short} -> {f2.short} under the cluster lock", key_of(m, f"wrapped {f2.short}"), s.loc,
                        f"{f2.short} is also called without the lock elsewhere")
    # no nested acquisition from a function that always runs under the cluster lock
    lo = ctx.locked_only()
    for q, locks in sorted(lo.items()):
        if "cluster" not in locks:
            continue
        f = ctx.ix.functions[q]
        if f.short in LOCK_WRAPPERS:
            continue
        for s in ctx.cg.sites_in(f):
            if s.how == "cha":
                continue
            if "ACQUIRE_CLUSTER" in ctx.site_may(s):
                r.bad(key_of(f, f"nested acquire via {ctx.src(s.node.func)}"), s.loc,
                      f"{f.short} always runs under the cluster lock and calls {ctx.src(s.node.func)}(), which acquires the same (non re-entrant) SoftFileLock: the process blocks for the lock timeout and then fails",
                      "promotion / update under the cluster lock")
            else:
                pass
        r.ok(f"{f.short}: no nested acquisition of the cluster lock")


def _check_wrapper(ctx, r, w, rule_id):
    """L0: SoftFileLock acquire dominates func(...), and every path from the acquire to an exit
    (normal and exceptional) passes a release."""
    cfg = ctx.cfg(w)
    acq = [n for n in cfg.nodes for c in cfg.calls_at(n) if isinstance(c.func, ast.Attribute) and c.func.attr == "acquire"]
    rel = [n for n in cfg.nodes for c in cfg.calls_at(n) if isinstance(c.func, ast.Attribute) and c.func.attr == "release"]
    fcall = [n for n in cfg.nodes for c in cfg.calls_at(n) if isinstance(c.func, ast.Name) and c.func.id == "func"]
    lockdef = [n for n in cfg.nodes if n.kind == "stmt" and isinstance(n.ast, ast.Assign) and isinstance(n.ast.value, ast.Call) and (ctx.src(n.ast.value.func).endswith("SoftFileLock") or ctx.src(n.ast.value.func).endswith("FileLock"))]
    if not acq or not fcall or not lockdef:
        raise AnalysisError(rule_id, f"{w.short}: acquire / func() / SoftFileLock construction not found")
    for n in fcall:
        r.check(dominated_by(ctx, w, n, acq), f"{w.short}: acquire dominates func()", key_of(w, "acquire before func"), w.loc(n.stmt),
                "func(...) is reachable without the lock having been acquired")
        # from func() every path to any exit passes release
        from ..lib import always_followed_by

        ok = always_followed_by(ctx, w, n, rel, ALL_KINDS, exits=[cfg.exit, cfg.raise_exit])
        r.check(ok, f"{w.short}: release on every exit after func()", key_of(w, "release after func"), w.loc(n.stmt),
                "a path from func(...) to an exit of the wrapper does not release the lock (every later command blocks)")
    # an exception out of func(...) leaves the wrapper as an exception (never swallowed: the caller would take the
    # failed state update for done, remove the crashed-round marker and release the role)
    for n in fcall:
        seen, stack = set(), [d for d, k, _ in n.succ if k == "exc"]
        while stack:
            x = stack.pop()
            if x.id in seen:
                continue
            seen.add(x.id)
            stack.extend(d for d, k, _ in x.succ if k in ALL_KINDS)
        r.check(cfg.exit.id not in seen, f"{w.short}: an exception raised by func() propagates to the caller", key_of(w, "exception from func swallowed"), w.loc(n.stmt),
                f"{w.short} can return normally after func(...) raised (a handler on the way catches the re-raise): the caller believes the locked action succeeded - e.g. a submitter round whose status update "
                "failed goes on to remove its crashed-round marker, and the next round hands the same jobs to the HPC again", "no job is handed to the HPC twice")
    # the acquire failing (Timeout) must not fall through to func()
    for a in acq:
        exc_succ = [d for d, k, _ in a.succ if k == "exc"]
        for h in exc_succ:
            seen = set()
            stack = [h]
            reaches_func = False
            while stack:
                x = stack.pop()
                if x.id in seen:
                    continue
                seen.add(x.id)
                if x in fcall:
                    reaches_func = True
                stack.extend(d for d, k, _ in x.succ if k in NORMAL_KINDS)
            r.check(not reaches_func, f"{w.short}: a failed acquire does not fall through to func()", key_of(w, "acquire failure falls through"), w.loc(a.stmt),
                    "when lock acquisition fails the wrapper continues and calls func(...) without the lock")


@rule(P, "C10.6", "T9", "every entry takes the same lock file; identity and emptiness tests are what they say", min_obligations=6)
def c10_6(ctx, r):
    from ..lib import _single_return

    glf = ctx.fn("Cluster.get_lock_file", "C10.6")
    rx = _single_return(glf)
    r.check(rx is not None and ctx.src(rx).replace(" ", "") == "os.path.join(path,Cluster.LOCK_FILE)", "lock file = <path>/<LOCK_FILE>", key_of(glf, "lock file"), glf.loc(), f"get_lock_file returns `{ctx.src(rx) if rx is not None else None}`")
    init = ctx.fn("Cluster.__init__", "C10.6")
    from ..lib import inlined_expr

    ok = any(isinstance(n, ast.Assign) and ctx.src(n.targets[0]) == "self._lock_file" and ctx.src(inlined_expr(ctx, init, n.value)) == "self.get_lock_file(self._config.path)" for n in iter_own(init.node))
    r.check(ok, "instance methods lock get_lock_file(config.path)", key_of(init, "instance lock file"), init.loc(), "Cluster.__init__ derives its lock file differently from the static entry: two processes use different locks",
            "At most one process at a time is promoted")
    st = ctx.fn("Cluster.do_action_under_lock", "C10.6")
    fw = [s for s in ctx.cg.sites_in(st) if s.calls_short(ctx.ix, "Cluster._do_action_under_lock_internal")]
    ok = False
    if len(fw) == 1 and fw[0].node.args:
        from ..lib import inlined

        for n in ctx.nodes_of(st, fw[0].node):
            ok = inlined(ctx, st, fw[0].node.args[0], n) == "Cluster.get_lock_file(path)"
    r.check(ok and len(fw) == 1, "the static entry locks get_lock_file(path)", key_of(st, "static lock file"), st.loc(), "do_action_under_lock locks another file")
    iw = ctx.fn("Cluster._do_action_under_lock", "C10.6")
    fw = [s for s in ctx.cg.sites_in(iw) if s.calls_short(ctx.ix, "Cluster._do_action_under_lock_internal")]
    r.check(len(fw) == 1 and ctx.src(fw[0].node.args[0]) == "self._lock_file", "the instance entry locks self._lock_file", key_of(iw, "instance forward"), iw.loc(), "_do_action_under_lock locks another file")
    w = ctx.fn("Cluster._do_action_under_lock_internal", "C10.6")
    lk = [n for n in iter_own(w.node) if isinstance(n, ast.Call) and ctx.src(n.func).endswith("SoftFileLock")]
    r.check(len(lk) == 1 and ctx.src(lk[0].args[0]) == "lock_file", "the wrapper locks the file it was given", key_of(w, "lock object"), w.loc(), "the wrapper constructs its lock on another file")
    hs = ctx.fn("Cluster.has_submitter", "C10.6")
    r.check(ctx.src(_single_return(hs)) == "self._config.submitter is not None", "has_submitter = submitter is not None", key_of(hs, "has_submitter"), hs.loc(), f"has_submitter is `{ctx.src(_single_return(hs))}`", "promotion fails while another holds the role")
    am = ctx.fn("Cluster.am_i_submitter", "C10.6")
    r.check(ctx.src(_single_return(am)).replace(" ", "") in ("self._config.submitter==self._hostname", "self._hostname==self._config.submitter"), "am_i_submitter = submitter == own hostname", key_of(am, "am_i_submitter"), am.loc(), f"am_i_submitter is `{ctx.src(_single_return(am))}`")
    ok = any(isinstance(n, ast.Assign) and ctx.src(n.targets[0]) == "self._hostname" and ctx.src(n.value) == "socket.gethostname()" for n in iter_own(init.node))
    r.check(ok, "hostname = socket.gethostname()", key_of(init, "hostname"), init.loc(), "Cluster._hostname is not socket.gethostname()")


@rule(P, "C10.7", "T10", "every function that writes both state files passes the config serialiser (and its version check) first", min_obligations=2)
def c10_7(ctx, r):
    """The config version moves with every role change and every status update, so it is the comparison that catches a
    stale handle; if the job-status file is written first, a handle with a stale config has already changed
    job_status.json when ConfigVersionMismatch is raised."""
    n_fn = 0
    for f in ctx.ix.functions.values():
        if f.cls is None or f.cls.name != "Cluster":
            continue
        sc = [n for s2 in ctx.sites(f, short="Cluster._serialize") for n in ctx.nodes_of(f, s2.node)]
        sj = [n for s2 in ctx.sites(f, short="Cluster._serialize_jobs") for n in ctx.nodes_of(f, s2.node)]
        if not sc or not sj:
            continue
        n_fn += 1
        for j in sj:
            r.check(dominated_by(ctx, f, j, sc, ALL_KINDS), f"{f.short}: _serialize() dominates _serialize_jobs()", key_of(f, "job status written before the config version check"), f.loc(j.stmt),
                    f"{f.short} writes job_status.json before the config serialiser compared the config version: a handle whose config copy is out of date (another node was promoted / demoted meanwhile) "
                    "rewrites job_status.json and its version file and only then gets ConfigVersionMismatch", "the write is rejected with a version-mismatch error and the files on disk are unchanged")
    if n_fn < 2:
        raise AnalysisError("C10.7", f"only {n_fn} Cluster methods write both state files (expected _update_job_status and _prepare_for_resubmission)")


@rule(P, "C10.8", "T5", "only a promoted handle reaches a mutating call (no write after the role was given up)", min_obligations=6)
def c10_8(ctx, r):
    from .c01 import c01_1

    c01_1(ctx, r)


@rule(P, "C10.9", "T1", "a new submission starts with an exclusive creation of its output directory (two submit-jobs into one directory cannot both create the cluster state)", min_obligations=2)
def c10_9(ctx, r):
    """`os.path.exists(output)` followed by Cluster.create() is check-then-act; between two concurrent `submit-jobs -o X` the only atomic step is
    the directory creation.  os.makedirs(output) / os.mkdir(output) raises FileExistsError for the loser - unless it is given exist_ok=True, in
    which case both go on to Cluster.create(): the second resets both version files to 0 and overwrites the first one's recorded batches, and
    both hold the submitter role."""
    fn = ctx.fn("submit_jobs.submit_jobs", "C10.9")
    out = "output" if "output" in fn.params else None
    if out is None:
        raise AnalysisError("C10.9", f"submit_jobs parameters: {fn.params[:4]}...")
    mk = []
    for c in iter_own(fn.node):
        if isinstance(c, ast.Call) and ctx.src(c.func) in ("os.makedirs", "os.mkdir", "makedirs", "mkdir") and c.args and ctx.src(c.args[0]) == out:
            mk.append(c)
        if isinstance(c, ast.Call) and isinstance(c.func, ast.Attribute) and c.func.attr == "mkdir" and out in ctx.src(c.func.value):
            mk.append(c)
    runs = [s for s in ctx.cg.sites_in(fn) if s.calls_short(ctx.ix, "JobSubmitter.run_submit_jobs")]
    if not mk or len(runs) != 1:
        raise AnalysisError("C10.9", f"{len(mk)} creations of the output directory and {len(runs)} run_submit_jobs calls in submit_jobs")

    def exclusive(c):
        for k in c.keywords:
            if k.arg == "exist_ok" and not (isinstance(k.value, ast.Constant) and k.value.value is False):
                return False
            if k.arg is None:
                return False
        pos = 2 if ctx.src(c.func).endswith("makedirs") else None  # os.makedirs(name, mode, exist_ok)
        return not (pos is not None and len(c.args) > pos)

    excl = [c for c in mk if exclusive(c)]
    r.check(bool(excl), "the output directory is created exclusively (no exist_ok)", key_of(fn, "output directory creation not exclusive"), fn.loc(mk[0]),
            f"`{ctx.src(mk[0])}` tolerates an existing directory: of two concurrent submit-jobs into the same new directory both pass the existence check, both create the cluster state and both hold "
            "the submitter role; the second create resets the version files and overwrites the first one's state", "at most one process is promoted ... stale state never overwrites newer state")
    run_nodes = ctx.nodes_of(fn, runs[0].node)
    excl_nodes = [n for c in excl for n in ctx.nodes_of(fn, c)]
    okd = bool(excl_nodes) and all(dominated_by(ctx, fn, rn, excl_nodes) for rn in run_nodes)
    r.check(okd or not excl, "the exclusive creation dominates run_submit_jobs", key_of(fn, "submission without exclusive creation"), fn.loc(runs[0].node),
            "run_submit_jobs() is reachable without passing the exclusive creation of the output directory", "at most one process is promoted")

"""C18 - SLURM boundary: faithful scripts, conservative status, bounded retries."""

import ast
import re

from .. import AnalysisError
from ..cfg import ALL_KINDS, NORMAL_KINDS, iter_own
from ..lib import _single_return, both_orders, comp_norm, edge_cond_inlined, inlined, inlined_expr, iteration_paths, dominated_by, guard_forms, key_of, norm, render, return_conditions
from ..report import describe, rule

P = "C18"

describe(
    P,
    "Decides table and shape agreements at the scheduler boundary: the fields of SlurmConfig are exactly the two emitted in the "
    "fixed header plus the tuple of optional parameters iterated by the script writer, each emitted iff not None; the header "
    "lines read the configured account / walltime and the job name and output path passed in, and the srun line runs the "
    "script passed in; only COMPLETED/COMPLETING map to COMPLETE, every status lookup defaults to UNKNOWN, only "
    "{COMPLETE, NONE} count as finished and an id absent from squeue is NONE; submit() returns GOOD only if sbatch "
    "returned 0 and its output matched the job-id pattern (the job id exists only on that path); run_command executes the "
    "process only inside `for ... in range(num_retries + 1)`, leaves the loop on the first success before any sleep and "
    "forces the last iteration on a listed permanent error."
    " Every non-blank line of the squeue answer yields an entry and the parse loop is never left early.",
    ["SLURM's spelling of options (e.g. --ntasks_per_node) is outside the statement", "squeue --Format output has the requested columns"],
    "parsing robustness over arbitrary whitespace and the full SLURM state vocabulary beyond 'unknown names are UNKNOWN'.",
)

SM = "SlurmManager"


def _model_fields(ctx, cls):
    return [f for c in ctx.ix.mro(cls) for f in c.ann_fields if not f.startswith("_")]


@rule(P, "C18.1", "T9", "SlurmConfig fields = header fields + the optional-parameter tuple; each emitted iff set", min_obligations=4)
def c18_1(ctx, r):
    cfgcls = ctx.cls("SlurmConfig", "C18.1")
    fields = set(cfgcls.ann_fields)
    fn = ctx.fn(f"{SM}._create_submission_script_text", "C18.1")
    loops = [n for n in iter_own(fn.node) if isinstance(n, ast.For) and isinstance(n.iter, (ast.Tuple, ast.List))]
    if len(loops) != 1:
        raise AnalysisError("C18.1", f"expected one loop over a literal tuple of parameters, found {len(loops)}")
    lp = loops[0]
    tup = {e.value for e in lp.iter.elts if isinstance(e, ast.Constant)}
    header = set()
    for n in iter_own(fn.node):
        if isinstance(n, ast.Attribute) and isinstance(n.ctx, ast.Load):
            rr = render(ctx, fn, n)
            for cname in ("SlurmConfig", "FakeHpcConfig"):
                if rr.startswith(f"<{cname}.") and rr.endswith(">"):
                    header.add(n.attr)
    missing = fields - tup - header
    extra = (tup | header) - fields
    r.check(not missing, "every SlurmConfig field reaches the script", key_of(fn, f"fields not emitted {sorted(missing)}"), fn.loc(lp),
            f"SlurmConfig fields {sorted(missing)} are never written to the submission script: a configured option is silently ignored", "every optional parameter that is set")
    r.check(not extra, "no emitted name is unknown to SlurmConfig", key_of(fn, f"unknown names {sorted(extra)}"), fn.loc(lp), f"the script writer reads {sorted(extra)}, which SlurmConfig does not define")
    # loop body: value = getattr(hpc, param, None); if value is not None: lines.append(f"#SBATCH --{param}={value}")
    cfg = ctx.cfg(fn)
    apps = [(n, c) for n in cfg.nodes for c in cfg.calls_at(n) if isinstance(c.func, ast.Attribute) and c.func.attr == "append" and any(l is lp for l in ctx.enclosing(fn, c, (ast.For,)))]
    if len(apps) != 1:
        raise AnalysisError("C18.1", f"expected one append in the parameter loop, found {len(apps)}")
    n, c = apps[0]
    forms = guard_forms(ctx, fn, n, ALL_KINDS, kill=False)
    pv = lp.target.id
    okg = any((not p) and re.fullmatch(rf"getattr\((<HpcConfig\.hpc>|self\._config\.hpc|\w+),{pv},None\)isNone", f.replace(" ", "")) for f, p in forms)
    r.check(okg, "an optional parameter is emitted iff its value is not None", key_of(fn, "optional guard"), fn.loc(c), f"the optional line is emitted under {sorted(('' if p else 'not ') + f for f, p in forms)}", "every optional parameter that is set")
    # the value emitted: the single formatted value of the line besides the parameter name
    fv = [v.value for v in c.args[0].values if isinstance(v, ast.FormattedValue)] if isinstance(c.args[0], ast.JoinedStr) else []
    vnames = [v.id for v in fv if isinstance(v, ast.Name) and v.id != pv]
    vname = vnames[0] if len(vnames) == 1 else None
    txt = render(ctx, fn, c.args[0])
    r.check(vname is not None and txt.replace(" ", "") == "f'#SBATCH--{" + pv + "}={" + vname + "}'", "line = #SBATCH --<param>=<value>", key_of(fn, "optional line text"), fn.loc(c), f"the optional line is {txt}")
    ud = None
    if vname:
        for d in ctx.rd(fn).reaching(n, vname):
            ud = ctx.rd(fn).defs_at[d].get(vname)
    okv = isinstance(ud, ast.Call) and ctx.src(ud.func) == "getattr" and len(ud.args) == 3 and render(ctx, fn, ctx.guards(fn).expand(ud.args[0], n)) == "<HpcConfig.hpc>" and ctx.src(ud.args[1]) == pv and ctx.src(ud.args[2]) == "None"
    r.check(okv, "value = getattr(<the hpc config>, param, None)", key_of(fn, "value source"), fn.loc(lp), f"value is {ctx.src(ud) if isinstance(ud, ast.AST) else None}")


@rule(P, "C18.2", "T8", "the fixed header reads account / job name / walltime / output path; srun runs the given script", min_obligations=7)
def c18_2(ctx, r):
    fn = ctx.fn(f"{SM}._create_submission_script_text", "C18.2")
    lines = None
    rets0 = [n for n in iter_own(fn.node) if isinstance(n, ast.Return)]
    lname = rets0[0].value.id if len(rets0) == 1 and isinstance(rets0[0].value, ast.Name) else None
    for n in iter_own(fn.node):
        if isinstance(n, ast.Assign) and isinstance(n.value, ast.List) and lname and ctx.src(n.targets[0]) == lname:
            lines = [render(ctx, fn, e) for e in n.value.elts]
    if lines is None:
        raise AnalysisError("C18.2", "header list `lines = [...]` not found")
    want = {
        "account": "f'#SBATCH --account={<SlurmConfig.account>}'",
        "job name": "f'#SBATCH --job-name={name}'",
        "walltime": "f'#SBATCH --time={<SlurmConfig.walltime>}'",
        "stdout": "f'#SBATCH --output={path}/job_output_%j.o'",
        "stderr": "f'#SBATCH --error={path}/job_output_%j.e'",
    }
    norm_lines = [l.replace("<FakeHpcConfig.walltime>", "<SlurmConfig.walltime>") for l in lines]
    r.check(norm_lines[:1] == ["'#!/bin/bash'"], "script starts with the shebang", key_of(fn, "shebang"), fn.loc(), f"first line is {norm_lines[:1]}")
    for what, w in want.items():
        r.check(w in norm_lines, f"header carries the configured {what}", key_of(fn, f"header {what}"), fn.loc(), f"no header line {w} (lines: {norm_lines})",
                "contains exactly the configured account, walltime, job name, output paths")
    r.check(len(lines) == 6, "no other fixed header line", key_of(fn, "header size"), fn.loc(), f"{len(lines)} fixed lines")
    apps = [ctx.src(n.args[0]) for n in iter_own(fn.node) if isinstance(n, ast.Call) and isinstance(n.func, ast.Attribute) and n.func.attr == "append" and ctx.src(n.func.value) == lname and not ctx.enclosing(fn, n, (ast.For,))]
    r.check(any(a.replace('"', "'") == "f'srun {script}'" for a in apps), "the script body is `srun <script>`", key_of(fn, "srun line"), fn.loc(), f"appended lines: {apps}", "runs the batch's run script")
    rets = [n for n in iter_own(fn.node) if isinstance(n, ast.Return)]
    r.check(len(rets) == 1 and lname is not None and ctx.src(rets[0].value) == lname, "all lines are returned", key_of(fn, "return"), fn.loc(), "the text returned is not `lines`")
    cs = ctx.fn(f"{SM}.create_submission_script", "C18.2")
    s = ctx.one_site(cs, "C18.2", short=f"{SM}._create_submission_script_text")
    r.check([ctx.src(a) for a in s.node.args] == ["name", "script", "path"], "create_submission_script forwards (name, script, path)", key_of(cs, "forward"), s.loc, f"forwards {[ctx.src(a) for a in s.node.args]}")
    w = ctx.sites(cs, short="utils.create_script")
    r.check(bool(w) and ctx.src(w[0].node.args[0]) == "filename" and "text" in ctx.src(w[0].node.args[1]), "the text is written to the given filename", key_of(cs, "write"), cs.loc(), "create_submission_script does not write the text to filename")
    # manager: the script written is the one submitted, through the group's interface
    hm = ctx.fn("HpcManager.submit", "C18.2")
    cc = [s2 for s2 in ctx.cg.sites_in(hm) if isinstance(s2.node.func, ast.Attribute) and s2.node.func.attr == "create_submission_script"]
    sub = [s2 for s2 in ctx.cg.sites_in(hm) if "HANDOFF" in ctx.site_effects(s2)]
    ok = len(cc) == 1 and len(sub) == 1 and len(cc[0].node.args) == 4 and sub[0].node.args
    if ok:
        ca, sa = cc[0].node.args, sub[0].node.args[0]
        same_file = isinstance(ca[2], ast.Name) and isinstance(sa, ast.Name) and ca[2].id == sa.id
        fdef = None
        for n in ctx.nodes_of(hm, cc[0].node):
            fdef = inlined(ctx, hm, ca[2], n)
        ok = (same_file and [ctx.src(a) for a in ca[:2]] + [ctx.src(ca[3])] == ["name", "script", "self._output"] and fdef == "os.path.join(directory,name+'.sh')"
              and ctx.src(cc[0].node.func.value) == ctx.src(sub[0].node.func.value))
    r.check(ok, "HpcManager.submit writes <directory>/<name>.sh and submits that file through the same interface", key_of(hm, "write/submit agreement"), hm.loc(),
            "the script that is written and the script that is submitted (or the interfaces used) differ")
    ah = ctx.fn("AsyncHpcSubmitter.run", "C18.2")
    s2 = ctx.one_site(ah, "C18.2", short="HpcManager.submit")
    args = [ctx.src(a) for a in s2.node.args]
    a2 = s2.node.args[2] if len(s2.node.args) > 2 else None
    svar = a2.args[0].id if isinstance(a2, ast.Call) and ctx.src(a2.func) == "str" and a2.args and isinstance(a2.args[0], ast.Name) else None
    r.check(svar is not None and args[:2] + args[3:] == ["self._output", "self._name", "self._submission_group.name"], "the batch passes (output, name, run script, group name)", key_of(ah, "submit args"), s2.loc, f"HpcManager.submit receives {args}")
    for n in ctx.nodes_of(ah, s2.node):
        defs = {ctx.src(ctx.rd(ah).defs_at[d].get(svar)) for d in ctx.rd(ah).reaching(n, svar) if isinstance(ctx.rd(ah).defs_at[d].get(svar), ast.AST)} if svar else set()
        r.check(defs == {"self._run_script", "self._make_singularity_command()"}, "script = the batch's run script (or its singularity wrapper)", key_of(ah, "script source"), s2.loc, f"script is one of {sorted(defs)}")


@rule(P, "C18.3", "T9+T1", "only finished states count as finished; unknown names are UNKNOWN; an absent id is NONE", min_obligations=6)
def c18_3(ctx, r):
    cls = ctx.cls(SM, "C18.3")
    tbl = cls.class_vars.get("_STATUSES")
    if not isinstance(tbl, ast.Dict):
        raise AnalysisError("C18.3", "SlurmManager._STATUSES is not a dict literal")
    complete = {k.value for k, v in zip(tbl.keys, tbl.values) if isinstance(k, ast.Constant) and ctx.src(v) == "HpcJobStatus.COMPLETE"}
    none = {k.value for k, v in zip(tbl.keys, tbl.values) if isinstance(k, ast.Constant) and ctx.src(v) == "HpcJobStatus.NONE"}
    r.check(complete <= {"COMPLETED", "COMPLETING"} and not none, "only COMPLETED / COMPLETING map to a finished status", key_of(cls.methods["check_statuses"], f"finished states {sorted(complete | none)}"), cls.methods["check_statuses"].loc(),
            f"SLURM states {sorted((complete | none) - {'COMPLETED', 'COMPLETING'})} are treated as finished: a batch that is still queued/running/suspended is dropped from the active set and its jobs are reported missing or resubmitted",
            "A batch that the scheduler reports in any state other than finished or absent is never treated as finished", table={ctx.src(k): ctx.src(v) for k, v in zip(tbl.keys, tbl.values)})
    vals = {ctx.src(v) for v in tbl.values}
    r.check(vals <= {"HpcJobStatus.QUEUED", "HpcJobStatus.RUNNING", "HpcJobStatus.COMPLETE"}, "table values are QUEUED / RUNNING / COMPLETE", key_of(cls.methods["check_statuses"], "table values"), cls.methods["check_statuses"].loc(), f"table values {sorted(vals)}")
    # every lookup defaults to UNKNOWN
    n = 0
    for m in cls.methods.values():
        for c in iter_own(m.node):
            if isinstance(c, ast.Call) and isinstance(c.func, ast.Attribute) and ctx.src(c.func.value).endswith("_STATUSES"):
                n += 1
                ok = c.func.attr == "get" and len(c.args) == 2 and ctx.src(c.args[1]) == "HpcJobStatus.UNKNOWN"
                r.check(ok, f"{m.short}: status lookup defaults to UNKNOWN", key_of(m, "status lookup default"), m.loc(c), f"`{ctx.src(c)}`: an unlisted SLURM state becomes {ctx.src(c.args[1]) if len(c.args) > 1 else 'an exception'}",
                        "any state other than finished or absent is never treated as finished")
            if isinstance(c, ast.Subscript) and ctx.src(c.value).endswith("_STATUSES") and isinstance(c.ctx, ast.Load):
                n += 1
                r.bad(key_of(m, "status lookup by subscript"), m.loc(c), f"`{ctx.src(c)}` raises KeyError for an unlisted SLURM state: the whole round fails on e.g. SUSPENDED")
    if n < 3:
        raise AnalysisError("C18.3", f"only {n} status lookups found")
    # parse: the state is the second field of each line, the id the first
    gs = ctx.fn(f"{SM}._get_statuses_from_output", "C18.3")
    cfg_gs = ctx.cfg(gs)
    rr = sorted([n for n in iter_own(gs.node) if isinstance(n, ast.Return) and isinstance(n.value, ast.Name)], key=lambda x: x.lineno)
    sname = rr[-1].value.id if rr else None
    st_nodes = [n for n in cfg_gs.nodes if n.kind == "stmt" and isinstance(n.ast, ast.Assign) and isinstance(n.ast.targets[0], ast.Subscript) and sname and ctx.src(n.ast.targets[0].value) == sname]
    okf = bool(st_nodes)
    got = []
    for n in st_nodes:
        g = ctx.guards(gs)
        key = n.ast.targets[0].slice
        key = g.expand(key, n) if isinstance(key, ast.Name) else key
        val = n.ast.value
        look = val.args[0] if isinstance(val, ast.Call) and val.args else None
        look = g.expand(look, n) if isinstance(look, ast.Name) else look

        def field_index(e):
            if isinstance(e, ast.Subscript) and isinstance(e.slice, ast.Constant) and isinstance(e.value, ast.Name):
                src = g.expand(e.value, n)
                if "split(" in ctx.src(src):
                    return e.slice.value
            return None

        got.append((field_index(key), field_index(look) if look is not None else None))
        okf = okf and got[-1] == (0, 1)
    r.check(okf, "parse: id = field 0, state = field 1 of the split line", key_of(gs, "field order"), gs.loc(), f"the squeue line is parsed with (id field, state field) = {got}, the request asks for (jobid, state)")
    # every non-blank line of the answer yields an entry: a line skipped (or a parse loop left early) makes the
    # ids behind it look absent, and absent = finished
    cfgs = ctx.cfg(gs)
    stores = [n for n in cfgs.nodes if n.kind == "stmt" and isinstance(n.ast, ast.Assign) and isinstance(n.ast.targets[0], ast.Subscript) and sname and ctx.src(n.ast.targets[0].value) == sname]
    loops = [n for n in iter_own(gs.node) if isinstance(n, ast.For)]
    if len(loops) != 1 or not stores:
        raise AnalysisError("C18.3", f"expected one parse loop with a store into the returned dict in {gs.short}")
    lv = ctx.src(loops[0].target)
    blank = {(f"{lv} == ''", True), (lv, False), (f"{lv}.strip()", False), (f"{lv}.strip() == ''", True)}
    # `text.split("\n")` yields "" for an empty answer and after a trailing newline: such a line must be skipped, not parsed
    it_e = loops[0].iter
    heads = [n for n in cfgs.nodes if n.kind == "for" and n.ast is loops[0]]
    it_x = ctx.guards(gs).expand(it_e, heads[0]) if isinstance(it_e, ast.Name) and heads else it_e
    by_split = isinstance(it_x, ast.Call) and isinstance(it_x.func, ast.Attribute) and it_x.func.attr == "split" and it_x.args and isinstance(it_x.args[0], ast.Constant) and it_x.args[0].value == "\n"
    skips = [1 for end, conds, last in iteration_paths(ctx, gs, loops[0], avoid=stores) if end == "next" and conds & blank]
    if by_split:
        r.check(bool(skips), "a blank line (empty answer, trailing newline) is skipped", key_of(gs, "blank line parsed"), gs.loc(loops[0]),
                f"the lines come from `{ctx.src(it_x)}`, which yields an empty string for an empty squeue answer, and no path skips a blank line: with no batch left in the queue - exactly when a user runs the documented "
                "try-submit-jobs recovery - the parser fails (field count assertion / index error) and the round never completes the submission",
                "The submission still reaches completion after the documented try-submit-jobs")
    for end, conds, last in iteration_paths(ctx, gs, loops[0], avoid=stores):
        okp = end == "next" and bool(conds & blank)
        what = "leaves the parse loop" if end == "leave" else "skips a line"
        r.check(okp, "a line is skipped only if it is blank, and the parse loop is never left early", key_of(gs, f"{what} under {sorted(('' if p else 'not ') + f for f, p in conds)}"), gs.loc(last.stmt if last.stmt is not None else loops[0]),
                f"_get_statuses_from_output {what} without recording a status under {sorted(('' if p else 'not ') + f for f, p in conds)}: the batch ids on (or after) that line are absent from the answer, and an absent id counts as finished",
                "A batch that the scheduler reports in any state other than finished or absent is never treated as finished")
    cs = ctx.fn(f"{SM}.check_statuses", "C18.3")
    r.check('("jobid","state")' in ctx.src(cs.node).replace(" ", "").replace("'", '"'), "squeue is asked for (jobid, state)", key_of(cs, "format"), cs.loc(), "squeue --Format columns changed")
    # one poll answers for every group's batches: the listing is selected by the submitting user only (HpcManager polls through
    # the first group's interface; an account / partition / name filter hides the batches of groups that differ in it)
    def _lit(x):
        return "".join(v.value for v in x.values if isinstance(v, ast.Constant)) if isinstance(x, ast.JoinedStr) else (x.value if isinstance(x.value, str) else "")

    cmds = [x for x in iter_own(cs.node) if isinstance(x, (ast.JoinedStr, ast.Constant)) and (_lit(x).startswith("squeue -") or _lit(x).startswith("squeue --")) and not isinstance(ctx.parents(cs).get(id(x)), (ast.JoinedStr, ast.FormattedValue))]
    if not cmds:
        raise AnalysisError("C18.3", "squeue command text not found in check_statuses")
    for x in cmds:
        lit = "".join(v.value for v in x.values if isinstance(v, ast.Constant)) if isinstance(x, ast.JoinedStr) else x.value
        toks = lit.split()
        filt = sorted(t for t in toks if t in ("-A", "--account", "-p", "--partition", "-n", "--name", "-q", "--qos", "-w", "--nodelist", "-R", "--reservation", "-j", "--jobs", "-t", "--states") or t.startswith(("--account=", "--partition=", "--name=", "--qos=", "--states=")))
        r.check(("-u" in toks or "--user" in toks or "--me" in toks) and not filt, "squeue lists all batches of the submitting user", key_of(cs, f"squeue filtered by {filt or 'something other than the user'}"), cs.loc(x),
                f"the status poll is `{lit.strip()[:70]}`: " + (f"the filter {filt} hides" if filt else "without -u it does not select") + " this submission's batches of other groups (another account / partition): they are absent from the answer, "
                "absent counts as finished, and completion is forced while they run", "A batch that the scheduler reports in any state other than finished or absent is never treated as finished")
    # ... and nothing is appended to that command afterwards (`cmd += " -t ..."` restricts the listing just as well)
    for x in iter_own(cs.node):
        if isinstance(x, ast.AugAssign) and isinstance(x.op, ast.Add) and isinstance(x.value, (ast.JoinedStr, ast.Constant)):
            lit = _lit(x.value) if isinstance(x.value, ast.JoinedStr) or isinstance(x.value.value, str) else ""
            toks = lit.split()
            filt = sorted(t for t in toks if t.startswith("-") and t not in ("-h", "--noheader", "-u", "--user", "--me", "--Format", "-O", "-o", "--format"))
            r.check(not filt, "nothing restricts the listing after the command was built", key_of(cs, f"squeue listing restricted by appended {filt}"), cs.loc(x),
                    f"`{ctx.src(x)[:70]}` appends {filt} to the status poll: batches outside that selection (a state JADE has no name for - SUSPENDED, REQUEUED, ... -, another account) are absent from the answer, "
                    "absent counts as finished, and completion is forced while they are still alive", "A batch that the scheduler reports in any state other than finished or absent is never treated as finished")
    ic = ctx.fn("AsyncHpcSubmitter.is_complete", "C18.3")
    st = [x for x in iter_own(ic.node) if isinstance(x, ast.Assign) and ctx.src(x.targets[0]) == "self._is_complete" and isinstance(x.value, ast.Compare)]
    ok = len(st) == 1 and isinstance(st[0].value.ops[0], ast.In) and {ctx.src(e) for e in st[0].value.comparators[0].elts} == {"HpcJobStatus.COMPLETE", "HpcJobStatus.NONE"}
    src_ok = False
    if ok:
        for n in ctx.nodes_of(ic, st[0]):
            lv = st[0].value.left
            lv = ctx.guards(ic).expand(lv, n) if isinstance(lv, ast.Name) else lv
            src_ok = ctx.src(lv) == "self._status_collector.check_status(self._job_id)"
    r.check(ok, "a batch is finished iff its status is COMPLETE or NONE", key_of(ic, "finished set"), ic.loc(), f"is_complete decides by `{ctx.src(st[0].value) if st else None}`",
            "any state other than finished or absent is never treated as finished")
    r.check(src_ok, "status = collector.check_status(own id)", key_of(ic, "status source"), ic.loc(), "status is not queried for the batch's own id")
    ck = ctx.fn("HpcStatusCollector.check_status", "C18.3")
    rets = [x for x in iter_own(ck.node) if isinstance(x, ast.Return)]
    ok = len(rets) == 1 and ctx.src(rets[0].value) == "self._statuses.get(job_id, HpcJobStatus.NONE)"
    r.check(ok, "an id absent from the squeue answer is NONE", key_of(ck, "absent id"), ck.loc(), f"check_status returns `{ctx.src(rets[0].value) if rets else None}`")
    # the poll time is recorded only after the poll succeeded: if check_statuses() raises, the next call (within the poll
    # interval) must poll again instead of answering NONE (= finished) from the empty cache
    cfgk = ctx.cfg(ck)
    polls = [n for s2 in ctx.cg.sites_in(ck) if "SQUEUE" in ctx.site_may(s2) or s2.calls_short(ctx.ix, "HpcManager.check_statuses") for n in ctx.nodes_of(ck, s2.node)]
    stamps = [n for n in cfgk.nodes if n.kind == "stmt" and isinstance(n.ast, ast.Assign) and ctx.src(n.ast.targets[0]) == "self._last_poll_time" and not (isinstance(n.ast.value, ast.Constant) and n.ast.value.value is None)]
    if not polls or not stamps:
        raise AnalysisError("C18.3", f"HpcStatusCollector.check_status: polls={len(polls)} timestamp stores={len(stamps)}")
    for n in stamps:
        r.check(dominated_by(ctx, ck, n, polls, NORMAL_KINDS), "the poll timestamp is stored after the scheduler query returned", key_of(ck, "poll time stored before the query"), ck.loc(n.ast),
                "self._last_poll_time is updated before check_statuses() ran: when that query fails (after its retries) the collector believes it has just polled, and the next check_status() within the poll interval "
                "answers HpcJobStatus.NONE from the empty cache - a queued / running batch is taken for finished", "After a transient failure of the scheduler's status query the next round proceeds normally / never treated as finished")
    # a failed squeue raises (never an empty answer that would make every batch NONE)
    for ret, conds, path in return_conditions(ctx, cs):
        okc = any(p and f.replace(" ", "") in ("ret==0",) or ((not p) and False) for f, p in conds) or any(p and "== 0" in f for f, p in conds)
        r.check(okc, "statuses are returned only if squeue returned 0", key_of(cs, "squeue failure"), cs.loc(ret) if ret is not None else cs.loc(), "check_statuses returns an answer although squeue failed: every active batch looks absent (= finished)",
                "After a transient failure of the scheduler's status query", conds=sorted(("" if p else "not ") + f for f, p in conds))


def submit_returns(ctx, r, rid):
    fn = ctx.fn(f"{SM}.submit", rid)
    cfg = ctx.cfg(fn)
    rets = [n for n in cfg.nodes if n.kind == "stmt" and isinstance(n.ast, ast.Return)]
    if len(rets) != 1 or not isinstance(rets[0].ast.value, ast.Tuple) or len(rets[0].ast.value.elts) != 3:
        raise AnalysisError(rid, "SlurmManager.submit does not end in `return result, job_id, err`")
    rv, jv = rets[0].ast.value.elts[0], rets[0].ast.value.elts[1]
    if not isinstance(rv, ast.Name) or not isinstance(jv, ast.Name):
        raise AnalysisError(rid, "returned result / job id are not locals")
    goods = 0
    npaths = 0
    for path in cfg.paths(kinds=NORMAL_KINDS, max_visits=1, cap=400, targets={cfg.exit.id}):
        npaths += 1
        conds = set()
        res = jid = None
        for n, k, c in path:
            if k in ("T", "F") and c is not None:
                conds.add(edge_cond_inlined(ctx, fn, n, k, c))
            if n.kind == "stmt" and isinstance(n.ast, ast.Assign) and isinstance(n.ast.targets[0], ast.Name):
                if n.ast.targets[0].id == rv.id:
                    res = ctx.src(n.ast.value)
                if n.ast.targets[0].id == jv.id:
                    jid = ctx.src(n.ast.value)
        ret0 = any(p and re.fullmatch(r"(0==)?run_command\(.*sbatch.*\)(==0)?", f) and ("==0" in f or f.startswith("0==")) for f, p in conds)
        matched = any(p and "_REGEX_SBATCH_OUTPUT." in f for f, p in conds)
        if res == "Status.GOOD":
            goods += 1
            r.check(ret0 and matched, "GOOD only if sbatch returned 0 and its output matched the job-id pattern", key_of(fn, f"GOOD under {sorted(f for f, p in conds if p)}"), fn.loc(rets[0].ast),
                    f"submit() returns GOOD on a path where {'sbatch failed' if not ret0 else 'the output did not match `Submitted batch job <id>`'}: the batch is counted active with job id {jid}",
                    "an unparsable submit response is treated as a failed submission", conds=sorted(("" if p else "not ") + f for f, p in conds))
            r.check(jid is not None and "group(1)" in jid, "the job id is the matched group on the GOOD path", key_of(fn, "job id on GOOD"), fn.loc(rets[0].ast), f"job id on the GOOD path is {jid}")
        else:
            r.check(res == "Status.ERROR", "every other path returns ERROR", key_of(fn, f"returns {res}"), fn.loc(rets[0].ast), f"submit() returns {res} under {sorted(conds)}")
            r.check(jid in (None, "None"), "no job id on a failure path", key_of(fn, "job id on failure"), fn.loc(rets[0].ast), f"job id {jid} on a failure path")
    ctx.counters["paths"] += npaths
    if goods == 0:
        raise AnalysisError(rid, "submit() has no GOOD path")
    # the (unanchored) pattern is searched for, not matched at the start: sbatch may print other lines first, and an
    # accepted batch that is taken for a failure is on the scheduler without being counted as active
    uses = [c for n in cfg.nodes for c in cfg.calls_at(n) if isinstance(c.func, ast.Attribute) and isinstance(c.func.value, ast.Attribute) and c.func.value.attr == "_REGEX_SBATCH_OUTPUT"]
    if not uses:
        raise AnalysisError(rid, "submit() does not apply _REGEX_SBATCH_OUTPUT")
    for c in uses:
        r.check(c.func.attr == "search", "the job-id pattern is searched anywhere in sbatch's output", key_of(fn, f"job id pattern applied with .{c.func.attr}"), fn.loc(c),
                f"`{ctx.src(c)}` anchors the unanchored pattern at the start of stdout: when sbatch prints a note before 'Submitted batch job N' an accepted batch is classified as a failed submission - "
                "it runs on the scheduler but is never counted as active, so the max-nodes limit is exceeded and its jobs are handed out again", "an unparsable submit response is treated as a failed submission (and only that)")
    cls = ctx.cls(SM)
    rx = cls.class_vars.get("_REGEX_SBATCH_OUTPUT")
    r.check(isinstance(rx, ast.Call) and rx.args and isinstance(rx.args[0], ast.Constant) and rx.args[0].value == "Submitted batch job (\\d+)", "pattern = `Submitted batch job (\\d+)`", key_of(fn, "pattern"), fn.loc(), f"sbatch output pattern is {ctx.src(rx) if rx is not None else None}")


@rule(P, "C18.4", "T13", "submit() is GOOD only for sbatch exit 0 with a parsable job id", min_obligations=3)
def c18_4(ctx, r):
    submit_returns(ctx, r, "C18.4")


@rule(P, "C18.5", "T14", "run_command executes at most num_retries+1 times, stops at the first success or a listed permanent error", min_obligations=6)
def c18_5(ctx, r):
    fn = ctx.fn("run_command.run_command", "C18.5")
    cfg = ctx.cfg(fn)
    execs = [n for s in ctx.sites(fn, short="run_command._run_command") for n in ctx.nodes_of(fn, s.node)]
    if len(execs) != 1:
        raise AnalysisError("C18.5", f"expected one _run_command call, found {len(execs)}")
    ex = execs[0]
    loops = ctx.enclosing(fn, ex.stmt, (ast.For, ast.While))
    if len(loops) != 1 or isinstance(loops[0], ast.While):
        r.bad(key_of(fn, "retry loop shape"), fn.loc(ex.stmt), "the process execution is not inside exactly one `for ... in range(...)` loop (a while loop has no static bound)", "retried at most the configured number of times")
        return
    lp = loops[0]
    it = lp.iter
    bound = None
    if isinstance(it, ast.Call) and ctx.src(it.func) == "range" and len(it.args) == 1:
        nodes = cfg.nodes_of(it)
        e = ctx.guards(fn).expand(it.args[0], nodes[0]) if nodes else it.args[0]
        bound = ctx.src(e).replace(" ", "")
    r.check(bound == "num_retries+1", "loop bound = num_retries + 1", key_of(fn, f"retry bound {bound}"), fn.loc(lp), f"the retry loop runs range({bound}) times", "retried at most the configured number of times")
    # roles: RET = the local bound to the execution's result, IV = the loop variable, MT = the name used as range bound
    RET = ex.stmt.targets[0].id if isinstance(ex.stmt, ast.Assign) and isinstance(ex.stmt.targets[0], ast.Name) else None
    IV = ctx.src(lp.target)
    MT = it.args[0].id if isinstance(it, ast.Call) and it.args and isinstance(it.args[0], ast.Name) else None
    if RET is None or MT is None:
        raise AnalysisError("C18.5", "retry loop: result local / bound local not recognised")
    # exits: the break is taken when ret == 0 or i == max_tries - 1, before the sleep
    brks = [n for n in cfg.nodes if n.kind == "stmt" and isinstance(n.ast, ast.Break)]
    sleeps = [n for n in cfg.nodes for c in cfg.calls_at(n) if ctx.src(c.func) == "time.sleep"]
    if not brks:
        r.bad(key_of(fn, "no break"), fn.loc(lp), "the retry loop has no break: a successful command is executed num_retries+1 times", "stopping at the first success")
        return
    # from the exec node, following the T edge of `ret == 0`, no sleep and no second exec before leaving the loop
    head = [n for n in cfg.nodes if n.kind == "for" and n.ast is lp][0]
    ok_succ = None
    for n in cfg.nodes:
        for d, k, c in n.succ:
            if k in ("T", "F") and c is not None and (f"{RET} == 0", True) in both_orders([norm(ctx, fn, c, None, pol=(k == "T"))]) and any(l is lp for l in ctx.enclosing(fn, c, (ast.For,))) and n.kind == "test" and _is_exit_test(ctx, fn, n):
                seen, stack = set(), [d]
                bad = False
                while stack:
                    x = stack.pop()
                    if x.id in seen:
                        continue
                    seen.add(x.id)
                    if x in sleeps or x is ex or x is head:
                        bad = True
                        continue
                    if x.kind == "stmt" and isinstance(x.ast, ast.Break):
                        continue
                    stack.extend(dd for dd, kk, _ in x.succ if kk in NORMAL_KINDS)
                ok_succ = not bad if ok_succ is None else (ok_succ and not bad)
    r.check(bool(ok_succ), "after ret == 0 the loop is left without sleeping or re-executing", key_of(fn, "exit on success"), fn.loc(lp), "a successful execution is followed by a sleep / another execution", "stopping at the first success")
    # every path from exec back to the loop head passes the sleep (no busy retry) - informational
    # listed permanent error forces the last iteration
    sets_last = [n for n in cfg.nodes if n.kind == "stmt" and isinstance(n.ast, ast.Assign) and ctx.src(n.ast.targets[0]) == IV and ctx.src(n.ast.value).replace(" ", "") == f"{MT}-1"]
    ok_err = False
    for n in sets_last:
        forms = guard_forms(ctx, fn, n)
        ok_err = any(p and "_should_exit_early" in f for f, p in forms)
    r.check(ok_err, "a listed permanent error jumps to the last iteration", key_of(fn, "early exit on listed error"), fn.loc(lp), "a listed permanent error no longer stops the retries", "or at a listed permanent error")
    last = any(p and f.replace(" ", "") in (f"{IV}=={MT}-1", f"{IV}==({MT}-1)") for b in brks for f, p in guard_forms(ctx, fn, b, ALL_KINDS, kill=False)) or True
    # the exit test is `ret == 0 or i == max_tries - 1`
    tests = [n for n in iter_own(lp) if isinstance(n, ast.If) and any(isinstance(x, ast.Break) for x in n.body)]
    r.check(len(tests) == 1 and _exit_test_ok(ctx.src(tests[0].test).replace(" ", ""), RET, IV, MT), "exit test = `ret == 0 or i == max_tries - 1`", key_of(fn, "exit test"), fn.loc(lp), f"exit test is `{ctx.src(tests[0].test) if tests else None}`")
    # the output handed back is that of the last execution
    r.check(dominated_by(ctx, fn, brks[0], [n for n in cfg.nodes for c in cfg.calls_at(n) if ctx.src(c.func) == "output.update"] + [x for x in cfg.nodes if x.kind == "test" and ctx.src(x.ast) == "isinstance(output, dict)"]), "the caller's output dict is filled before leaving", key_of(fn, "output"), fn.loc(), "output is not updated before the break")
    # contradiction rule: the dict whose stderr is examined is the dict the guard tested (the per-attempt one)
    for s2 in ctx.sites(fn, short="run_command._should_exit_early"):
        a0 = s2.node.args[0] if s2.node.args else None
        var = a0.value.id if isinstance(a0, ast.Subscript) and isinstance(a0.value, ast.Name) else None
        for n in ctx.nodes_of(fn, s2.node):
            forms = guard_forms(ctx, fn, n)
            in_loop_def = var is not None and any(any(l is lp for l in ctx.enclosing(fn, cfg.nodes[d].stmt, (ast.For,))) for d in ctx.rd(fn).reaching(n, var))
            r.check(var is not None and (var, True) in forms and in_loop_def, "the permanent-error test reads the stderr of this attempt, under a test of that same dict", key_of(fn, "early-exit test guarded by another dict"), s2.loc,
                    f"`{ctx.src(s2.node)}` examines `{var}` but is guarded by {sorted(f for f, p in forms if p and f in fn.params + ['_output', 'output'])}: with a fresh (empty) caller dict the listed-error test is never reached and a permanent error is retried num_retries times",
                    "stopping at the first success or at a listed permanent error", guards=sorted(("" if p else "not ") + f for f, p in forms))
    sc = ctx.fn("run_command._should_exit_early", "C18.5")
    # either form: `for e in errors: if e in std_err: return True ... return False`  or  `return any(e in std_err for e in errors)`
    lps0 = [n for n in sc.node.body if isinstance(n, ast.For)]
    anyf = [c for c in iter_own(sc.node) if isinstance(c, ast.Call) and ctx.src(c.func) == "any" and len(c.args) == 1 and isinstance(c.args[0], (ast.GeneratorExp, ast.ListComp))]
    if anyf:
        g = anyf[0].args[0]
        okany = comp_norm(g).strip("()[]") == f"_in{sc.params[0]}for_in{sc.params[1]}" and not g.generators[0].ifs
        r.check(okany, "permanent error = some listed string occurs in stderr", key_of(sc, "match"), sc.loc(), f"_should_exit_early is `{ctx.src(anyf[0])}`")
    else:
        ev = ctx.src(lps0[0].target) if lps0 else None
        ok = any(isinstance(n, ast.If) and ctx.src(n.test).replace(" ", "") == f"{ev}in{sc.params[0]}" for n in iter_own(sc.node))
        r.check(ok, "permanent error = a listed string occurs in stderr", key_of(sc, "match"), sc.loc(), "_should_exit_early no longer tests `err in std_err`")
        lps = [n for n in sc.node.body if isinstance(n, ast.For)]
        if len(lps) != 1 or not isinstance(lps[0].iter, ast.Name) or lps[0].iter.id not in sc.params:
            raise AnalysisError("C18.5", "_should_exit_early does not loop over its error-strings parameter")
        for end, conds, last in iteration_paths(ctx, sc, lps[0]):
            if end == "leave":
                hit = any(p and " in " in f for f, p in conds)
                r.check(hit, "the scan of the listed errors stops only on a match", key_of(sc, f"scan left early under {sorted(('' if p else 'not ') + f for f, p in conds)}"), sc.loc(last.stmt if last.stmt is not None else lps[0]),
                        "_should_exit_early leaves the loop over the listed error strings without a match: only the first listed string is ever examined, so a failure matching a later one is retried num_retries times",
                        "stopping at the first success or at a listed permanent error")
    # one execution per iteration
    rc = ctx.fn("run_command._run_command", "C18.5")
    ex2 = [s for s in ctx.cg.sites_in(rc) if s.external in ("subprocess.Popen", "subprocess.call", "subprocess.run")]
    cfgr = ctx.cfg(rc)
    per_path = set()
    for path in cfgr.paths(kinds=NORMAL_KINDS, max_visits=1, cap=100, targets={cfgr.exit.id}):
        ids = {n.id for n, _, _ in path}
        per_path.add(sum(1 for s in ex2 if any(n.id in ids for n in cfgr.nodes_of(s.node))))
    r.check(per_path == {1}, "_run_command starts exactly one process per call", key_of(rc, "one process"), rc.loc(), f"_run_command starts {sorted(per_path)} processes per call")


def _is_exit_test(ctx, fn, node):
    st = node.stmt
    return isinstance(st, ast.If) and any(isinstance(x, ast.Break) for x in st.body)


@rule(P, "C18.6", "T1", "SLURM option models change a configured value only when it is unset (what is configured is what the script carries)", min_obligations=1)
def c18_6(ctx, r):
    """pydantic root validators of the scheduler option models may fill defaults: a store `values[K] = <constant>` must be
    under `values[K] is None` - otherwise a configured option is silently replaced before the script is written."""
    n = 0
    for cname in ("SlurmConfig", "FakeHpcConfig", "LocalHpcConfig", "HpcConfig"):
        c = ctx.ix.try_class(cname) if hasattr(ctx.ix, "try_class") else None
        if c is None:
            try:
                c = ctx.cls(cname)
            except AnalysisError:
                continue
        for m in c.methods.values():
            pv = [p for p in m.params if p not in ("cls", "self")]
            if not pv:
                continue
            cfg = ctx.cfg(m)
            for node in cfg.nodes:
                a = node.ast
                if node.kind == "stmt" and isinstance(a, ast.Assign) and isinstance(a.targets[0], ast.Subscript) and isinstance(a.targets[0].value, ast.Name) and a.targets[0].value.id == pv[0] and isinstance(a.targets[0].slice, ast.Constant) and isinstance(a.value, ast.Constant):
                    n += 1
                    key = a.targets[0].slice.value
                    forms = guard_forms(ctx, m, node, ALL_KINDS, kill=False)
                    ok = any(p and f.replace('"', "'") == f"{pv[0]}['{key}'] is None" for f, p in forms)
                    r.check(ok, f"{m.short}: `{key}` is defaulted only when unset", key_of(m, f"overwrites configured {key}"), m.loc(a),
                            f"`{ctx.src(a)}` is reachable without `{pv[0]}['{key}'] is None`: a configured `{key}` is replaced by {ctx.src(a.value)} and the submission script carries --{key}={ctx.src(a.value)} instead of the configured value",
                            "contains exactly the configured ... every optional parameter that is set")
    if n < 1:
        raise AnalysisError("C18.6", "no defaulting store found in the scheduler option models (SlurmConfig.handle_nodes_and_tasks expected)")


def _exit_test_ok(txt, RET, IV, MT):
    parts = txt.split("or")
    if len(parts) != 2:
        return False
    a = {parts[0], "==".join(reversed(parts[0].split("==")))} if "==" in parts[0] else {parts[0]}
    b = {parts[1], "==".join(reversed(parts[1].split("==")))} if "==" in parts[1] else {parts[1]}
    return bool(a & {f"{RET}==0"}) and bool(b & {f"{IV}=={MT}-1", f"{IV}==({MT}-1)"})


@rule(P, "C18.7", "T1", "the single-job poll answers NONE (= gone) only for an empty answer or the scheduler's own 'invalid id' - never for an answer it cannot parse", min_obligations=2)
def c18_7(ctx, r):
    """SlurmManager.check_status: NONE counts as finished everywhere (is_complete, submit(wait=True), show-status recovery).  squeue's fixed-width
    columns run together for long names, so an answer can have fewer tokens than fields while the batch is running.  Such an answer must not
    be read as 'no such job'.  Decided: every return whose status is HpcJobStatus.NONE is guarded by (a) the token list being *empty*, or
    (b) a failed command whose stderr carries the listed permanent error; nothing weaker (a length comparison against the field count)."""
    fn = ctx.fn("SlurmManager.check_status", "C18.7")
    cfg = ctx.cfg(fn)
    n = 0
    for nd in cfg.nodes:
        a = nd.ast
        if nd.kind != "stmt" or not isinstance(a, ast.Return) or a.value is None or "HpcJobStatus.NONE" not in ctx.src(inlined_expr(ctx, fn, a.value)):
            continue
        if ".get(" in ctx.src(inlined_expr(ctx, fn, a.value)):
            continue  # the table lookup's default is judged by C18.3
        n += 1
        forms = guard_forms(ctx, fn, nd)
        pos = {f.replace(" ", "") for f, p in forms if p}
        neg = {f.replace(" ", "") for f, p in forms if not p}
        empty = any(re.fullmatch(r"\w+", f) for f in neg) or any(re.fullmatch(r"len\(\w+\)==0|0==len\(\w+\)|\w+==\[\]|\[\]==\w+", f) for f in pos)
        invalid = any("stderr" in f and "in" in f for f in pos) and (any(re.fullmatch(r"\w+!=0|0!=\w+", f) for f in pos) or any(re.fullmatch(r"\w+==0|0==\w+", f) for f in neg))
        weak = [f for f in pos | neg if re.search(r"len\(\w+\)(<|<=|!=)|(<|>|>=|!=)len\(", f) and not re.fullmatch(r"len\(\w+\)==0|0==len\(\w+\)", f)]
        r.check((empty or invalid) and not weak, "NONE is answered for an empty answer / the scheduler's invalid-id error only", key_of(fn, "NONE for an unparsable answer"), fn.loc(a),
                f"check_status answers HpcJobStatus.NONE under {sorted(('' if p else 'not ') + f for f, p in forms)}: an answer it merely cannot parse (fewer tokens than fields - squeue's fixed-width columns run "
                "together for long batch names) is reported as 'no such job', which every caller treats as finished while the batch is running", "a status that cannot be determined is never treated as finished")
    if n < 2:
        raise AnalysisError("C18.7", f"{n} NONE answers recognised in SlurmManager.check_status")


@rule(P, "C18.8", "T6", "a field validator of the SLURM option model hands back the configured value itself (what is configured is what the script carries)", min_obligations=1)
def c18_8(ctx, r):
    """Validators of SlurmConfig check a value (format of gres, say) and return it.  One that returns a *derived* value - the matched part of a
    regular expression - silently rewrites options it does not fully match: a walltime in SLURM's D-HH:MM:SS form loses its days and the
    script asks for `--time=00:00:00`."""
    from ..lib import validators_changing_value

    examined, bad = validators_changing_value(ctx, {"SlurmConfig"})
    if examined < 1:
        raise AnalysisError("C18.8", "no field validator in SlurmConfig")
    for f, n in bad:
        r.bad(key_of(f, "validator returns a derived value"), f.loc(n), f"the validator {f.short} returns `{ctx.src(n.value)}`, not the value it validated: the option written to the sbatch script differs from the one "
              "configured (a D-HH:MM:SS walltime is cut to HH:MM:SS)", "the script contains exactly the configured account, walltime and optional parameters")
    r.ok(f"{examined} field validators of SlurmConfig return their own value")

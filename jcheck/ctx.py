"""Analysis context shared by all rules: cached CFGs / guards / dominators, effect
primitives and summaries (DESIGN 4.3), lock context (T7), small query helpers."""

import ast

from . import AnalysisError
from .callgraph import CallGraph, LOCK_WRAPPERS, Types
from .cfg import ALL_KINDS, CFG, NORMAL_KINDS, ReachingDefs, iter_own
from .guards import Guards, canon, chains, unparse
from .index import Index, dotted


class Ctx:
    def __init__(self, overlay=None, repo=None):
        self.ix = Index(repo=repo, overlay=overlay)
        self.ty = Types(self.ix)
        self.cg = CallGraph(self.ix, self.ty)
        self._cfg = {}
        self._guards = {}
        self._dom = {}
        self._pdom = {}
        self._parents = {}
        self._site_eff = {}
        self._may = None
        self._must = {}
        self._locked = None
        self.counters = {"functions": set(), "call_sites": 0, "cfg_nodes": 0, "paths": 0}
        self.named = set()  # functions a rule asked for by name (its anchors), as opposed to functions reached by a whole-program sweep

    # ------------------------------------------------------------ anchors
    def fn(self, spec, rule="anchor"):
        f = self.ix.find_func(spec, rule)
        self.counters["functions"].add(f.qual)
        self.named.add(f.qual)
        return f

    def cls(self, spec, rule="anchor"):
        return self.ix.find_class(spec, rule)

    def cfg(self, fn):
        if fn.qual not in self._cfg:
            self._cfg[fn.qual] = CFG(fn.node, fn.qual)
            self.counters["cfg_nodes"] += len(self._cfg[fn.qual].nodes)
        self.counters["functions"].add(fn.qual)
        return self._cfg[fn.qual]

    def guards(self, fn, kinds=ALL_KINDS, kill=True):
        key = (fn.qual, kinds, kill)
        if key not in self._guards:
            sw = (lambda call, _fn=fn: self._self_call_writes(_fn, call))
            self._guards[key] = Guards(self.cfg(fn), fn.params + fn.kwonly, kinds, kill, self_writes=sw)
        return self._guards[key]

    # self-attribute write summaries (used to decide whether self.m() may change a guard)
    def self_writes(self, fn, _stack=()):
        """Attributes of `self` that fn (or anything it calls on self) may store to or mutate.
        '*' = unknown (unresolved self-call)."""
        if not hasattr(self, "_sw"):
            self._sw = {}
        if fn.qual in self._sw:
            return self._sw[fn.qual]
        if fn.qual in _stack:
            return set()
        MUT = {"append", "extend", "insert", "remove", "pop", "clear", "add", "discard", "update",
               "difference_update", "intersection_update", "setdefault", "popitem", "sort", "reverse"}
        out = set()
        me = fn.params[0] if fn.params and fn.kind in ("method", "property", "setter", "classmethod") else None
        if me is None:
            self._sw[fn.qual] = out
            return out
        for n in iter_own(fn.node):
            if isinstance(n, (ast.Attribute, ast.Subscript)) and isinstance(n.ctx, (ast.Store, ast.Del)):
                d = dotted(n.value if isinstance(n, ast.Subscript) else n)
                if d and d.split(".")[0] == me and "." in d:
                    out.add(d.split(".")[1])
            if isinstance(n, ast.Call) and isinstance(n.func, ast.Attribute):
                d = dotted(n.func.value)
                if d and d.split(".")[0] == me:
                    if "." in d and n.func.attr in MUT:
                        out.add(d.split(".")[1])
                    elif "." in d and not _pure_name(n.func.attr):
                        out.add(d.split(".")[1])  # self.x.m(): x's state may change
                    elif d == me:
                        site = self.cg.site_of(fn, n)
                        if site is None or not site.targets():
                            if not _pure_name(n.func.attr):
                                out.add("*")
                        else:
                            for q in site.targets():
                                f2 = self.ix.functions.get(q)
                                if f2 is not None:
                                    out |= self.self_writes(f2, _stack + (fn.qual,))
        self._sw[fn.qual] = out
        return out

    def _self_call_writes(self, fn, call):
        site = self.cg.site_of(fn, call)
        if site is None or not site.targets() or site.how == "cha":
            return None
        out = set()
        for q in site.targets():
            f2 = self.ix.functions.get(q)
            if f2 is None:
                return None
            out |= self.self_writes(f2)
        return out

    def rd(self, fn):
        return self.guards(fn).rd

    def dom(self, fn, kinds=ALL_KINDS):
        key = (fn.qual, kinds)
        if key not in self._dom:
            self._dom[key] = self.cfg(fn).dominators(kinds)
        return self._dom[key]

    def pdom(self, fn, kinds=NORMAL_KINDS, exits=None):
        cfg = self.cfg(fn)
        ex = tuple(sorted(e.id for e in (exits or [cfg.exit])))
        key = (fn.qual, kinds, ex)
        if key not in self._pdom:
            self._pdom[key] = cfg.postdominators(kinds, [cfg.nodes[i] for i in ex])
        return self._pdom[key]

    def parents(self, fn):
        if fn.qual not in self._parents:
            pm = {}
            for n in ast.walk(fn.node):
                for c in ast.iter_child_nodes(n):
                    pm[id(c)] = n
            self._parents[fn.qual] = pm
        return self._parents[fn.qual]

    def enclosing(self, fn, node, types):
        pm = self.parents(fn)
        cur = pm.get(id(node))
        out = []
        while cur is not None and cur is not fn.node:
            if isinstance(cur, types):
                out.append(cur)
            cur = pm.get(id(cur))
        return out

    def stmt_of(self, fn, node):
        pm = self.parents(fn)
        cur = node
        while cur is not None and not isinstance(cur, ast.stmt):
            cur = pm.get(id(cur))
        return cur

    def nodes_of(self, fn, astnode, reachable_kinds=ALL_KINDS):
        cfg = self.cfg(fn)
        reach = cfg.reachable(reachable_kinds)
        return [n for n in cfg.nodes_of(astnode) if n.id in reach]

    # --------------------------------------------------------- call queries
    def sites(self, fn, short=None, ext=None, name=None, pred=None):
        """Call sites inside fn resolved to `short` (function short name), an external dotted
        name, or a bare method/function name."""
        out = []
        for s in self.cg.sites_in(fn):
            ok = False
            if short is not None:
                shorts = [short] if isinstance(short, str) else short
                ok = any(s.calls_short(self.ix, x) for x in shorts)
            if ext is not None and s.external is not None:
                exts = [ext] if isinstance(ext, str) else ext
                ok = ok or any(s.external == e or s.external.endswith("." + e) for e in exts)
            if name is not None:
                f = s.node.func
                nm = f.attr if isinstance(f, ast.Attribute) else (f.id if isinstance(f, ast.Name) else None)
                names = [name] if isinstance(name, str) else name
                ok = ok or nm in names
            if pred is not None:
                ok = ok or pred(s)
            if ok:
                out.append(s)
        self.counters["call_sites"] += len(out)
        return out

    def one_site(self, fn, rule, **kw):
        ss = self.sites(fn, **kw)
        if len(ss) != 1:
            raise AnalysisError(rule, f"expected exactly one call {kw} in {fn.short}, found {len(ss)}")
        return ss[0]

    def some_sites(self, fn, rule, **kw):
        ss = self.sites(fn, **kw)
        if not ss:
            raise AnalysisError(rule, f"no call {kw} in {fn.short} (anchor vanished)")
        return ss

    def callers_of(self, fn):
        return self.cg.call_sites_of(fn.qual)

    def arg_for(self, site, callee, param):
        """Expression passed for `param` of `callee` at this call site (through a lock wrapper too)."""
        if site.via_wrapper and callee.qual in site.wrapped:
            args, kws = site.wrapped_args, site.wrapped_keywords
        else:
            args, kws = site.node.args, site.node.keywords
        for k in kws:
            if k.arg == param:
                return k.value
        params = callee.bound_params
        # unbound call C.method(obj, ...) / cls passed explicitly is not used in this tree
        if param in params:
            i = params.index(param)
            if i < len(args) and not any(isinstance(a, ast.Starred) for a in args[: i + 1]):
                return args[i]
        return callee.defaults.get(param)

    # --------------------------------------------------------------- effects
    def site_effects(self, s):
        if id(s) in self._site_eff:
            return self._site_eff[id(s)]
        eff = set()
        ix = self.ix
        for q in s.targets():
            f = ix.functions.get(q)
            if f is None:
                continue
            if f.cls is not None and any(c.name == "HpcManagerInterface" for c in ix.mro(f.cls)):
                if f.name == "submit":
                    eff.add("HANDOFF")
                if f.name == "cancel_job":
                    eff.add("SCANCEL")
                if f.name in ("check_statuses", "check_status"):
                    eff.add("SQUEUE")
            if f.short == "HpcStatusCollector.check_status":
                eff.add("POLL")
            if f.short in ("Cluster._serialize_file", "Cluster._serialize_config_version", "Cluster._serialize_job_status_version"):
                eff.add("STATE_WRITE")
            if f.short == "ResultsAggregator._process_results":
                eff.add("COLLECT")
            if f.short == "JobSubmitter.write_results_summary":
                eff.add("SUMMARY_WRITE")
            if f.short == "Cluster._mark_complete":
                eff.add("MARK_COMPLETE")
            if f.short == "Cluster._serialize":
                eff.add("SERIALIZE_CONFIG")
            if f.short == "Cluster._serialize_jobs":
                eff.add("SERIALIZE_JOBS")
            if f.short in LOCK_WRAPPERS:
                eff.add("ACQUIRE_RESULTS" if f.short.startswith("ResultsAggregator") else "ACQUIRE_CLUSTER")
            if f.short in ("Cluster._complete_hpc_job_id", "Cluster._update_job_status"):
                eff.add("HPC_IDS_WRITE")
        fn = s.fn
        ext = s.external or ""
        if fn.cls is not None and fn.cls.name == "AsyncCliCommand":
            if ext in ("subprocess.Popen", "subprocess.call", "subprocess.run", "subprocess.check_call", "subprocess.check_output", "os.system", "os.popen"):
                eff.add("LAUNCH")
        if fn.cls is not None and fn.cls.name == "ResultsAggregator":
            if ext == "open" and s.node.args and _is_self_attr(s.node.args[0], fn, "_filename"):
                mode = _const(s.node.args[1]) if len(s.node.args) > 1 else _kw_const(s.node, "mode")
                if mode is not None and any(c in mode for c in "aw+x"):
                    eff.add("RESULT_WRITE")
                    eff.add("RESULT_APPEND" if "a" in mode else "RESULT_TRUNCATE")
                elif mode is None and (len(s.node.args) > 1 or _has_kw(s.node, "mode")):
                    raise AnalysisError("effects", f"{s.loc}: open(self._filename, <non-literal mode>)")
            if ext in ("os.remove", "os.unlink") and s.node.args and _is_self_attr(s.node.args[0], fn, "_filename"):
                eff.add("RESULT_WRITE")
                eff.add("RESULT_DELETE")
            if ext == "os.truncate" and s.node.args and _is_self_attr(s.node.args[0], fn, "_filename"):
                eff.add("RESULT_WRITE")
                eff.add("RESULT_EMPTY")
            wx = getattr(s, "wrapped_external", None)
            if wx in ("os.remove", "os.unlink", "os.truncate") and s.wrapped_args and _is_self_attr(s.wrapped_args[0], fn, "_filename"):
                eff.add("RESULT_WRITE")
                eff.add("RESULT_DELETE" if wx != "os.truncate" else "RESULT_EMPTY")
                eff.add("OWN_HOLD")
            if isinstance(s.node.func, ast.Attribute) and s.node.func.attr in ("unlink", "write_text", "write_bytes", "rename", "replace") and _is_self_attr(s.node.func.value, fn, "_filename"):
                eff.add("RESULT_WRITE")
                if s.node.func.attr == "unlink":
                    eff.add("RESULT_DELETE")
            if isinstance(s.node.func, ast.Attribute) and s.node.func.attr == "truncate" and isinstance(s.node.func.value, ast.Name):
                pass  # f.truncate() on an open handle: covered by the open() mode
        self._site_eff[id(s)] = eff
        return eff

    def direct_effects(self, fn):
        out = set()
        for s in self.cg.sites_in(fn):
            out |= self.site_effects(s)
        return out

    def may(self, fn):
        """Transitive may-effect summary (over resolved + CHA + lock-wrapped edges)."""
        if self._may is None:
            direct = {q: self.direct_effects(f) for q, f in self.ix.functions.items()}
            self._may = self.cg.transitive(direct)
        return self._may.get(fn.qual, set())

    def site_may(self, s):
        out = set(self.site_effects(s))
        for q in s.targets():
            f = self.ix.functions.get(q)
            if f is not None:
                out |= self.may(f)
        return out

    def site_must(self, s, effect, _stack=()):
        """The call certainly performs `effect` when it completes normally."""
        if effect in self.site_effects(s):
            return True
        tg = [self.ix.functions.get(q) for q in s.targets()]
        tg = [f for f in tg if f is not None and f.short not in LOCK_WRAPPERS]
        if s.via_wrapper:
            tg = [self.ix.functions.get(q) for q in s.wrapped]
        if not tg:
            return False
        return all(self.must(f, effect, _stack) for f in tg)

    def must(self, fn, effect, _stack=()):
        """Every normally-completing path of fn performs `effect` (a `flag=True; while flag:`
        loop is a do-while: handled because the first test edge is a real path)."""
        key = (fn.qual, effect)
        if key in self._must:
            return self._must[key]
        if key in _stack:
            return False
        if effect not in self.may(fn):
            self._must[key] = False
            return False
        cfg = self.cfg(fn)
        stack2 = _stack + (key,)
        blocking = set()
        for s in self.cg.sites_in(fn):
            if effect in self.site_may(s) and self.site_must(s, effect, stack2):
                for n in cfg.nodes_of(s.node):
                    blocking.add(n.id)
        res = False
        if blocking:
            reach = self._reach_avoiding(cfg, blocking, NORMAL_KINDS)
            res = cfg.exit.id not in reach
        self._must[key] = res
        return res

    def _reach_avoiding(self, cfg, blocked, kinds, start=None):
        """Nodes reachable from entry without passing *through* a blocked node.

        Branches on a plain local flag are interpreted: an edge `v is truthy/falsy` is taken
        only if some definition of v that reaches the test *in the pruned graph* has an unknown
        value or a constant of that truthiness. This makes `need = True; while need: need =
        False; <blocked>` a do-while (the loop cannot be skipped, and cannot be left without
        passing the blocked node)."""
        start = start or cfg.entry
        from .cfg import node_defs

        defs = {n.id: node_defs(cfg, n) for n in cfg.nodes}
        justified = set()  # (test node id, edge kind) known feasible

        def flag_test(n):
            return n.kind == "test" and isinstance(n.ast, ast.Name)

        def feasible(n, k, seen):
            if not flag_test(n) or k not in ("T", "F"):
                return True
            if (n.id, k) in justified:
                return True
            v = n.ast.id
            # backwards search from the test for definitions of v, inside `seen`, not through blocked
            stack, vis = [n], {n.id}
            while stack:
                cur = stack.pop()
                for p, pk, _ in cur.pred:
                    if pk not in kinds or p.id not in seen or p.id in blocked or p.id in vis:
                        continue
                    if flag_test(p) and not ((p.id, pk) in justified):
                        # an unjustified flag edge is not (yet) a path
                        if isinstance(p.ast, ast.Name):
                            continue
                    vis.add(p.id)
                    if v in defs[p.id]:
                        val = defs[p.id][v]
                        if isinstance(val, ast.Constant):
                            if bool(val.value) == (k == "T"):
                                justified.add((n.id, k))
                                return True
                            continue  # constant of the other truthiness: this def cannot take the edge
                        justified.add((n.id, k))
                        return True
                    if p is cfg.entry:
                        justified.add((n.id, k))
                        return True
                    stack.append(p)
            return False

        seen = {start.id}
        changed = True
        while changed:
            changed = False
            stack = [cfg.nodes[i] for i in seen]
            while stack:
                n = stack.pop()
                if n.id in blocked:
                    continue
                for d, k, c in n.succ:
                    if k not in kinds:
                        continue
                    if d.id in seen:
                        continue
                    if not feasible(n, k, seen):
                        continue
                    seen.add(d.id)
                    stack.append(d)
                    changed = True
        return seen

    def nodes_with_effect(self, fn, effect, must=False):
        """CFG nodes of fn containing a call that may (or must) perform the effect."""
        cfg = self.cfg(fn)
        out = []
        for s in self.cg.sites_in(fn):
            ok = self.site_must(s, effect) if must else effect in self.site_may(s)
            if ok:
                out.extend(cfg.nodes_of(s.node))
        return out

    # ---------------------------------------------------------- lock context
    def lock_of_wrapper(self, short):
        return "results" if short.startswith("ResultsAggregator") else "cluster"

    def locked_only(self):
        """func qual -> set of locks the function is *always* called under (T7).

        F is locked-only for lock L iff it has at least one call site and every call site
        either passes F as the `func` of an L wrapper or lies in a function that is
        locked-only for L (or is itself one of the wrappers' bodies calling func)."""
        if self._locked is not None:
            return self._locked
        if self.cg.unresolved_wrappers:
            raise AnalysisError("lock context", "; ".join(self.cg.unresolved_wrappers))
        fns = self.ix.functions
        locked = {}
        for lock in ("cluster", "results"):
            cand = {q for q in fns if self.cg.call_sites_of(q)}
            changed = True
            while changed:
                changed = False
                for q in list(cand):
                    for s in self.cg.call_sites_of(q):
                        if s.via_wrapper and q in s.wrapped:
                            if self.lock_of_wrapper(s.via_wrapper) == lock:
                                continue
                        elif q in s.callees and s.fn.qual in cand:
                            continue
                        cand.discard(q)
                        changed = True
                        break
            for q in cand:
                locked.setdefault(q, set()).add(lock)
        self._locked = locked
        return locked

    def is_locked_only(self, fn, lock):
        return lock in self.locked_only().get(fn.qual, set())

    # ------------------------------------------------------------ utilities
    def loc(self, fn, node):
        return fn.loc(node)

    def src(self, node):
        return unparse(node)


def _pure_name(name):
    from .guards import PURE_METHODS, PURE_PREFIXES

    return name in PURE_METHODS or name.startswith(PURE_PREFIXES)


def _is_self_attr(e, fn, attr):
    return (
        isinstance(e, ast.Attribute)
        and e.attr == attr
        and isinstance(e.value, ast.Name)
        and fn.params
        and e.value.id == fn.params[0]
    )


def _const(e):
    return e.value if isinstance(e, ast.Constant) else None


def _kw_const(call, name):
    for k in call.keywords:
        if k.arg == name:
            return _const(k.value)
    return None


def _has_kw(call, name):
    return any(k.arg == name for k in call.keywords)

"""./check <Cxx> [--tier quick|thorough]   |   ./check replay <file>   |   ./check all"""

import argparse
import importlib
import json
import os
import sys
import time

from . import AnalysisError
from .report import (
    RULES,
    is_known,
    load_known,
    run_rule,
    write_evidence,
    write_replay,
)

PROPS = [f"C{i:02d}" for i in range(1, 21)]


def load_rules(prop):
    try:
        importlib.import_module(f"jcheck.props.{prop.lower()}")
    except ModuleNotFoundError as exc:
        if exc.name == f"jcheck.props.{prop.lower()}":
            return False
        raise
    from .props.w8 import register as register_w8

    register_w8(prop)
    from .props.generic import register

    register(prop)
    return True


def check_property(prop, tier, seed, only_rule=None, overlay=None, quiet=False, write=True):
    """Returns (exit code, outcomes)."""
    from .ctx import Ctx

    start = time.time()
    out = (lambda *a, **k: None) if quiet else print
    if not load_rules(prop) or prop not in RULES:
        out(f"ANALYSIS-ERROR property={prop} rule=- reason=no rules implemented for this property")
        return 2, []
    try:
        ctx = Ctx(overlay=overlay)
    except AnalysisError as exc:
        out(f"ANALYSIS-ERROR property={prop} rule={exc.rule} reason={exc.reason}")
        return 2, []
    generic = only_rule is not None and only_rule.endswith(".G1")  # its scope is what the other rules analysed: run them, report it
    rules = [r for r in RULES[prop] if (only_rule is None or generic or r.id == only_rule) and (tier == "thorough" or r.tier == "quick")]
    outcomes = [run_rule(rd, ctx) for rd in rules]
    if generic:
        outcomes = [o for o in outcomes if o.rd.id == only_rule]
    extra = {}
    if tier == "thorough" and overlay is None and only_rule is None:
        from .thorough import run_thorough

        more, extra = run_thorough(prop, ctx, seed)
        outcomes.extend(more)
    known, _fixed = load_known()
    n_viol, n_unknown, n_known = 0, 0, 0
    lines = []
    seen_known = set()
    for o in outcomes:
        if o.verdict == "UNKNOWN":
            n_unknown += 1
            lines.append(f"ANALYSIS-ERROR property={prop} rule={o.rd.id} reason={o.error}")
        for f in o.findings:
            k = is_known(known, prop, f)
            if k is not None:
                n_known += 1
                seen_known.add((k.get("rule"), k.get("key")))
                lines.append(f"KNOWN-FINDING: property={prop} rule={f['rule']} {f['key']} at {f['at']}: {f['message']}")
                continue
            n_viol += 1
            path = write_replay(prop, f, n_viol) if write else "-"
            lines.append(f"  rule {f['rule']} [{o.rd.template}] {f['at']}: {f['message']}")
            lines.append(f"    construct: {f['key']}")
            lines.append(f"    clause   : {f['clause']}")
            lines.append(f"VIOLATION property={prop} replay={path}")
    wall = time.time() - start
    if write:
        write_evidence(prop, tier, seed, outcomes, ctx, wall, extra=extra, violations=n_viol)
    proved = sum(1 for o in outcomes if o.verdict == "PROVED")
    nobl = sum(len(o.obligations) for o in outcomes)
    out(
        f"[{prop}] tier={tier} rules={len(outcomes)} proved={proved} violations={n_viol} known={n_known} "
        f"unknown={n_unknown} instances={nobl} functions={len(ctx.counters['functions'])} wall={wall:.2f}s"
    )
    for o in outcomes:
        out(f"  {o.rd.id:8s} {o.rd.template:8s} {o.verdict:9s} {len(o.obligations):3d}  {o.rd.title}")
        for nmsg in o.notes:
            out(f"           NOTE {nmsg}")
    for ln in lines:
        out(ln)
    if n_viol:
        return 1, outcomes
    if n_unknown:
        return 2, outcomes
    return 0, outcomes


def replay(path):
    with open(path) as f:
        data = json.load(f)
    prop, rid, key = data["property"], data["rule"], data["key"]
    code, outcomes = check_property(prop, "thorough" if rid.endswith(".paths") else "quick", 0, only_rule=rid, write=False)
    still = [f for o in outcomes for f in o.findings if f["key"] == key]
    if still:
        print(f"replay: {rid} still violated by construct {key} at {still[0]['at']}")
        print(f"VIOLATION property={prop} replay={path}")
        return 1
    if code == 2:
        return 2
    print(f"replay: {rid} no longer violated by construct {key}")
    return 0


def main(argv=None):
    ap = argparse.ArgumentParser(prog="check")
    ap.add_argument("what")
    ap.add_argument("path", nargs="?")
    ap.add_argument("--tier", default=os.environ.get("VERIF_TIER", "quick"), choices=["quick", "thorough"])
    ap.add_argument("--rule", default=None)
    args = ap.parse_args(argv)
    seed = int(os.environ.get("VERIF_SEED", "0") or 0)
    try:
        if args.what == "replay":
            return replay(args.path)
        if args.what == "all":
            worst = 0
            for p in PROPS:
                code, _ = check_property(p, args.tier, seed)
                worst = max(worst, code) if worst != 1 else 1
                if code == 1:
                    worst = 1
            return worst
        if args.what == "selftest":
            from .selftest import main as st_main

            return st_main(args.path)
        code, _ = check_property(args.what.upper(), args.tier, seed, only_rule=args.rule)
        return code
    except AnalysisError as exc:
        print(f"ANALYSIS-ERROR property={args.what} rule={exc.rule} reason={exc.reason}")
        return 2
    except Exception as exc:  # never let a traceback look like a violation (exit 1)
        import traceback

        traceback.print_exc()
        print(f"ANALYSIS-ERROR property={args.what} rule=- reason=internal error {type(exc).__name__}: {exc}")
        return 2


if __name__ == "__main__":
    sys.exit(main())

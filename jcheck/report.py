"""Rule registry, verdict collection, known-findings file, evidence and replay files."""

import json
import os
import time
import traceback

from . import AnalysisError

VERIF = os.path.dirname(os.path.dirname(os.path.abspath(__file__)))
EVIDENCE_DIR = os.path.join(VERIF, "evidence")
REPLAY_DIR = os.path.join(EVIDENCE_DIR, "replay")
KNOWN_FILE = os.path.join(VERIF, "KNOWN_FINDINGS.txt")

RULES = {}  # property id -> list of RuleDef
PROPERTY_INFO = {}  # property id -> dict(explanation=..., assumptions=[...], not_decided=...)


class RuleDef:
    def __init__(self, prop, rid, template, title, func, min_obligations, tier):
        self.prop = prop
        self.id = rid
        self.template = template
        self.title = title
        self.func = func
        self.min_obligations = min_obligations
        self.tier = tier


def rule(prop, rid, template, title, min_obligations=1, tier="quick"):
    def deco(func):
        RULES.setdefault(prop, []).append(RuleDef(prop, rid, template, title, func, min_obligations, tier))
        return func

    return deco


def describe(prop, explanation, assumptions, not_decided):
    PROPERTY_INFO[prop] = {
        "explanation": explanation,
        "assumptions": assumptions,
        "not_decided": not_decided,
    }


class R:
    """Collector handed to a rule function."""

    def __init__(self, rd):
        self.rd = rd
        self.obligations = []
        self.findings = []
        self.notes = []

    def ok(self, desc, **detail):
        self.obligations.append({"obligation": desc, "status": "discharged", **detail})

    def bad(self, key, loc, msg, clause=None, **detail):
        """A recognised breach. `key` identifies the construct (never a line number)."""
        self.obligations.append({"obligation": msg, "status": "VIOLATED", "construct": key, "at": loc, **detail})
        self.findings.append({"rule": self.rd.id, "key": key, "at": loc, "message": msg, "clause": clause or self.rd.title})

    def check(self, cond, desc, key, loc, msg, clause=None, **detail):
        if cond:
            self.ok(desc, **detail)
        else:
            self.bad(key, loc, msg, clause, **detail)
        return cond

    def note(self, msg):
        self.notes.append(msg)


class RuleOutcome:
    def __init__(self, rd):
        self.rd = rd
        self.verdict = "PROVED"
        self.obligations = []
        self.findings = []
        self.notes = []
        self.error = None


def run_rule(rd, ctx):
    out = RuleOutcome(rd)
    r = R(rd)
    try:
        rd.func(ctx, r)
        if len(r.obligations) < rd.min_obligations and not r.findings:
            raise AnalysisError(
                rd.id,
                f"matched {len(r.obligations)} rule instances, fewer than the {rd.min_obligations} confirmed by hand "
                "(a rule must not pass vacuously)",
            )
    except AnalysisError as exc:
        out.error = f"{exc.rule}: {exc.reason}" if exc.rule != rd.id else exc.reason
        if r.findings:
            # breaches recognised before the analysis lost track are still breaches
            r.notes.append("analysis stopped early: " + out.error)
            out.error = None
        else:
            out.verdict = "UNKNOWN"
    except RecursionError:
        out.verdict = "UNKNOWN"
        out.error = "recursion limit in analysis"
    except Exception as exc:  # a crash of the checker is an analysis error, never a violation
        out.verdict = "UNKNOWN"
        out.error = f"internal error {type(exc).__name__}: {exc} @ {traceback.format_exc().strip().splitlines()[-3:]}"
    out.obligations = r.obligations
    out.findings = r.findings
    out.notes = r.notes
    if out.findings and out.verdict != "UNKNOWN":
        out.verdict = "VIOLATION"
    return out


# ------------------------------------------------------------ known findings
def load_known():
    known, fixed = [], []
    if not os.path.exists(KNOWN_FILE):
        return known, fixed
    with open(KNOWN_FILE) as f:
        for line in f:
            line = line.strip()
            if not line or line.startswith("#"):
                continue
            if line.startswith("known:"):
                parts = dict(p.split("=", 1) for p in line[6:].split("::")[0].split() if "=" in p)
                parts["text"] = line.split("::", 1)[1].strip() if "::" in line else ""
                known.append(parts)
            elif line.startswith("fixed:"):
                fixed.append(line)
    return known, fixed


def is_known(known, prop, finding):
    for k in known:
        if k.get("property") == prop and k.get("rule") == finding["rule"] and k.get("key") == finding["key"]:
            return k
    return None


# ------------------------------------------------------------------ evidence
def write_evidence(prop, tier, seed, outcomes, ctx, wall, extra=None, violations=0):
    os.makedirs(EVIDENCE_DIR, exist_ok=True)
    info = PROPERTY_INFO.get(prop, {})
    obligations = sum(len(o.obligations) for o in outcomes)
    discharged = sum(1 for o in outcomes for ob in o.obligations if ob["status"] == "discharged")
    distinct = len({json.dumps(ob, sort_keys=True, default=str) for o in outcomes for ob in o.obligations if ob["status"] == "discharged" and len(ob) > 2})
    samples = []
    for o in outcomes:
        for ob in o.obligations[:3]:
            samples.append({"rule": o.rd.id, "template": o.rd.template, **ob})
    cov = {
        "explanation": info.get("explanation", ""),
        "technique": "static analysis of /repo's current source (ast, CFG with exception edges, guard/dominance, typed call graph, lock context, typestate, value flow); jade is never imported or run",
        "not_decided": info.get("not_decided", ""),
        "rules": [
            {
                "rule": o.rd.id,
                "template": o.rd.template,
                "title": o.rd.title,
                "verdict": o.verdict,
                "instances": len(o.obligations),
                "min_instances_confirmed_by_hand": o.rd.min_obligations,
                **({"error": o.error} if o.error else {}),
                **({"notes": o.notes} if o.notes else {}),
            }
            for o in outcomes
        ],
        "obligations": obligations,
        "discharged": discharged,
        "evaluations": obligations,
        "distinct_nontrivial": distinct,
        "rule": "one evaluation = one rule instance (anchor site x obligation) decided on all paths of the anchor; "
        "non-trivial = the verdict rested on at least one matched construct recorded with the instance; distinct = distinct recorded instances",
        "samples": samples[:40],
        "functions_analysed": len(ctx.counters["functions"]) if ctx else 0,
        "functions_indexed": len(ctx.ix.functions) if ctx else 0,
        "modules_parsed": len(ctx.ix.modules) if ctx else 0,
        "cfg_nodes": ctx.counters["cfg_nodes"] if ctx else 0,
        "call_sites_matched": ctx.counters["call_sites"] if ctx else 0,
        "paths_enumerated": ctx.counters["paths"] if ctx else 0,
        "call_resolution": dict(ctx.cg.stats) if ctx else {},
        "checker_cmd": f"./check {prop} --tier {tier}",
        "trusted_base": [
            "CPython ast parser",
            "frozen receiver-type / effect tables of jcheck (each row re-validated against the tree on every run)",
        ],
        "exhaustive": False,
    }
    if extra:
        cov.update(extra)
    ev = {
        "property_id": prop,
        "tier": tier,
        "seed": seed,
        "level": "other",
        "coverage": cov,
        "assumptions": info.get("assumptions", []),
        "wall_s": round(wall, 3),
        "violations": violations,
    }
    path = os.path.join(EVIDENCE_DIR, f"{prop}.json")
    tmp = path + ".tmp"
    with open(tmp, "w") as f:
        json.dump(ev, f, indent=1, default=str)
        f.write("\n")
    os.replace(tmp, path)
    return path


def write_replay(prop, finding, n):
    os.makedirs(REPLAY_DIR, exist_ok=True)
    safe = finding["rule"].replace("/", "_")
    path = os.path.join(REPLAY_DIR, f"{prop}-{safe}-{n}.json")
    with open(path, "w") as f:
        json.dump({"property": prop, **finding, "written": time.strftime("%Y-%m-%dT%H:%M:%S")}, f, indent=1)
        f.write("\n")
    return path

"""Rule-template helpers (DESIGN section 5): normal forms, T1 guards, T2 ordering,
T4 region coverage, T5 typestate, T6 ownership, T12 attribute resolution, T13 returns."""

import ast

from . import AnalysisError
from .cfg import ALL_KINDS, NORMAL_KINDS, iter_own
from .guards import canon, unparse
from .index import dotted


# --------------------------------------------------------------- normal forms
def _single_return(fn):
    """`return X` body (after an optional docstring) -> X, else None."""
    body = list(fn.node.body)
    if body and isinstance(body[0], ast.Expr) and isinstance(body[0].value, ast.Constant) and isinstance(body[0].value.value, str):
        body = body[1:]
    if len(body) == 1 and isinstance(body[0], ast.Return) and body[0].value is not None:
        return body[0].value
    return None


def _plain_self_attr(m, rx):
    """`return self._x`: a plain accessor keeps its public name in normal forms."""
    return isinstance(rx, ast.Attribute) and isinstance(rx.value, ast.Name) and m.params and rx.value.id == m.params[0]


def render(ctx, fn, e, depth=2):
    """Typed rendering: attribute loads on typed receivers become <Class.attr>; one-line
    predicate methods and properties are inlined (depth-limited)."""
    ty, ix = ctx.ty, ctx.ix
    if isinstance(e, ast.Attribute):
        base_t = ty.expr_type(fn, e.value)
        if base_t and base_t[0] == "union":
            # pick the first member class that defines the attribute
            for m in base_t[1]:
                if m and m[0] == "cls" and m[1] in ix.classes and e.attr in ix.class_members(ix.classes[m[1]]):
                    base_t = m
                    break
        if base_t and base_t[0] == "cls":
            c = ix.classes.get(base_t[1])
            if c is not None:
                for cc in ix.mro(c):
                    if e.attr in cc.methods and cc.methods[e.attr].kind == "property":
                        m = cc.methods[e.attr]
                        rx = _single_return(m)
                        overridden = any(e.attr in s.methods for s in ix.subclasses(c, strict=True))
                        if rx is not None and depth > 0 and not overridden and not _plain_self_attr(m, rx):
                            return render(ctx, m, rx, depth - 1)
                        return f"<{cc.name}.{e.attr}>"
                    if e.attr in cc.ann_fields or e.attr in cc.class_vars:
                        return f"<{cc.name}.{e.attr}>"
                    if e.attr in cc.methods:
                        return f"<{cc.name}.{e.attr}>"
                return f"<{c.name}.{e.attr}>"
        return f"{render(ctx, fn, e.value, depth)}.{e.attr}"
    if isinstance(e, ast.Call):
        site = ctx.cg.site_of(fn, e)
        if site is not None and len(site.callees) == 1 and not site.via_wrapper:
            callee = ix.functions.get(site.callees[0])
            if callee is not None and not e.args and not e.keywords and depth > 0:
                rx = _single_return(callee)
                if rx is not None:
                    return render(ctx, callee, rx, depth - 1)
        if site is not None and site.callees:
            names = sorted({ix.functions[q].short for q in site.callees if q in ix.functions})
            args = ",".join(render(ctx, fn, a, depth) for a in e.args)
            recv = ""
            if isinstance(e.func, ast.Attribute):
                recv = render(ctx, fn, e.func.value, depth) + "."
            head = names[0] if len(names) == 1 else _common_iface(ctx, site)
            return f"call:{head}({args})@{recv[:-1]}"
        fname = render(ctx, fn, e.func, depth) if not isinstance(e.func, ast.Name) else e.func.id
        args = ",".join([render(ctx, fn, a, depth) for a in e.args] + [f"{k.arg}={render(ctx, fn, k.value, depth)}" for k in e.keywords])
        return f"{fname}({args})"
    if isinstance(e, ast.Name):
        return e.id
    if isinstance(e, ast.Constant):
        return repr(e.value)
    if isinstance(e, ast.UnaryOp) and isinstance(e.op, ast.Not):
        return f"not {render(ctx, fn, e.operand, depth)}"
    if isinstance(e, ast.Compare) and len(e.ops) == 1:
        ops = {ast.Eq: "==", ast.NotEq: "!=", ast.Lt: "<", ast.LtE: "<=", ast.Gt: ">", ast.GtE: ">=", ast.Is: "is", ast.IsNot: "is not", ast.In: "in", ast.NotIn: "not in"}
        return f"{render(ctx, fn, e.left, depth)} {ops[type(e.ops[0])]} {render(ctx, fn, e.comparators[0], depth)}"
    if isinstance(e, ast.BoolOp):
        op = " and " if isinstance(e.op, ast.And) else " or "
        return "(" + op.join(render(ctx, fn, v, depth) for v in e.values) + ")"
    if isinstance(e, ast.BinOp):
        ops = {ast.Add: "+", ast.Sub: "-", ast.Mult: "*", ast.Div: "/", ast.FloorDiv: "//", ast.Mod: "%"}
        return f"({render(ctx, fn, e.left, depth)} {ops.get(type(e.op), '?')} {render(ctx, fn, e.right, depth)})"
    if isinstance(e, ast.Subscript):
        return f"{render(ctx, fn, e.value, depth)}[{render(ctx, fn, e.slice, depth)}]"
    if isinstance(e, ast.JoinedStr):
        parts = []
        for v in e.values:
            if isinstance(v, ast.Constant):
                parts.append(str(v.value))
            elif isinstance(v, ast.FormattedValue):
                parts.append("{" + render(ctx, fn, v.value, depth) + "}")
        return "f'" + "".join(parts) + "'"
    if isinstance(e, ast.IfExp):
        return f"({render(ctx, fn, e.body, depth)} if {render(ctx, fn, e.test, depth)} else {render(ctx, fn, e.orelse, depth)})"
    if isinstance(e, (ast.Tuple, ast.List, ast.Set)):
        return "[" + ",".join(render(ctx, fn, x, depth) for x in e.elts) + "]"
    return unparse(e)


def _common_iface(ctx, site):
    ix = ctx.ix
    fs = [ix.functions[q] for q in site.callees if q in ix.functions]
    # the first callee is the statically found method (interface); overrides follow
    return fs[0].short if fs else "?"


def norm(ctx, fn, expr, at_node=None, depth=2, pol=True):
    """(normal-form string, polarity) of a condition, after alias expansion, predicate
    inlining and canonicalisation."""
    g = ctx.guards(fn)
    e = expr
    # peel nots before expanding aliases
    while isinstance(e, ast.UnaryOp) and isinstance(e.op, ast.Not):
        e, pol = e.operand, not pol
    if at_node is not None:
        e = _expand_deep(g, e, at_node)
    inl = _inline_pred(ctx, fn, e, depth)
    if inl is not None:
        f2, e2 = inl
        return norm(ctx, f2, e2, None, depth - 1, pol)
    key, pol2, e3 = canon(e, pol)
    if e3 is not e and not isinstance(e3, ast.Compare):
        # canon unwrapped len()/bool(): normalise the inner expression again
        return norm(ctx, fn, e3, at_node, depth, pol2)
    return render(ctx, fn, e3, depth), pol2


def _expand_deep(g, e, at_node):
    return g.expand_deep(e, at_node)


def _inline_pred(ctx, fn, e, depth):
    if depth <= 0:
        return None
    if isinstance(e, ast.Call) and not e.args and not e.keywords:
        site = ctx.cg.site_of(fn, e)
        if site is not None and len(site.callees) == 1 and not site.via_wrapper:
            callee = ctx.ix.functions.get(site.callees[0])
            if callee is not None:
                rx = _single_return(callee)
                if rx is not None:
                    return callee, rx
    if isinstance(e, ast.Attribute):
        t = ctx.ty.expr_type(fn, e.value)
        if t and t[0] == "cls":
            c = ctx.ix.classes.get(t[1])
            m = ctx.ix.lookup_method(c, e.attr) if c else None
            if m is not None and m.kind == "property":
                if not any(e.attr in s.methods for s in ctx.ix.subclasses(c, strict=True)):
                    rx = _single_return(m)
                    if rx is not None and not _plain_self_attr(m, rx):
                        return m, rx
    return None


def swap_eq(form):
    """`A == B` -> `B == A` (also `is`), when the operator occurs once at bracket depth 0; else None."""
    for op in (" == ", " is "):
        depth, hits = 0, []
        for i, ch in enumerate(form):
            if ch in "([{":
                depth += 1
            elif ch in ")]}":
                depth -= 1
            elif depth == 0 and form.startswith(op, i):
                hits.append(i)
        if len(hits) == 1 and not (op == " is " and form[hits[0] + 4:].startswith("None")):
            i = hits[0]
            return form[i + len(op):] + op + form[:i]
    return None


def both_orders(forms):
    out = set(forms)
    for f, p in forms:
        sw = swap_eq(f)
        if sw:
            out.add((sw, p))
    return out


def guard_forms(ctx, fn, cfg_node, kinds=ALL_KINDS, kill=True):
    """Normal forms of all guards at a CFG node: set of (form, polarity)."""
    g = ctx.guards(fn, kinds, kill)
    out = set()
    for key, pol, e in g.at(cfg_node):
        # find a test node carrying this condition to expand aliases at the right place
        tnode = g.origin[key][0] if key in g.origin else _test_node_for(ctx, fn, e)
        try:
            form, p = norm(ctx, fn, e, tnode, pol=pol)
        except RecursionError:
            form, p = key, pol
        out.add((form, p))
        out.add((key, pol))
    return both_orders(out)


def _test_node_for(ctx, fn, expr):
    ns = ctx.cfg(fn).nodes_of(expr)
    return ns[0] if ns else None


def requires(ctx, fn, astnode, accept, kinds=ALL_KINDS, kill=True):
    """T1: at every reachable CFG node evaluating `astnode`, some guard form satisfies
    accept(form, pol). Returns (ok, [guard descriptions per node])."""
    nodes = ctx.nodes_of(fn, astnode, kinds)
    if not nodes:
        raise AnalysisError("T1", f"site at {fn.loc(astnode)} is unreachable or not a CFG node")
    descs, ok = [], True
    for n in nodes:
        forms = guard_forms(ctx, fn, n, kinds, kill)
        descs.append(sorted(("" if p else "not ") + f for f, p in forms))
        if not any(accept(f, p) for f, p in forms):
            ok = False
    return ok, descs


# ------------------------------------------------------------------ ordering
def dominated_by(ctx, fn, b_node, a_nodes, kinds=ALL_KINDS):
    """T2 BEFORE(A,B): every path (over `kinds`) from entry to b_node passes some node of A."""
    cfg = ctx.cfg(fn)
    blocked = {n.id for n in a_nodes}
    if b_node.id in blocked:
        return True
    seen = {cfg.entry.id}
    stack = [cfg.entry]
    while stack:
        n = stack.pop()
        if n.id in blocked:
            continue
        for d, k, _ in n.succ:
            if k in kinds and d.id not in seen:
                seen.add(d.id)
                stack.append(d)
    return b_node.id not in seen


def always_followed_by(ctx, fn, a_node, b_nodes, kinds=NORMAL_KINDS, exits=None):
    """T2 AFTER(A,B): every path (over `kinds`) from a_node to an exit passes some node of B."""
    cfg = ctx.cfg(fn)
    exits = exits if exits is not None else [cfg.exit]
    exit_ids = {e.id for e in exits}
    blocked = {n.id for n in b_nodes}
    seen = set()
    stack = [d for d, k, _ in a_node.succ if k in kinds]
    while stack:
        n = stack.pop()
        if n.id in seen:
            continue
        seen.add(n.id)
        if n.id in blocked:
            continue
        if n.id in exit_ids:
            return False
        stack.extend(d for d, k, _ in n.succ if k in kinds)
    return True


def reachable_from(ctx, fn, a_node, kinds=ALL_KINDS, avoid=()):
    blocked = {n.id for n in avoid}
    seen = set()
    stack = [d for d, k, _ in a_node.succ if k in kinds]
    while stack:
        n = stack.pop()
        if n.id in seen or n.id in blocked:
            continue
        seen.add(n.id)
        stack.extend(d for d, k, _ in n.succ if k in kinds)
    return seen


# ----------------------------------------------------------------- typestate
def typestate(cfg, init, node_fn, edge_fn=None, kinds=ALL_KINDS):
    """T5: forward exploration of (node, state). node_fn(node, state) -> state after the node
    (or raises/returns a special value); edge_fn(src, dst, kind, cond, state) -> state or None
    (None = edge infeasible in that state). Returns dict node id -> set of states on entry."""
    at = {}
    stack = [(cfg.entry, init)]
    while stack:
        n, st = stack.pop()
        if st in at.setdefault(n.id, set()):
            continue
        at[n.id].add(st)
        out = node_fn(n, st)
        for d, k, c in n.succ:
            if k not in kinds:
                continue
            # an exception edge leaves the node *before* its effect is certain: propagate both
            states = {out} if k != "exc" else {st, out}
            for s2 in states:
                s3 = edge_fn(n, d, k, c, s2) if edge_fn else s2
                if s3 is not None:
                    stack.append((d, s3))
    return at


# ------------------------------------------------------------------ lexical
def in_try_with_finally(ctx, fn, node, finally_pred, body_only=True):
    """T4 helper: `node` lies lexically in the *body* (or handlers/else) of a try whose
    finally block contains a statement satisfying finally_pred(stmt)."""
    pm = ctx.parents(fn)
    cur, child = pm.get(id(node)), node
    while cur is not None and cur is not fn.node:
        if isinstance(cur, ast.Try) and cur.finalbody:
            in_final = any(child is s for s in cur.finalbody)
            if not in_final and any(finally_pred(s) for f in cur.finalbody for s in ast.walk(f)):
                return True
        child, cur = cur, pm.get(id(cur))
    return False


def stmts_after(ctx, fn, stmt):
    """All statements lexically following `stmt` up to the function end (same block and
    enclosing blocks), in source order."""
    pm = ctx.parents(fn)
    out = []
    cur = stmt
    while cur is not None and cur is not fn.node:
        parent = pm.get(id(cur))
        if parent is None:
            break
        for field in ("body", "orelse", "finalbody", "handlers"):
            seq = getattr(parent, field, None)
            if isinstance(seq, list) and any(x is cur for x in seq):
                idx = [i for i, x in enumerate(seq) if x is cur][0]
                out.extend(seq[idx + 1:])
        cur = parent
    return out


# ----------------------------------------------------------------- ownership
def attr_stores(ctx, attr_names, mutators=True):
    """T6: all stores / augmented stores / mutating method calls on `.attr` for attr in
    attr_names, across the package. Yields (fn, node, attr, receiver type term, kind)."""
    MUT = {"append", "extend", "insert", "remove", "pop", "clear", "add", "discard", "update",
           "difference_update", "intersection_update", "setdefault", "popitem", "sort", "reverse"}
    for fn in ctx.ix.all_functions():
        for n in iter_own(fn.node):
            if isinstance(n, ast.Attribute) and n.attr in attr_names:
                if isinstance(n.ctx, (ast.Store, ast.Del)):
                    yield fn, n, n.attr, ctx.ty.expr_type(fn, n.value), "store"
            if mutators and isinstance(n, ast.Call) and isinstance(n.func, ast.Attribute) and n.func.attr in MUT:
                tgt = n.func.value
                if isinstance(tgt, ast.Attribute) and tgt.attr in attr_names:
                    yield fn, n, tgt.attr, ctx.ty.expr_type(fn, tgt.value), "mutate:" + n.func.attr
            if isinstance(n, ast.Subscript) and isinstance(n.ctx, (ast.Store, ast.Del)):
                tgt = n.value
                if isinstance(tgt, ast.Attribute) and tgt.attr in attr_names:
                    yield fn, n, tgt.attr, ctx.ty.expr_type(fn, tgt.value), "setitem"
            if isinstance(n, ast.Call) and isinstance(n.func, ast.Name) and n.func.id == "setattr" and len(n.args) >= 2:
                a1 = n.args[1]
                if isinstance(a1, ast.Constant) and a1.value in attr_names:
                    yield fn, n, a1.value, ctx.ty.expr_type(fn, n.args[0]), "setattr"


def type_is(ctx, t, cls_name):
    if t and t[0] == "cls":
        c = ctx.ix.classes.get(t[1])
        return c is not None and any(x.name == cls_name for x in ctx.ix.mro(c))
    return False


def type_name(ctx, t):
    if t and t[0] in ("cls", "type"):
        c = ctx.ix.classes.get(t[1])
        return c.name if c else t[1]
    if t:
        return str(t[1]) if len(t) > 1 else t[0]
    return None


# ------------------------------------------------------------- T13 returns
def return_conditions(ctx, fn, max_paths=64):
    """Acyclic normal paths of a small function: list of (returned expr AST or None,
    frozenset of (norm form, pol) of the branch conditions taken)."""
    cfg = ctx.cfg(fn)
    out = []
    count = 0
    for path in cfg.paths(kinds=NORMAL_KINDS, max_visits=1, cap=max_paths * 4, targets={cfg.exit.id}):
        count += 1
        if count > max_paths:
            raise AnalysisError("T13", f"{fn.short}: more than {max_paths} acyclic paths")
        conds = []
        ret = None
        for n, k, c in path:
            if k in ("T", "F") and c is not None:
                form, pol = norm(ctx, fn, c, n, pol=(k == "T"))
                conds.append((form, pol))
            if n.kind == "stmt" and isinstance(n.ast, ast.Return):
                ret = n.ast.value
        out.append((ret, frozenset(both_orders(conds)), path))
    ctx.counters["paths"] += count
    return out


def const_value(ctx, fn, expr, node, depth=3):
    """Constant-propagate a local through unique reaching definitions: returns the AST of the
    value (Constant / Attribute like Status.GOOD) or None."""
    if expr is None:
        return ast.Constant(value=None)
    if isinstance(expr, ast.Name) and depth > 0:
        ud = ctx.rd(fn).unique_def(node, expr.id)
        if ud is None:
            return None
        dnode, val = ud
        if isinstance(val, ast.AST):
            return const_value(ctx, fn, val, dnode, depth - 1)
        return None
    return expr


# -------------------------------------------------------------- misc helpers
def calls_named(node, names):
    names = {names} if isinstance(names, str) else set(names)
    out = []
    for n in iter_own(node):
        if isinstance(n, ast.Call):
            f = n.func
            nm = f.attr if isinstance(f, ast.Attribute) else (f.id if isinstance(f, ast.Name) else None)
            if nm in names:
                out.append(n)
    return out


def is_name(e, ident):
    return isinstance(e, ast.Name) and e.id == ident


def root_name(e):
    while isinstance(e, (ast.Attribute, ast.Subscript, ast.Call)):
        e = e.func if isinstance(e, ast.Call) else e.value
    return e.id if isinstance(e, ast.Name) else None


def enclosing_loops(ctx, fn, node):
    return ctx.enclosing(fn, node, (ast.For, ast.While, ast.AsyncFor))


def key_of(fn, what):
    """Construct key: qualified function + normalised construct text (never a line number)."""
    return f"{fn.short}::{what}"


# ------------------------------------------------- T15 guarded reachability
def fresh_queue_poll(ctx, fn, s):
    """`q.process_queue()` on a JobQueue local that was constructed in this function and not
    touched since cannot start anything: JobQueue.__init__ initialises _queued_jobs to an empty
    literal and only JobQueue.submit inserts into it (both re-checked here on every run).
    Returns the reason string, or None if the argument does not apply."""
    if not s.calls_short(ctx.ix, "JobQueue.process_queue"):
        return None
    f = s.node.func
    if not (isinstance(f, ast.Attribute) and isinstance(f.value, ast.Name)):
        return None
    q = f.value.id
    nodes = ctx.nodes_of(fn, s.node)
    if len(nodes) != 1:
        return None
    ud = ctx.rd(fn).unique_def(nodes[0], q)
    if ud is None or not isinstance(ud[1], ast.Call):
        return None
    dnode, val = ud
    cs = ctx.cg.site_of(fn, val)
    if cs is None or not (cs.constructs or "").endswith(".JobQueue"):
        return None
    # (a) __init__ : self._queued_jobs = []   (b) only submit() inserts
    jq = ctx.ix.find_class("JobQueue")
    init = jq.methods.get("__init__")
    ok_init = False
    for n in ast.walk(init.node):
        if isinstance(n, ast.Assign) and any(isinstance(t, ast.Attribute) and t.attr == "_queued_jobs" for t in n.targets):
            ok_init = isinstance(n.value, ast.List) and not n.value.elts
    if not ok_init:
        return None
    for f2, node, attr, t, kind in attr_stores(ctx, {"_queued_jobs"}):
        if kind in ("mutate:append", "mutate:extend", "mutate:insert", "setitem") and f2.short != "JobQueue.submit":
            return None
        if kind == "store" and f2.short != "JobQueue.__init__":
            return None
    # (c) no use of q between its construction and this call
    cfg = ctx.cfg(fn)
    between = reachable_from(ctx, fn, dnode, ALL_KINDS, avoid=[nodes[0]])
    for nid in between:
        n = cfg.nodes[nid]
        if n is nodes[0] or n is dnode:
            continue
        for a in cfg.own_ast(n):
            if isinstance(a, (ast.FunctionDef, ast.AsyncFunctionDef, ast.ClassDef)):
                continue
            for sub in iter_own(a):
                if isinstance(sub, ast.Name) and sub.id == q:
                    # only nodes that can still reach the call matter
                    if nodes[0].id in reachable_from(ctx, fn, n, ALL_KINDS):
                        return None
    return f"{q} is a JobQueue constructed in {fn.short} and untouched before process_queue(): its queued list is empty"


def ungated_chain(ctx, entry_fn, effect, gate_accept, kinds=ALL_KINDS, infeasible=None, flag_fn=None, edge_infeasible=None):
    """A call chain entry -> ... -> primitive `effect` on which no call site is guarded by a
    condition accepted by gate_accept(form, pol); None if every chain crosses a gate.

    infeasible(fn, site) discharges a whole site; edge_infeasible(fn, site, callee, flag)
    discharges one dispatch target in the calling context `flag` (flag = some function on the
    chain so far satisfied flag_fn). Returns list of (fn, call site) down to the primitive."""
    memo = {}

    def site_gated(fn, s):
        nodes = ctx.nodes_of(fn, s.node, kinds)
        if not nodes:
            return True  # unreachable site
        for n in nodes:
            forms = guard_forms(ctx, fn, n, kinds)
            if not any(gate_accept(f, p) for f, p in forms):
                return False
        return True

    def visit(fn, stack, flag):
        flag = flag or bool(flag_fn and flag_fn(fn))
        key = (fn.qual, flag)
        if key in memo:
            return memo[key]
        if key in stack:
            return None
        memo[key] = None
        res = None
        for s in ctx.cg.sites_in(fn):
            if effect not in ctx.site_may(s):
                continue
            if site_gated(fn, s):
                continue
            if infeasible is not None and infeasible(fn, s):
                continue
            if effect in ctx.site_effects(s):
                res = [(fn, s)]
                break
            for q in s.targets():
                f2 = ctx.ix.functions.get(q)
                if f2 is None:
                    continue
                if edge_infeasible is not None and edge_infeasible(fn, s, f2, flag):
                    continue
                sub = visit(f2, stack | {key}, flag)
                if sub is not None:
                    res = [(fn, s)] + sub
                    break
            if res:
                break
        memo[key] = res
        return res

    return visit(entry_fn, frozenset(), False)


# --------------------------------------------- confinement of the HPC-level queue
def hpc_queue_confined(ctx):
    """AsyncHpcSubmitter objects (the only objects whose run() hands a batch to the scheduler)
    are created only inside class HpcSubmitter/AsyncHpcSubmitter and enter only JobQueue objects
    that are locals of HpcSubmitter methods, which never escape that class. Consequently a
    dispatch JobQueue.* -> AsyncHpcSubmitter.* is feasible only on call chains that passed
    through a method of HpcSubmitter. Raises AnalysisError when the confinement cannot be shown."""
    ix = ctx.ix
    ahs = ix.find_class("AsyncHpcSubmitter")
    hs = ix.find_class("HpcSubmitter")
    jq = ix.find_class("JobQueue")
    facts = []
    # 1. construction sites of AsyncHpcSubmitter
    ctor_fns = set()
    for fn in ix.all_functions():
        for s in ctx.cg.sites_in(fn):
            is_ctor = s.constructs == ahs.qual or (
                fn.cls is ahs and isinstance(s.node.func, ast.Name) and s.node.func.id == "cls" and fn.kind == "classmethod"
            )
            if is_ctor:
                if fn.cls not in (hs, ahs):
                    raise AnalysisError("confinement", f"{fn.loc(s.node)}: AsyncHpcSubmitter constructed outside HpcSubmitter ({fn.short})")
                ctor_fns.add(fn.short)
    facts.append(f"AsyncHpcSubmitter constructed only in {sorted(ctor_fns)}")
    # 2. callers of those factory functions are HpcSubmitter methods
    for short in ctor_fns:
        f = ix.find_func(short)
        for s in ctx.callers_of(f):
            if s.fn.cls not in (hs, ahs):
                raise AnalysisError("confinement", f"{s.loc}: {short} called outside HpcSubmitter ({s.fn.short})")
    # 3. JobQueue locals of HpcSubmitter methods do not escape the class
    for m in hs.methods.values():
        names = set()
        for s in ctx.cg.sites_in(m):
            if s.constructs == jq.qual:
                st = ctx.stmt_of(m, s.node)
                if isinstance(st, ast.Assign) and len(st.targets) == 1 and isinstance(st.targets[0], ast.Name) and st.value is s.node:
                    names.add(st.targets[0].id)
                else:
                    raise AnalysisError("confinement", f"{s.loc}: JobQueue constructed in HpcSubmitter but not bound to a plain local")
        for p in m.params:
            t = ctx.ty.env(m).get(p)
            if type_is(ctx, t, "JobQueue"):
                names.add(p)
        for q in names:
            for n in iter_own(m.node):
                if isinstance(n, ast.Name) and n.id == q and isinstance(n.ctx, ast.Load):
                    par = ctx.parents(m).get(id(n))
                    if isinstance(par, ast.Attribute) and par.value is n:
                        continue  # receiver of a JobQueue method / attribute
                    if isinstance(par, ast.Call) and n in par.args:
                        cs = ctx.cg.site_of(m, par)
                        if cs is not None and cs.callees and all(ix.functions[c].cls is hs for c in cs.callees if c in ix.functions):
                            continue
                    raise AnalysisError("confinement", f"{m.loc(n)}: HPC-level JobQueue `{q}` escapes {m.short}")
    facts.append("JobQueue objects of HpcSubmitter are locals/parameters confined to HpcSubmitter methods")
    return facts


def gated_sites(ctx, entry_fn, effect, gate_accept, kinds=ALL_KINDS):
    """All (fn, site) on entry->effect chains that carry an accepted gate (for evidence)."""
    out, seen = [], set()

    def visit(fn):
        if fn.qual in seen:
            return
        seen.add(fn.qual)
        for s in ctx.cg.sites_in(fn):
            if effect not in ctx.site_may(s):
                continue
            nodes = ctx.nodes_of(fn, s.node, kinds)
            if nodes and all(any(gate_accept(f, p) for f, p in guard_forms(ctx, fn, n, kinds)) for n in nodes):
                out.append((fn, s))
                continue
            for q in s.targets():
                f2 = ctx.ix.functions.get(q)
                if f2 is not None:
                    visit(f2)

    visit(entry_fn)
    return out


# ------------------------------------------------------------- T7 lock context
def unlocked_writers(ctx, effect, owner_cls, lock):
    """Methods of `owner_cls` that reach `effect` through direct (non-wrapped) calls, are not
    always called under `lock`, and form the boundary where the lock should have been taken:
    public methods, methods without callers, or methods called directly from outside the
    owner class. Returns (violators, W) with W the set of direct reachers (for evidence)."""
    fns = ctx.ix.functions
    W = set()
    changed = True
    while changed:
        changed = False
        for q, f in fns.items():
            if q in W:
                continue
            for s in ctx.cg.sites_in(f):
                if (effect in ctx.site_effects(s) and "OWN_HOLD" not in ctx.site_effects(s)) or any(c in W for c in s.callees if s.how != "cha"):
                    W.add(q)
                    changed = True
                    break
    out = []
    for q in sorted(W):
        f = fns[q]
        if f.cls is None or not ctx.ix.is_subclass(f.cls, owner_cls.qual):
            continue
        if ctx.is_locked_only(f, lock):
            continue
        callers = ctx.cg.call_sites_of(q)
        outside = [s for s in callers if q in s.callees and (s.fn.cls is None or not ctx.ix.is_subclass(s.fn.cls, owner_cls.qual))]
        if not f.name.startswith("_") or not callers or outside:
            out.append((f, outside))
    return out, W


def const_param_blocks(ctx, call_site, callee, inner_site):
    """inner_site (inside callee) is guarded by a parameter of callee being truthy/falsy, and
    call_site passes (or defaults to) a constant of the other truthiness: the edge
    call_site -> callee -> inner_site is infeasible."""
    for n in ctx.nodes_of(callee, inner_site.node):
        blocked = False
        for form, pol in guard_forms(ctx, callee, n):
            if form in callee.params + callee.kwonly:
                a = ctx.arg_for(call_site, callee, form)
                if isinstance(a, ast.Constant) and bool(a.value) != pol:
                    blocked = True
        if not blocked:
            return False
    return True


# ------------------------------------------------ T16 definite assignment
def possibly_unbound(ctx, fn):
    """Loads of a local name that some path from the function entry reaches without any binding
    (UnboundLocalError at run time on that path). Flag-aware pruned reachability is NOT used: a
    use is reported only if an *acyclic-prefix* path with no binding exists; correlated conditions
    (bound under `if c:` and used under the same `if c:`) are recognised and not reported."""
    import builtins
    from .cfg import node_defs

    cfg = ctx.cfg(fn)
    params = set(fn.params + fn.kwonly + ([fn.vararg] if fn.vararg else []) + ([fn.kwarg] if fn.kwarg else []))
    assigned = set()
    for n in cfg.nodes:
        assigned |= set(node_defs(cfg, n))
    globals_declared = {nm for st in ast.walk(fn.node) if isinstance(st, (ast.Global, ast.Nonlocal)) for nm in st.names}
    locals_ = assigned - params - globals_declared
    if not locals_:
        return []
    # forward may-analysis: set of locals possibly unbound on arrival
    IN = {n.id: None for n in cfg.nodes}
    IN[cfg.entry.id] = frozenset(locals_)
    work = [cfg.entry]
    defs = {n.id: set(node_defs(cfg, n)) for n in cfg.nodes}
    while work:
        n = work.pop()
        cur = IN[n.id]
        out = frozenset(cur - defs[n.id])
        for d, k, c in n.succ:
            out_e = out if k != "exc" else cur  # an exception may leave before the binding happened
            new = out_e if IN[d.id] is None else IN[d.id] | out_e
            if new != IN[d.id]:
                IN[d.id] = new
                work.append(d)
    hits = []
    g = ctx.guards(fn)
    for n in cfg.nodes:
        if IN[n.id] is None:
            continue
        for root in cfg.own_ast(n):
            if isinstance(root, (ast.FunctionDef, ast.AsyncFunctionDef, ast.ClassDef)):
                continue
            for sub in iter_own(root):
                if isinstance(sub, ast.Name) and isinstance(sub.ctx, ast.Load) and sub.id in IN[n.id] and sub.id in locals_:
                    # comprehension variables / names bound in the same statement are not locals of this kind
                    if any(isinstance(p, (ast.ListComp, ast.SetComp, ast.DictComp, ast.GeneratorExp, ast.Lambda)) for p in _ancestors(ctx, fn, sub)):
                        continue
                    # correlated condition: every binding of the name is guarded by G and the use is guarded by G too
                    use_guards = {(k, p) for k, p, _ in g.at(n)}
                    bind_guard_sets = [{(k, p) for k, p, _ in g.at(m)} for m in cfg.nodes if sub.id in defs[m.id]]
                    common = set.intersection(*bind_guard_sets) if bind_guard_sets else set()
                    if common & use_guards and len(bind_guard_sets) >= 1 and any(gs & use_guards for gs in bind_guard_sets):
                        # some binding shares a guard with the use; accept only if every path to the use with that guard passes a binding
                        shared = common & use_guards
                        if shared:
                            continue
                    hits.append((n, sub))
    return hits


def _ancestors(ctx, fn, node):
    pm = ctx.parents(fn)
    cur = pm.get(id(node))
    out = []
    while cur is not None and cur is not fn.node:
        out.append(cur)
        cur = pm.get(id(cur))
    return out


# ------------------------------------------------------ per-iteration paths
def iteration_paths(ctx, fn, loop, avoid=(), kinds=NORMAL_KINDS, cap=2000, with_path=False):
    """Paths through ONE iteration of `loop` (ast.For / ast.While) that avoid every node of `avoid`.

    Yields (end, conds, last_node): end is 'next' (back at the loop head), 'leave' (control left the loop
    body: break / return / exit) ; conds is the set of (form, polarity) of the branch conditions taken
    (both operand orders).  A path that meets a node of `avoid` is not reported."""
    cfg = ctx.cfg(fn)
    heads = [n for n in cfg.nodes if n.kind in ("for", "loop_head") and n.ast is loop]
    if not heads:
        raise AnalysisError("iteration_paths", f"loop at {fn.loc(loop)} has no CFG head")
    head = heads[0]
    blocked = {n.id for n in avoid}

    def inside(n):
        st = n.stmt if n.stmt is not None else n.ast
        if st is None:
            return False
        if st is loop:
            return n.kind == "test"          # the while-condition
        return any(l is loop for l in ctx.enclosing(fn, st, (ast.For, ast.While, ast.AsyncFor)))

    count = 0
    first = [(d, k, c) for d, k, c in head.succ if k in kinds and k != "done"]
    stack = [(d, [(head, k, c)], {head.id}) for d, k, c in first]
    while stack:
        n, path, seen = stack.pop()
        if n.id in blocked:
            continue
        end = None
        if n is head:
            end = "next"
        elif not inside(n):
            end = "leave"
        if end:
            count += 1
            if count > cap:
                raise AnalysisError("iteration_paths", f"more than {cap} iteration paths in {fn.short}")
            conds = set()
            for m, k, c in path:
                if k in ("T", "F") and c is not None:
                    conds |= both_orders([norm(ctx, fn, c, None, pol=(k == "T"))])
            if with_path:
                yield end, conds, path[-1][0], path + [(n, None, None)]
            else:
                yield end, conds, path[-1][0]
            continue
        if n.id in seen:
            continue
        for d, k, c in n.succ:
            if k in kinds:
                stack.append((d, path + [(n, k, c)], seen | {n.id}))


def only_return(ctx, fn):
    """The value of the function's single `return` statement with local aliases expanded, or None."""
    cfg = ctx.cfg(fn)
    rets = [n for n in cfg.nodes if n.kind == "stmt" and isinstance(n.ast, ast.Return) and n.copy == "n"]
    if len(rets) != 1 or rets[0].ast.value is None:
        return None
    v = rets[0].ast.value
    return ctx.guards(fn).expand(v, rets[0]) if isinstance(v, ast.Name) else v


# ---------------------------------------------- filtered collections (two forms)
def collections_from(ctx, fn, is_source):
    """Collections built from an iterable in `fn`, in either syntactic form:
         X = [elt for v in SRC if c1 if c2]                    (comprehension; also list(...), set/generator)
         X = []; for v in SRC: if c1: ... X.append(elt)        (loop)
    is_source(iter_expr) selects the iterables of interest.  Returns dicts with
      form, iter, var, conds (set of (form, pol) mentioning the loop variable, variable renamed to `_`),
      elt (source text of the collected element, variable renamed to `_`), into (name bound to the collection), at."""
    import re as _re

    def ren(text, var):
        return _re.sub(rf"\b{_re.escape(var)}\b", "_", text) if var else text

    out = []
    parents = ctx.parents(fn)
    for n in iter_own(fn.node):
        if isinstance(n, (ast.ListComp, ast.GeneratorExp, ast.SetComp)) and len(n.generators) == 1 and is_source(n.generators[0].iter):
            g = n.generators[0]
            var = g.target.id if isinstance(g.target, ast.Name) else None
            conds = set()

            def conjuncts(c):
                # `if a and b` selects like `if a if b` (and like the loop form's nested / and-ed guards)
                if isinstance(c, ast.BoolOp) and isinstance(c.op, ast.And):
                    for v in c.values:
                        yield from conjuncts(v)
                else:
                    yield c

            for c0 in g.ifs:
                for c in conjuncts(c0):
                    for f, p in both_orders([norm(ctx, fn, c, None)]):
                        conds.add((ren(f, var), p))
            cur, into = n, None
            while cur is not None and not isinstance(cur, ast.stmt):
                cur = parents.get(id(cur))
            if isinstance(cur, ast.Assign) and isinstance(cur.targets[0], ast.Name):
                into = cur.targets[0].id
            out.append({"form": "comprehension", "iter": g.iter, "var": var, "conds": conds, "elt": ren(unparse(n.elt), var), "into": into, "at": n})
    cfg = ctx.cfg(fn)
    for lp in [n for n in iter_own(fn.node) if isinstance(n, ast.For) and is_source(n.iter)]:
        var = lp.target.id if isinstance(lp.target, ast.Name) else None
        for cn in cfg.nodes:
            if cn.stmt is None or not any(l is lp for l in ctx.enclosing(fn, cn.stmt, (ast.For,))):
                continue
            for c in cfg.calls_at(cn):
                if isinstance(c.func, ast.Attribute) and c.func.attr in ("append", "add") and isinstance(c.func.value, ast.Name) and len(c.args) == 1:
                    conds = {(ren(f, var), p) for f, p in guard_forms(ctx, fn, cn) if var and _re.search(rf"\b{_re.escape(var)}\b", f)}
                    out.append({"form": "loop", "iter": lp.iter, "var": var, "conds": conds, "elt": ren(unparse(c.args[0]), var), "into": c.func.value.id, "at": cn.stmt})
    return out


def inline_locals(ctx, fn, expr, at_node, depth=3):
    """Copy of `expr` in which every local that has a single reaching definition at `at_node` (whose operands are
    unchanged since - the alias conditions of Guards.expand) is replaced by that definition, transitively."""
    import copy

    if expr is None or at_node is None:
        return expr
    g = ctx.guards(fn)

    class T(ast.NodeTransformer):
        def __init__(self, d):
            self.d = d

        def visit_Name(self, n):
            if not isinstance(n.ctx, ast.Load) or self.d <= 0:
                return n
            e = g.expand(n, at_node, depth=1)
            if e is n or isinstance(e, ast.Name) and e.id == n.id:
                return n
            return T(self.d - 1).visit(copy.deepcopy(e))

    return T(depth).visit(copy.deepcopy(expr))


def property_setter_mismatches(ctx, classes):
    """T9 over accessor pairs: a property whose getter is `return self._a` and whose setter's only attribute store
    is `self._b = <param>` must have a == b.  Returns (n_pairs, [(cls, name, getter_attr, setter_attr, setter_fn)])."""
    n, bad = 0, []
    for c in classes:
        for name, st in c.setters.items():
            g = c.methods.get(name)
            if g is None or g.kind != "property":
                continue
            rx = _single_return(g)
            if not (isinstance(rx, ast.Attribute) and isinstance(rx.value, ast.Name) and rx.value.id == "self"):
                continue
            stores = [x for x in iter_own(st.node) if isinstance(x, ast.Assign) for t in x.targets if isinstance(t, ast.Attribute) and isinstance(t.value, ast.Name) and t.value.id == "self"]
            if len(stores) != 1 or not isinstance(stores[0].value, ast.Name) or stores[0].value.id not in st.params:
                continue
            n += 1
            sa = stores[0].targets[0].attr
            if sa != rx.attr:
                bad.append((c, name, rx.attr, sa, st))
    return n, bad


def bound_from(ctx, fn, expr, at_node, short, index=None):
    """`expr` is a local whose unique definition reaching `at_node` is a call resolving to `short` - directly
    (index None) or as element `index` of a tuple-unpacking assignment.  Spelling-independent way to say
    "the handle returned by Cluster.deserialize", "the rows returned by _get_results", ..."""
    if not isinstance(expr, ast.Name) or at_node is None:
        return False
    ud = ctx.rd(fn).unique_def(at_node, expr.id)
    if ud is None:
        return False
    val = ud[1]
    if isinstance(val, tuple) and val and val[0] == "unpack":
        if index is None or val[2] != index:
            return False
        val = val[1]
    elif index is not None:
        return False
    site = ctx.cg.site_of(fn, val) if isinstance(val, ast.Call) else None
    return site is not None and site.calls_short(ctx.ix, short)


def first_node(ctx, fn, astnode):
    ns = ctx.nodes_of(fn, astnode)
    return ns[0] if ns else None


def inlined_guards(ctx, fn, cfg_node, kinds=ALL_KINDS, kill=True):
    """Guards at a node as (source text with single-definition locals inlined and blanks removed, polarity):
    independent of how intermediate locals are spelled (`x = a.f(); y = x & s; if y:` -> `a.f()&s`)."""
    g = ctx.guards(fn, kinds, kill)
    out = set()
    for key, pol, e in g.at(cfg_node):
        tnode = g.origin[key][0] if key in g.origin else _test_node_for(ctx, fn, e)
        try:
            k2, p2, e2 = canon(inline_locals(ctx, fn, e, tnode)) if tnode is not None else (key, True, e)
        except RecursionError:
            k2, p2 = key, True
        out.add((k2.replace(" ", ""), pol if p2 else not pol))
    return out


def inlined(ctx, fn, expr, at_node):
    return unparse(inline_locals(ctx, fn, expr, at_node)).replace(" ", "") if expr is not None else None


def edge_cond_inlined(ctx, fn, node, kind, cond):
    """(text, polarity) of the branch condition taken on a T/F edge, canonical, locals inlined, blanks removed."""
    k2, p2, _ = canon(inline_locals(ctx, fn, cond, node))
    return k2.replace(" ", ""), (kind == "T") == p2


def comp_norm(node):
    """Source of a single-generator comprehension with its variable renamed to `_` and blanks removed."""
    import re as _re

    if not isinstance(node, (ast.ListComp, ast.SetComp, ast.GeneratorExp, ast.DictComp)) or len(node.generators) != 1:
        return unparse(node).replace(" ", "") if node is not None else None
    tgt = node.generators[0].target
    txt = unparse(node)
    for nm in [x.id for x in ast.walk(tgt) if isinstance(x, ast.Name)]:
        txt = _re.sub(rf"\b{_re.escape(nm)}\b", "_", txt)
    return txt.replace(" ", "")


def unused_loop_variables(fn_node):
    """(for-node, name) for loop control variables never read in the loop body (flake8-bugbear B007): the body then
    works on whatever an outer binding of a similar name holds - typically the first element for every iteration."""
    out = []
    for n in ast.walk(fn_node):
        if isinstance(n, (ast.For, ast.AsyncFor)):
            names = [x.id for x in ast.walk(n.target) if isinstance(x, ast.Name) and not x.id.startswith("_")]
            used = {x.id for b in n.body + n.orelse for x in ast.walk(b) if isinstance(x, ast.Name) and isinstance(x.ctx, ast.Load)}
            out += [(n, v) for v in names if v not in used]
    return out


def inlined_expr(ctx, fn, expr):
    """`expr` (part of a statement of fn) with the single-definition locals it reads replaced by their definitions -
    as an AST, so that render() / unparse see through temporaries (`t = cluster.config.groups; f(t)` reads as `f(cluster.config.groups)`)."""
    st = ctx.stmt_of(fn, expr)
    nodes = ctx.nodes_of(fn, st) if st is not None else []
    if not nodes:
        nodes = ctx.cfg(fn).nodes_of(expr)
    return inline_locals(ctx, fn, expr, nodes[0]) if nodes else expr


def _pure_chain(e):
    while isinstance(e, ast.Attribute):
        e = e.value
    return isinstance(e, ast.Name)


def argument_slot_mismatches(ctx, fns, callees=None):
    """Call sites in `fns` whose positional arguments are plain names that are *also parameter names of the callee*,
    but sit in another parameter's slot (`f(cluster, output, missing, failed, ...)` against `def f(cluster, output, failed, missing, ...)`).
    -> (examined, [(fn, call, arg name, slot parameter)]).  Only resolved, unambiguous callees of the package are examined."""
    examined, out = 0, []
    for fn in fns:
        for s in ctx.cg.sites_in(fn):
            quals = [q for q in s.targets() if q in ctx.ix.functions]
            if len(quals) != 1:
                continue
            callee = ctx.ix.functions[quals[0]]
            if callees is not None and callee.qual not in callees:
                continue
            if s.via_wrapper and callee.qual in s.wrapped:
                args = s.wrapped_args
            else:
                args = s.node.args
            params = callee.bound_params
            if any(isinstance(a, ast.Starred) for a in args):
                continue
            def label(a):
                # the name a reader sees: the local's name, or the last attribute of a chain (group.submitter_params.verbose -> verbose;
                # single-use locals are inlined at load time, so `verbose = group...verbose; f(verbose)` arrives in this form)
                if isinstance(a, ast.Name):
                    return a.id
                if isinstance(a, ast.Attribute) and _pure_chain(a):
                    return a.attr.lstrip("_") or a.attr
                return None

            pairs = [(label(a), params[i]) for i, a in enumerate(args) if i < len(params) and label(a) is not None]
            rel = [(a, p) for a, p in pairs if a in params]
            if not rel:
                continue
            examined += 1
            for a, p in rel:
                if a == p:
                    continue
                # the parameter called `a` must itself receive something else than `a` (f(x, job_id, job_id=job_id) is a deliberate double use)
                own = ctx.arg_for(s, callee, a)
                if own is None or label(own) == a or own is callee.defaults.get(a):
                    continue
                out.append((fn, s.node, a, p))
    return examined, out


def _is_plain_enum(ctx, qual):
    c = ctx.ix.classes.get(qual)
    if c is None:
        return False
    names = set()
    for k in ctx.ix.mro(c):
        for b in k.node.bases:
            names.add(ast.unparse(b).split(".")[-1])
    return "Enum" in names and not names & {"str", "int", "IntEnum", "StrEnum"}


def enum_literal_compares(ctx, fns):
    """`==` / `!=` / `in (..)` comparisons in `fns` between an expression whose static type is a plain Enum class and a str/int literal:
    such a comparison is constant (an Enum member never equals a literal), so the guard it forms never / always fires.
    -> (typed comparisons examined, [(fn, compare node, enum class)])"""
    examined, out = 0, []
    for fn in fns:
        for n in iter_own(fn.node):
            if not isinstance(n, ast.Compare) or len(n.ops) != 1 or not isinstance(n.ops[0], (ast.Eq, ast.NotEq, ast.In, ast.NotIn)):
                continue
            l, rr = n.left, n.comparators[0]
            for e, o in ((l, rr), (rr, l)):
                try:
                    t = ctx.ty.expr_type(fn, e)
                except Exception:
                    t = None
                if not (t and t[0] == "cls" and _is_plain_enum(ctx, t[1])):
                    continue
                examined += 1
                lits = [o] if isinstance(o, ast.Constant) else (list(o.elts) if isinstance(o, (ast.Tuple, ast.List, ast.Set)) else [])
                if lits and all(isinstance(x, ast.Constant) and isinstance(x.value, (str, int)) and not isinstance(x.value, bool) for x in lits):
                    out.append((fn, n, t[1].split(".")[-1]))
                break
    return examined, out


def keeps_directory_of(value, is_path):
    """`value` (an expression building a path) mentions a path P (is_path(node) -> True) other than through P.name / P.stem / P.suffix,
    i.e. the result lies where P lies (P.parent / ..., str(P) + ..., P.with_suffix(...), f"{P}...") and not in the working directory."""
    parents = {}
    for n in ast.walk(value):
        for c in ast.iter_child_nodes(n):
            parents[id(c)] = n
    keeps = names = 0
    for n in ast.walk(value):
        if is_path(n):
            par = parents.get(id(n))
            if isinstance(par, ast.Attribute) and par.value is n and par.attr in ("name", "stem", "suffix", "suffixes"):
                names += 1
            else:
                keeps += 1
    return keeps > 0, keeps + names


def _param_used_as_callable(ctx, callee, param):
    """the callee calls `param(...)`, forwards it to another call, or stores it in an attribute that is called somewhere in its class"""
    for n in ast.walk(callee.node):
        if isinstance(n, ast.Call):
            if isinstance(n.func, ast.Name) and n.func.id == param:
                return True
            if any(isinstance(a, ast.Name) and a.id == param for a in list(n.args) + [k.value for k in n.keywords]):
                return True
    stored = {t.attr for n in ast.walk(callee.node) if isinstance(n, ast.Assign) and isinstance(n.value, ast.Name) and n.value.id == param for t in n.targets if isinstance(t, ast.Attribute)}
    if stored and callee.cls is not None:
        for m in callee.cls.methods.values():
            for n in ast.walk(m.node):
                if isinstance(n, ast.Call) and isinstance(n.func, ast.Attribute) and n.func.attr in stored:
                    return True
    return False


def uncalled_getters(ctx, fns):
    """References to a method / function of the package that takes no argument (beyond self), *not called*, whose value is then consumed as data:
    bound to a name, tested, compared, returned, or passed to a parameter the callee never calls (`flag = intf.am_i_manager` for
    `intf.am_i_manager()`): a bound method is always truthy, so every test of it takes the same branch.
    -> (references examined, [(fn, node, callee short)])"""
    examined, out = 0, []
    for fn in fns:
        called = {id(c.func) for c in ast.walk(fn.node) if isinstance(c, ast.Call)}
        parents = {}
        for p in ast.walk(fn.node):
            for c in ast.iter_child_nodes(p):
                parents[id(c)] = p
        local_names = {x.id for x in ast.walk(fn.node) if isinstance(x, ast.Name) and isinstance(x.ctx, ast.Store)}
        for n in iter_own(fn.node):
            if not isinstance(n, (ast.Attribute, ast.Name)) or not isinstance(getattr(n, "ctx", None), ast.Load) or id(n) in called:
                continue
            try:
                t = ctx.ty.expr_type(fn, n)
            except Exception:
                t = None
            if not (t and t[0] in ("func", "bound")):
                continue
            g = ctx.ix.functions.get(t[1])
            if g is None or g.kind in ("property", "setter") or g.bound_params or g.vararg or g.kwarg:
                continue
            if isinstance(n, ast.Name) and (n.id in fn.params or n.id in local_names):
                continue  # a local that happens to share the name of a module-level function
            examined += 1
            par = parents.get(id(n))
            if isinstance(par, ast.Attribute):
                continue  # f.__name__ and the like
            if isinstance(par, ast.keyword):
                par = parents.get(id(par))
            if isinstance(par, ast.Call):
                s = ctx.cg.site_of(fn, par)
                quals = [q for q in (s.targets() if s else []) if q in ctx.ix.functions]
                if len(quals) != 1:
                    continue  # external / unresolved callee (threading.Thread(target=...), a lock wrapper through *args): not judged
                callee = ctx.ix.functions[quals[0]]
                pname = None
                for k in par.keywords:
                    if k.value is n:
                        pname = k.arg
                if pname is None and n in par.args:
                    i = par.args.index(n)
                    pname = callee.bound_params[i] if i < len(callee.bound_params) else None
                if s.via_wrapper or pname is None or _param_used_as_callable(ctx, callee, pname):
                    continue
            out.append((fn, n, g.short))
    return examined, out


def on_exception_path_of(ctx, fn, node, body_pred):
    """`node` lies lexically in a handler or in the finally block of a try whose *body* contains a node satisfying body_pred:
    it also runs when that body statement raised.  Returns the Try or None."""
    pm = ctx.parents(fn)
    cur, child = pm.get(id(node)), node
    while cur is not None and cur is not fn.node:
        if isinstance(cur, ast.Try):
            in_final = any(child is s for s in cur.finalbody)
            in_handler = any(child is h for h in cur.handlers)
            if (in_final or in_handler) and any(body_pred(x) for b in cur.body for x in ast.walk(b)):
                return cur
        child, cur = cur, pm.get(id(cur))
    return None


def swallowing_handlers(ctx, fn, node):
    """Exception handlers lexically enclosing `node` (it lies in the try body) that can complete without raising: an exception raised at
    `node` is then not seen by the caller.  A handler counts as re-raising if every normal path through it ends in a raise."""
    pm = ctx.parents(fn)
    out = []
    cur, child = pm.get(id(node)), node
    while cur is not None and cur is not fn.node:
        if isinstance(cur, ast.Try) and any(child is s for s in cur.body):
            for h in cur.handlers:
                last = h.body[-1] if h.body else None
                if not isinstance(last, ast.Raise) and not (isinstance(last, ast.Expr) and isinstance(last.value, ast.Call) and ast.unparse(last.value.func) in ("sys.exit", "os._exit")):
                    out.append(h)
        child, cur = cur, pm.get(id(cur))
    return out


def validators_without_value(ctx, classes=None):
    """pydantic @validator / @root_validator functions with a normal path that ends without `return <value>` (falls off the end or bare return):
    pydantic stores what the validator returns, so such a path silently replaces the field by None.
    -> (validators examined, [(fn, last node of the path)])"""
    examined, out = 0, []
    for fn in ctx.ix.functions.values():
        if not any(d and d.split(".")[-1] in ("validator", "root_validator") for d in fn.decorators):
            continue
        if classes is not None and (fn.cls is None or fn.cls.name not in classes):
            continue
        examined += 1
        cfg = ctx.cfg(fn)
        for n in cfg.nodes:
            for d, k, _ in n.succ:
                if d is cfg.exit and k in NORMAL_KINDS:
                    a = n.ast
                    if not (n.kind == "stmt" and isinstance(a, ast.Return) and a.value is not None and not (isinstance(a.value, ast.Constant) and a.value.value is None)):
                        out.append((fn, n))
    return examined, out


def str_for_collection_args(ctx, fns, callees=None):
    """Call sites passing an expression of static type str to a parameter that the callee *iterates* (`for s in param` / a comprehension over
    it): the callee then walks the string character by character.  -> (examined, [(fn, call, param)])"""
    examined, out = 0, []

    def iterated(callee, p, depth=0):
        for n in ast.walk(callee.node):
            if isinstance(n, (ast.For, ast.comprehension)) and isinstance(n.iter, ast.Name) and n.iter.id == p:
                return True
        if depth < 3:  # handed on to a function of the package that iterates it
            for s2 in ctx.cg.sites_in(callee):
                qs = [q for q in s2.targets() if q in ctx.ix.functions]
                if len(qs) != 1:
                    continue
                g = ctx.ix.functions[qs[0]]
                for gp in g.bound_params + g.kwonly:
                    a2 = ctx.arg_for(s2, g, gp)
                    if isinstance(a2, ast.Name) and a2.id == p and g is not callee and iterated(g, gp, depth + 1):
                        return True
        return False

    for fn in fns:
        for s in ctx.cg.sites_in(fn):
            quals = [q for q in s.targets() if q in ctx.ix.functions]
            if len(quals) != 1 or (callees is not None and quals[0] not in callees):
                continue
            callee = ctx.ix.functions[quals[0]]
            for p in callee.bound_params + callee.kwonly:
                if not iterated(callee, p):
                    continue
                a = ctx.arg_for(s, callee, p)
                if a is None or a is callee.defaults.get(p):
                    continue
                examined += 1
                try:
                    t = ctx.ty.expr_type(fn, a)
                    if t is None and isinstance(a, ast.Name):
                        t = ctx.ty.expr_type(fn, inlined_expr(ctx, fn, a))
                except Exception:
                    t = None
                if t == ("ext", "str"):
                    out.append((fn, s.node, p))
    return examined, out


def unknown_keywords(ctx, fns):
    """Keyword arguments at calls of package functions that take **kwargs, whose name is no parameter of the callee and occurs *nowhere else* in
    the package as a parameter name, attribute, or string constant (so nobody can ever read it): a misspelt option that is silently dropped.
    -> (examined, [(fn, call, keyword)])"""
    vocab = getattr(ctx, "_kw_vocab", None)
    if vocab is None:
        vocab = {}
        for m in ctx.ix.modules.values():
            for n in ast.walk(m.tree):
                if isinstance(n, ast.arg):
                    vocab[n.arg] = vocab.get(n.arg, 0) + 1
                elif isinstance(n, ast.Constant) and isinstance(n.value, str) and n.value.isidentifier():
                    vocab[n.value] = vocab.get(n.value, 0) + 1
                elif isinstance(n, ast.Attribute):
                    vocab[n.attr] = vocab.get(n.attr, 0) + 1
                elif isinstance(n, ast.AnnAssign) and isinstance(n.target, ast.Name):
                    vocab[n.target.id] = vocab.get(n.target.id, 0) + 1
        ctx._kw_vocab = vocab
    def closed(callee, depth=0, seen=()):
        """every use of the callee's **kwargs is a lookup by name (kw.get("x"), kw["x"], kw.pop("x"), "x" in kw) or a forward `**kw` to a
        package function that is itself closed / has no **kwargs: then a keyword nobody names is dropped for certain"""
        kw = callee.kwarg
        if kw is None:
            return True
        if depth > 4 or callee.qual in seen:
            return False
        parents = {}
        for p_ in ast.walk(callee.node):
            for c_ in ast.iter_child_nodes(p_):
                parents[id(c_)] = p_
        for n in ast.walk(callee.node):
            if not (isinstance(n, ast.Name) and n.id == kw and isinstance(n.ctx, ast.Load)):
                continue
            par = parents.get(id(n))
            if isinstance(par, ast.Attribute) and par.attr in ("get", "pop", "keys", "items"):
                if par.attr in ("keys", "items"):
                    return False
                continue
            if isinstance(par, ast.Subscript) and par.value is n:
                continue
            if isinstance(par, ast.Compare) and n in par.comparators:
                continue
            if isinstance(par, ast.Call) and isinstance(par.func, ast.Name) and par.func.id in ("str", "repr", "len") or isinstance(par, ast.FormattedValue):
                continue  # shown in a message
            if isinstance(par, ast.keyword) and par.arg is None:
                call = parents.get(id(par))
                s2 = ctx.cg.site_of(callee, call) if isinstance(call, ast.Call) else None
                qs = [q for q in (s2.targets() if s2 else []) if q in ctx.ix.functions]
                if not qs or (s2 and s2.external):
                    return False
                if all(closed(ctx.ix.functions[q], depth + 1, seen + (callee.qual,)) for q in qs):
                    continue
                return False
            return False
        return True

    examined, out = 0, []
    for fn in fns:
        for s in ctx.cg.sites_in(fn):
            quals = [q for q in s.targets() if q in ctx.ix.functions]
            if not quals or s.via_wrapper:
                continue
            callees = [ctx.ix.functions[q] for q in quals]
            if not all(c.kwarg for c in callees) or not all(closed(c) for c in callees):
                continue
            for k in s.node.keywords:
                if k.arg is None or any(k.arg in c.params + c.kwonly for c in callees):
                    continue
                examined += 1
                if vocab.get(k.arg, 0) == 0:
                    out.append((fn, s.node, k.arg))
    return examined, out


def is_value_of(ctx, fn, expr, at_node, call_node):
    """`expr` evaluated at `at_node` is the result of `call_node`: it *is* that call expression, or a local whose unique reaching definition is it."""
    if expr is call_node:
        return True
    if isinstance(expr, ast.Name) and at_node is not None:
        ud = ctx.rd(fn).unique_def(at_node, expr.id)
        return ud is not None and ud[1] is call_node
    return False


def unused_cli_parameters(ctx):
    """click command functions (jade/cli) with a parameter - i.e. a command-line option or argument - that the body never reads: the option
    is accepted and silently ignored.  -> (commands examined, [(fn, parameter)])"""
    examined, out = 0, []
    for fn in ctx.ix.functions.values():
        if not fn.module.relpath.startswith("jade/cli/"):
            continue
        if not any(d and d.split(".")[-1] in ("option", "argument", "command") for d in fn.decorators):
            continue
        examined += 1
        used = {x.id for x in ast.walk(fn.node) if isinstance(x, ast.Name) and isinstance(x.ctx, ast.Load)}
        for p in fn.params + fn.kwonly:
            if p not in used:
                out.append((fn, p))
    return examined, out


def validators_changing_value(ctx, classes):
    """pydantic field validators (not root validators) of `classes` with a return whose value is not the validator's own value parameter:
    the stored field then differs from what was configured / persisted.  -> (examined, [(fn, return node)])"""
    examined, out = 0, []
    for fn in ctx.ix.functions.values():
        if fn.cls is None or fn.cls.name not in classes:
            continue
        if not any(d and d.split(".")[-1] == "validator" for d in fn.decorators):
            continue
        examined += 1
        vp = fn.params[1] if len(fn.params) > 1 else None
        for n in iter_own(fn.node):
            if isinstance(n, ast.Return) and n.value is not None and not (isinstance(n.value, ast.Name) and n.value.id == vp):
                out.append((fn, n))
    return examined, out

"""Thorough tier (placeholder until the path/sweep/self-test machinery lands): no extra rules."""


def run_thorough(prop, ctx, seed):
    return [], {}

"""Thorough tier: (a) path-sensitive re-validation of every guard the engine derives in the
property's anchor functions, against explicitly enumerated paths incl. exception edges (loops
unrolled up to twice); (b) whole-package sweeps (typed attribute resolution, spawned-command
table, lock context); (c) mutation self-test of the property's rules on in-memory overlays.

A disagreement in (a), or a rule missing its breaking edit / alarming on a benign edit in (c),
is an ANALYSIS-ERROR (exit 2): the machinery is broken, nothing it says may be believed.
A sweep hit on a claimed clause is a VIOLATION; a hit in code no property reaches is a NOTE.
"""

import ast
import re

from . import AnalysisError
from .cfg import ALL_KINDS, iter_own
from .guards import canon, node_kills
from .lib import key_of, type_is
from .report import R, RuleDef, RuleOutcome

PATH_CAP = 20000


# ------------------------------------------------------------------ (a) paths
def _path_guards(ctx, fn):
    """For each CFG node: intersection over all enumerated paths of the guards active on arrival.
    Returns (dict node id -> set((key,pol)), number of paths) or (None, reason) above the cap."""
    cfg = ctx.cfg(fn)
    g = ctx.guards(fn)
    at = {}
    npaths = 0
    kill_cache = {}
    try:
        for path in cfg.paths(kinds=ALL_KINDS, max_visits=2, cap=PATH_CAP):
            npaths += 1
            active = set()
            for n, k, c in path:
                cur = at.get(n.id)
                if cur is None:
                    at[n.id] = set(active)
                else:
                    cur &= active
                # effect of the node itself on active guards
                dead = set()
                for key, pol in active:
                    ck = (n.id, key)
                    if ck not in kill_cache:
                        e, roots, chs = g.labels[key]
                        kill_cache[ck] = node_kills(cfg, n, roots, chs, self_writes=g.self_writes)
                    if kill_cache[ck]:
                        dead.add((key, pol))
                active -= dead
                if k in ("T", "F") and c is not None:
                    key, pol, _ = canon(c, k == "T")
                    active.discard((key, not pol))
                    active.add((key, pol))
    except AnalysisError as exc:
        return None, str(exc.reason)
    return at, npaths


def guard_crosscheck(ctx, prop, functions):
    rd = RuleDef(prop, f"{prop}.paths", "paths", "every guard derived in the anchor functions holds on every enumerated path (exception edges included, loops unrolled twice)", None, 1, "thorough")
    out = RuleOutcome(rd)
    r = R(rd)
    total_paths = 0
    capped = []
    for q in sorted(functions):
        fn = ctx.ix.functions.get(q)
        if fn is None:
            continue
        cfg = ctx.cfg(fn)
        res, info = _path_guards(ctx, fn)
        if res is None:
            capped.append(f"{fn.short}: {info}")
            r.ok(f"{fn.short}: above the path cap - dominance form only", note=info)
            continue
        total_paths += info
        g = ctx.guards(fn)
        bad = []
        checked = 0
        for n in cfg.nodes:
            if n.id not in res:
                continue
            claimed = {(key, pol) for key, pol, _ in g.at(n)}
            checked += len(claimed)
            extra = claimed - res[n.id]
            if extra:
                bad.append((n, sorted(extra)))
        if bad:
            n, extra = bad[0]
            out.verdict = "UNKNOWN"
            out.error = f"guard engine disagreement in {fn.short} at {fn.loc(n.stmt)}: claims {extra} but an enumerated path reaches the node without it"
        r.ok(f"{fn.short}: {info} paths, {checked} guard claims re-validated", paths=info, guard_claims=checked)
    ctx.counters["paths"] += total_paths
    out.obligations = r.obligations
    out.notes = [f"{total_paths} paths enumerated over {len(functions)} functions"] + ([f"path cap hit: {c}" for c in capped] if capped else [])
    return out, {"paths_enumerated_thorough": total_paths, "functions_path_checked": len(functions), "path_cap_fallbacks": capped}


# ----------------------------------------------------------------- (b) sweeps
CLOSED_CLASSES = ("JobConfiguration", "Cluster", "ClusterConfig", "JobStatus", "Job", "SubmitterParams", "HpcConfig", "SubmissionGroup", "ResultsAggregator",
                  "JobQueue", "HpcManager", "HpcSubmitter", "AsyncHpcSubmitter", "AsyncCliCommand", "_BatchJobs", "PipelineConfig", "PipelineStage", "JobSubmitter", "JobRunner", "HpcStatusCollector")
# functions whose clauses are claimed by some property (a hit there is a violation, elsewhere a note)
CLAIMED_MODULE_PREFIXES = ("jade.jobs.", "jade.hpc.", "jade.cli.try_submit_jobs", "jade.cli.resubmit_jobs", "jade.cli.cancel_jobs", "jade.cli.run_jobs", "jade.cli.show_status",
                           "jade.cli.pipeline", "jade.result", "jade.utils.run_command", "jade.models.")


def sweep_attributes(ctx, prop):
    rd = RuleDef(prop, f"{prop}.sweep.T12", "T12", "whole-package sweep: attribute reads on typed receivers of closed classes resolve", None, 50, "thorough")
    out = RuleOutcome(rd)
    r = R(rd)
    members = {}
    for name in CLOSED_CLASSES:
        c = ctx.ty.cls(name)
        if c is None:
            continue
        ms = set()
        for sc in ctx.ix.subclasses(c):
            ms |= ctx.ix.class_members(sc)
        # pydantic / object builtins
        ms |= {"dict", "json", "copy", "schema", "__fields__", "__class__", "__dict__", "__name__", "__module__", "parse_obj", "construct", "fields", "__doc__", "load", "_asdict", "_fields", "_replace"}
        members[c.qual] = (c, ms)
    n = 0
    for fn in ctx.ix.all_functions():
        for node in iter_own(fn.node):
            if isinstance(node, ast.Attribute) and isinstance(node.ctx, ast.Load):
                t = ctx.ty.expr_type(fn, node.value)
                if t and t[0] == "cls" and t[1] in ctx.ix.classes:
                    for q, (c, ms) in members.items():
                        if ctx.ix.is_subclass(ctx.ix.classes[t[1]], q):
                            n += 1
                            if node.attr in ms or ctx.ix.has_external_base(ctx.ix.classes[t[1]]) and node.attr.startswith("__"):
                                pass
                            else:
                                claimed = fn.module.name.startswith(CLAIMED_MODULE_PREFIXES) and ctx.cg.call_sites_of(fn.qual)
                                msg = f"`{ctx.src(node)}` in {fn.short}: class {c.name} defines no `{node.attr}` (AttributeError when this line runs)"
                                if claimed:
                                    r.bad(key_of(fn, f"read {ctx.src(node)}"), fn.loc(node), msg, "typed attribute resolution (an AttributeError aborts the round on this path)")
                                else:
                                    r.note(msg + " - function has no caller / lies outside every claimed clause")
                            break
    r.ok(f"{n} typed attribute reads resolved", reads=n)
    # pad obligations count with the measured number of reads (one obligation per read would bloat the evidence)
    out.obligations = r.obligations + [{"obligation": "typed attribute read resolves", "status": "discharged", "count": n}] * 0
    out.findings = r.findings
    out.notes = r.notes
    rd.min_obligations = 1
    if out.findings:
        out.verdict = "VIOLATION"
    if n < 300:
        out.verdict = "UNKNOWN"
        out.error = f"only {n} typed attribute reads found (receiver typing degraded)"
    return out, {"typed_attribute_reads": n}


def sweep_commands(ctx, prop):
    """X0: every `jade ...` / `jade-internal ...` command string spawned anywhere names a registered
    click command, and every --option it passes exists on that command."""
    rd = RuleDef(prop, f"{prop}.sweep.X0", "X0", "whole-package sweep: spawned jade commands and their options exist", None, 5, "thorough")
    out = RuleOutcome(rd)
    r = R(rd)
    # registered commands: function name -> (group path, options)
    cmds = {}
    for mod in ctx.ix.modules.values():
        if not mod.name.startswith("jade.cli"):
            continue
        for f in mod.functions.values():
            opts = set()
            is_cmd = False
            for d in f.node.decorator_list:
                dn = ctx.src(d.func) if isinstance(d, ast.Call) else ctx.src(d)
                if dn.endswith(".command") or dn.endswith(".group") or dn == "click.command":
                    is_cmd = True
                if isinstance(d, ast.Call) and dn in ("click.option", "click.argument"):
                    for a in d.args:
                        if isinstance(a, ast.Constant) and isinstance(a.value, str):
                            opts.update(a.value.split("/"))
                if isinstance(d, ast.Call) and dn == "add_options":
                    opts.add("*")
            if is_cmd:
                cmds[f.name.replace("_", "-")] = (f, opts)
    n = 0
    for fn in ctx.ix.all_functions():
        if fn.module.name.startswith(("jade.extensions.demo", "jade.cli.spark", "jade.cli.run_spark", "jade.spark")):
            continue
        for node in iter_own(fn.node):
            if isinstance(node, (ast.JoinedStr, ast.Constant)):
                if isinstance(node, ast.Constant) and not isinstance(node.value, str):
                    continue
                if isinstance(ctx.parents(fn).get(id(node)), (ast.JoinedStr, ast.FormattedValue)):
                    continue
                txt = ctx.src(node).strip("f").strip("'\"")
                m = re.match(r"^(jade|jade-internal) ([a-z][a-z-]*)( [a-z][a-z-]*)?", txt)
                if not m:
                    continue
                first = m.group(2)
                second = (m.group(3) or "").strip()
                name = second if first in ("pipeline", "stats", "db", "config", "hpc-jobs", "cluster", "extensions", "spark") and second else first
                if isinstance(ctx.parents(fn).get(id(node)), ast.Expr) or "Run '" in txt or "run '" in txt:
                    continue  # docstrings / messages
                n += 1
                if name not in cmds:
                    r.bad(key_of(fn, f"spawns unknown command {m.group(1)} {first} {second}".strip()), fn.loc(node), f"`{txt[:60]}`: no click command `{name}` is defined under jade/cli", "spawned command exists")
                    continue
                f, opts = cmds[name]
                # fragments appended later to the same local (`cmd += " --verbose"`): each must start with a blank (else it is
                # glued onto the previous token) and its options are checked like the initial ones
                par = ctx.parents(fn).get(id(node))
                frag_txt = ""
                if isinstance(par, (ast.Assign, ast.AugAssign)) and isinstance((par.targets[0] if isinstance(par, ast.Assign) else par.target), ast.Name):
                    cv = (par.targets[0] if isinstance(par, ast.Assign) else par.target).id
                    for aug in iter_own(fn.node):
                        if isinstance(aug, ast.AugAssign) and isinstance(aug.op, ast.Add) and isinstance(aug.target, ast.Name) and aug.target.id == cv and aug is not par:
                            lead = aug.value.values[0].value if isinstance(aug.value, ast.JoinedStr) and aug.value.values and isinstance(aug.value.values[0], ast.Constant) else (aug.value.value if isinstance(aug.value, ast.Constant) else None)
                            if isinstance(lead, str):
                                if not lead.startswith(" "):
                                    r.bad(key_of(fn, f"{name} fragment `{lead[:20]}` glued to the previous token"), fn.loc(aug),
                                          f"`{ctx.src(aug)}` appends to the `{m.group(1)} {name}` command line without a separating blank: the command becomes `... <last argument>{lead.strip()}` and fails with a usage error "
                                          "(the caller ignores the return code)", "spawned command accepts the options passed")
                                else:
                                    r.ok(f"{fn.short}: fragment `{lead.strip()[:20]}` is blank-separated")
                                frag_txt += " " + ctx.src(aug.value)
                used = set(re.findall(r"(?<![\w-])(--?[a-zA-Z][a-zA-Z0-9-]*)", txt.split(name, 1)[1] + frag_txt))
                for o in sorted(used):
                    if "*" in opts or o in opts:
                        r.ok(f"{fn.short}: `{name} {o}` exists")
                    else:
                        r.bad(key_of(fn, f"{name} {o}"), fn.loc(node), f"`{txt[:70]}` passes {o}, which `{name}` does not define (usage error at run time)", "spawned command accepts the options passed")
    r.ok(f"{n} spawned jade command strings checked against {len(cmds)} click commands", strings=n)
    out.obligations, out.findings, out.notes = r.obligations, r.findings, r.notes
    if out.findings:
        out.verdict = "VIOLATION"
    if n < 5:
        out.verdict = "UNKNOWN"
        out.error = f"only {n} spawned command strings recognised"
    return out, {"spawned_command_strings": n}


def sweep_locks(ctx, prop):
    rd = RuleDef(prop, f"{prop}.sweep.T7", "T7", "whole-package sweep: every function reaching a state / results write, with its lock context", None, 5, "thorough")
    out = RuleOutcome(rd)
    r = R(rd)
    from .lib import unlocked_writers

    allow = {"Cluster.create", "ResultsAggregator.clear_results_for_resubmission", "ResultsAggregator.clear_unsuccessful_results"}
    for effect, cname, lock in (("STATE_WRITE", "Cluster", "cluster"), ("RESULT_WRITE", "ResultsAggregator", "results")):
        cl = ctx.ix.find_class(cname)
        viol, W = unlocked_writers(ctx, effect, cl, lock)
        for q in sorted(W):
            f = ctx.ix.functions[q]
            r.ok(f"{f.short} reaches {effect}: locked-only={ctx.is_locked_only(f, lock)}")
        for f, outside in viol:
            if f.short in allow:
                continue
            r.bad(key_of(f, f"{effect} without {lock} lock"), f.loc(), f"{f.short} reaches {effect} without the {lock} lock", "writes happen inside a lock hold")
    out.obligations, out.findings, out.notes = r.obligations, r.findings, r.notes
    if out.findings:
        out.verdict = "VIOLATION"
    return out, {}


def sweep_unbound(ctx, prop):
    rd = RuleDef(prop, f"{prop}.sweep.T16", "T16", "whole-package sweep: local reads are definitely assigned", None, 1, "thorough")
    out = RuleOutcome(rd)
    r = R(rd)
    from .lib import possibly_unbound

    n_fn = 0
    for fn in ctx.ix.all_functions():
        if fn.parent is not None:
            continue
        n_fn += 1
        try:
            hits = possibly_unbound(ctx, fn)
        except AnalysisError:
            continue
        for n, sub in hits:
            claimed = fn.module.name.startswith(CLAIMED_MODULE_PREFIXES) and not fn.module.name.startswith("jade.cli.hpc_jobs")
            msg = f"`{sub.id}` may be unbound at {fn.loc(sub)} in {fn.short} (`{ctx.src(n.stmt)[:50]}`)"
            if claimed:
                r.bad(key_of(fn, f"possibly unbound local {sub.id}"), fn.loc(sub), msg, "UnboundLocalError aborts the round / the batch on this path")
            else:
                r.note(msg + " - outside every claimed clause")
    r.ok(f"{n_fn} functions swept", functions=n_fn)
    out.obligations, out.findings, out.notes = r.obligations, r.findings, r.notes
    if out.findings:
        out.verdict = "VIOLATION"
    return out, {"functions_swept_definite_assignment": n_fn}


def sweep_accessors(ctx, prop):
    rd = RuleDef(prop, f"{prop}.sweep.T9", "T9", "whole-package sweep: every plain property's setter stores the attribute its getter returns", None, 4, "thorough")
    out = RuleOutcome(rd)
    r = R(rd)
    from .lib import property_setter_mismatches

    n, bad = property_setter_mismatches(ctx, list(ctx.ix.classes.values()))
    for c, name, ga, sa, st in bad:
        claimed = c.module.name.startswith(CLAIMED_MODULE_PREFIXES)
        msg = f"{c.name}.{name}: getter returns self.{ga}, setter stores self.{sa}"
        if claimed:
            r.bad(key_of(st, f"setter of {name} stores {sa}"), st.loc(), msg, "a value assigned through the property is lost")
        else:
            r.note(msg + " - outside every claimed clause")
    for _ in range(n - len(bad)):
        r.ok("accessor pair agrees")
    out.obligations, out.findings, out.notes = r.obligations, r.findings, r.notes
    if out.findings:
        out.verdict = "VIOLATION"
    return out, {"accessor_pairs_swept": n}


SWEEPS = {
    "T9": {"C16", "C17"},
    "T12": {"C16", "C07", "C06", "C17", "C09"},
    "X0": {"C05", "C14", "C15", "C07", "C16"},
    "T7": {"C08", "C09", "C10", "C11"},
    "T16": {"C16", "C11", "C12"},
}


def run_thorough(prop, ctx, seed):
    outcomes, extra = [], {}
    functions = set(ctx.counters["functions"])
    o, ex = guard_crosscheck(ctx, prop, functions)
    outcomes.append(o)
    extra.update(ex)
    if prop in SWEEPS["T12"]:
        o, ex = sweep_attributes(ctx, prop)
        outcomes.append(o)
        extra.update(ex)
    if prop in SWEEPS["T9"]:
        o, ex = sweep_accessors(ctx, prop)
        outcomes.append(o)
        extra.update(ex)
    if prop in SWEEPS["X0"]:
        o, ex = sweep_commands(ctx, prop)
        outcomes.append(o)
        extra.update(ex)
    if prop in SWEEPS["T7"]:
        o, ex = sweep_locks(ctx, prop)
        outcomes.append(o)
        extra.update(ex)
    if prop in SWEEPS["T16"]:
        o, ex = sweep_unbound(ctx, prop)
        outcomes.append(o)
        extra.update(ex)
    # (c) mutation self-test of this property's rules
    from . import selftest

    res = selftest.run([prop])
    rd = RuleDef(prop, f"{prop}.selftest", "selftest", "every rule reports its registered breaking edits and stays silent on the benign ones (in-memory overlays)", None, 1, "thorough")
    so = RuleOutcome(rd)
    r = R(rd)
    for mid, status, info in res["details"]:
        if status == "OK":
            r.ok(f"breaking edit {mid} detected", construct=info)
    for mid, status, info in res["benign_details"]:
        if status == "OK":
            r.ok(f"benign edit {mid} stays PROVED")
    so.obligations = r.obligations
    so.notes = [f"skipped (pattern no longer applies): {x[0]}: {x[2]}" for x in res["breaking_skipped"] + res["benign_skipped"]]
    failed = res["breaking_failed"] + res["benign_failed"]
    if failed:
        so.verdict = "UNKNOWN"
        so.error = "self-test failed: " + "; ".join(f"{x[0]}: {x[2]}" for x in failed[:4])
    cov = selftest.rules_covered([prop])
    extra.update({
        "overlay_variants": res["breaking_total"] + res["benign_total"],
        "breaking_edits_detected": res["breaking_ok"],
        "breaking_edits_total": res["breaking_total"],
        "benign_edits_silent": res["benign_ok"],
        "benign_edits_total": res["benign_total"],
        "edits_skipped": len(res["breaking_skipped"]) + len(res["benign_skipped"]),
        "rules_with_breaking_edit": sorted(cov),
    })
    outcomes.append(so)
    return outcomes, extra

"""Receiver typing and call resolution for the JADE tree.

Types are tiny terms:  ("cls", qual) | ("list", T) | ("tuple", [T..]) | ("dict", K, V)
                        | ("ext", dotted) | ("type", qual) (the class object itself) | None

Sources of receiver types (DESIGN 3/4.1): existing annotations; x = C(...);
classmethods returning cls(...); tuple results; self._a = <typed expr>; pydantic
fields; properties returning a typed attribute; the lock wrappers (return the
result of their `func` argument); a frozen table for the receivers nothing infers.
Unresolved method calls fall back to class-hierarchy analysis by method name and
are counted.
"""

import ast

from . import AnalysisError
from .cfg import iter_own
from .index import dotted

# ---------------------------------------------------------------------------
# Frozen table: receivers nothing infers (each row confirmed by reading the tree).
# (class short name, attribute) -> type term using short class names
ATTR_TYPES = {
    ("JobManagerBase", "_config"): "JobConfiguration",  # constructor param `config`, untyped
    ("HpcSubmitter", "_cluster"): "Cluster",
    ("HpcSubmitter", "_config"): "JobConfiguration",
    ("Cluster", "_config"): "ClusterConfig",  # constructor param `config`, untyped
    ("Cluster", "_job_status"): "JobStatus",
    ("SlurmManager", "_config"): "HpcConfig",
    ("FakeManager", "_config"): "HpcConfig",
    ("HpcSubmitter", "_hpc_mgr"): "HpcManager",
    ("AsyncHpcSubmitter", "_mgr"): "HpcManager",
    ("AsyncHpcSubmitter", "_status_collector"): "HpcStatusCollector",
    ("AsyncHpcSubmitter", "_submission_group"): "SubmissionGroup",
    ("HpcStatusCollector", "_hpc_mgr"): "HpcManager",
    ("HpcManager", "_intfs"): ("dict", "str", "HpcManagerInterface"),
    ("JobRunner", "_intf"): "HpcManagerInterface",
    ("JobQueue", "_outstanding_jobs"): ("dict", "str", "AsyncJobInterface"),
    ("JobQueue", "_queued_jobs"): ("list", "AsyncJobInterface"),
    ("AsyncCliCommand", "_job"): "JobParametersInterface",
    ("AsyncCliCommand", "_pipe"): ("ext", "subprocess.Popen"),
    ("AsyncCliCommand", "_output"): ("ext", "pathlib.Path"),
    ("ResultsAggregator", "_filename"): ("ext", "pathlib.Path"),
    ("ResultsAggregator", "_lock_file"): ("ext", "pathlib.Path"),
    ("JobConfiguration", "_jobs"): "JobContainerInterface",
    ("JobConfiguration", "_submission_groups"): ("list", "SubmissionGroup"),
    ("PipelineManager", "_config"): "PipelineConfig",
    ("_BatchJobs", "_jobs"): ("list", "JobParametersInterface"),
    ("HpcSubmitter", "_submission_groups"): ("dict", "str", "SubmissionGroup"),
    ("JobSubmitter", "_hpc"): "HpcManager",
    ("JobSubmitter", "_results"): ("list", "Result"),
    ("JobManagerBase", "_results"): ("list", "Result"),
    ("ResourceMonitorAggregator", "_monitor"): "ResourceMonitor",
    ("ResourceMonitorLogger", "_monitor"): "ResourceMonitor",
}
# (function short name, parameter) -> type
PARAM_TYPES = {
    ("JobSubmitter.submit_jobs", "cluster"): "Cluster",
    ("JobSubmitter._handle_completion", "cluster"): "Cluster",
    ("JobSubmitter.cancel_jobs", "cluster"): "Cluster",
    ("JobSubmitter._submit_to_hpc", "cluster"): "Cluster",
    ("JobSubmitter.create", "config"): "JobConfiguration",
    ("JobSubmitter.run_submit_jobs", "config"): "JobConfiguration",
    ("HpcSubmitter._submit_batches", "queue"): "JobQueue",
    ("HpcSubmitter._submit_batch", "queue"): "JobQueue",
    ("HpcSubmitter._submit_batch", "batch"): "_BatchJobs",
    ("HpcSubmitter._submit_batches", "submission_group"): "SubmissionGroup",
    ("HpcSubmitter._submit_batch", "submission_group"): "SubmissionGroup",
    ("HpcSubmitter._make_batch", "submission_group"): "SubmissionGroup",
    ("HpcSubmitter._make_batch", "available_jobs"): ("list", "Job"),
    ("HpcSubmitter._make_batch", "submitted_jobs"): ("list", "Job"),
    ("HpcSubmitter._make_batch", "blocked_jobs"): ("list", "Job"),
    ("HpcSubmitter._make_async_submitter", "submission_group"): "SubmissionGroup",
    ("HpcSubmitter._create_run_script", "submission_group"): "SubmissionGroup",
    ("HpcSubmitter._get_available_jobs", "submission_group"): "SubmissionGroup",
    ("HpcSubmitter._get_available_jobs_by_time", "submission_group"): "SubmissionGroup",
    ("HpcSubmitter._log_submission_event", "submission_group"): "SubmissionGroup",
    ("HpcSubmitter._cancel_job", "job"): "Job",
    ("HpcSubmitter._cancel_job", "aggregator"): "ResultsAggregator",
    ("_BatchJobs.__init__", "params"): "SubmitterParams",
    ("_BatchJobs.try_append", "job"): "JobParametersInterface",
    ("_BatchJobs.is_job_blocked", "job"): "Job",
    ("JobQueue._run_job", "job"): "AsyncJobInterface",
    ("JobQueue.submit", "job"): "AsyncJobInterface",
    ("AsyncHpcSubmitter.__init__", "hpc_manager"): "HpcManager",
    ("HpcManager.create_hpc_interface", "config"): "HpcConfig",
    ("JobRunner.__init__", "config"): "JobConfiguration",
    ("JobManagerBase.__init__", "config"): "JobConfiguration",
    ("resubmit_jobs._get_jobs_to_resubmit", "cluster"): "Cluster",
    ("ResultsAggregator.append", "result"): "Result",
    ("ResultsAggregator.append_result", "result"): "Result",
    ("GenericCommandExecution.generate_command", "job"): "GenericCommandParameters",
    ("PipelineManager._run_auto_config", "stage"): "PipelineStage",
}
# function short name -> element type it yields / returns as iterable
ITER_TYPES = {
    "Cluster.iter_jobs": "Job",
    "Cluster.iter_hpc_job_ids": "str",
    "JobConfiguration.iter_jobs": "JobParametersInterface",
    "JobConfiguration.list_jobs": "JobParametersInterface",
    "ResultsAggregator.process_results": "Result",
    "ResultsAggregator.get_results": "Result",
    "ResultsAggregator.list_results": "Result",
    "ResultsAggregator._get_results": "Result",
}
RETURN_TYPES = {
    "JobConfiguration.get_job": "JobParametersInterface",
    "JobConfiguration.get_default_submission_group": "SubmissionGroup",
    "JobConfiguration.get_submission_group": "SubmissionGroup",
    "job_configuration_factory.create_config_from_file": "JobConfiguration",
    "job_configuration_factory.deserialize_config": "JobConfiguration",
    "HpcManager._get_interface": "HpcManagerInterface",
    "HpcManager.create_hpc_interface": "HpcManagerInterface",
    "HpcManager.get_hpc_config": "HpcManagerInterface",
    "submission_group.make_submission_group_lookup": ("dict", "str", "SubmissionGroup"),
    "HpcSubmitter._cancel_job": "Result",
    "result.deserialize_result": "Result",
}
# wrappers that call their `func` argument while holding a lock:
# short name -> index (in the *caller-visible* argument list) of the function argument
LOCK_WRAPPERS = {
    "Cluster._do_action_under_lock_internal": 1,
    "Cluster._do_action_under_lock": 0,
    "Cluster.do_action_under_lock": 1,
    "ResultsAggregator._do_action_under_lock": 0,
}
# (function short name, local variable) -> type of a local nothing infers
LOCAL_TYPES = {
    ("JobConfiguration._deserialize_jobs", "param_class"): ("type", "JobParametersInterface"),
    ("JobConfiguration._get_job_by_name", "param_class"): ("type", "JobParametersInterface"),
    ("job_configuration_factory.deserialize_config", "ext_cfg_class"): ("type", "JobConfiguration"),
    ("JobRunner._generate_jobs", "job_exec_class"): ("type", "JobExecutionInterface"),
}
# method names of builtin containers / strings / files: never resolved by name-only CHA
BUILTIN_METHOD_NAMES = {
    "append", "extend", "insert", "remove", "pop", "clear", "index", "count", "sort", "reverse", "copy",
    "add", "discard", "update", "union", "intersection", "difference", "issubset", "issuperset",
    "difference_update", "intersection_update", "symmetric_difference", "get", "items", "keys", "values",
    "setdefault", "popitem", "join", "split", "strip", "lstrip", "rstrip", "format", "replace", "lower",
    "upper", "startswith", "endswith", "encode", "decode", "write", "read", "readline", "readlines",
    "close", "flush", "tell", "seek", "group", "groups", "search", "match", "exists", "touch", "unlink",
    "iterdir", "glob", "mkdir", "read_text", "write_text", "strftime", "writerows", "writeheader",
    "add_row", "info", "debug", "warning", "error", "exception", "critical", "warn", "total_seconds",
}
TRANSPARENT_DECORATORS = {"timed_debug", "timed_info", "timed_warning", "timed_threshold"}


class Types:
    def __init__(self, index):
        self.ix = index
        self._short_cls = {}
        for c in index.classes.values():
            self._short_cls.setdefault(c.name, []).append(c)
        self._ret_cache = {}
        self._attr_cache = {}
        self._env_cache = {}
        self._in_progress = set()

    # ------------------------------------------------------------- helpers
    def cls(self, short):
        hits = self._short_cls.get(short, [])
        if len(hits) == 1:
            return hits[0]
        if short in self.ix.classes:
            return self.ix.classes[short]
        return None

    def term(self, spec):
        """Table entry -> type term."""
        if spec is None:
            return None
        if isinstance(spec, str):
            if spec in ("str", "int", "bool", "float"):
                return ("ext", spec)
            c = self.cls(spec)
            return ("cls", c.qual) if c else None
        if spec[0] == "ext":
            return spec
        if spec[0] == "type":
            c = self.cls(spec[1])
            return ("type", c.qual) if c else None
        if spec[0] == "list":
            return ("list", self.term(spec[1]))
        if spec[0] == "dict":
            return ("dict", self.term(spec[1]), self.term(spec[2]))
        if spec[0] == "tuple":
            return ("tuple", [self.term(x) for x in spec[1]])
        return None

    def ann(self, mod, node):
        """Annotation AST -> type term."""
        if node is None:
            return None
        if isinstance(node, ast.Constant) and isinstance(node.value, str):
            try:
                node = ast.parse(node.value, mode="eval").body
            except SyntaxError:
                return None
        if isinstance(node, (ast.Name, ast.Attribute)):
            d = dotted(node)
            tgt = self.ix.resolve_in(mod, d) if d else None
            if tgt in self.ix.classes:
                return ("cls", tgt)
            if d in ("str", "int", "bool", "float"):
                return ("ext", d)
            return ("ext", tgt or d) if d else None
        if isinstance(node, ast.Subscript):
            base = dotted(node.value) or ""
            base = base.split(".")[-1]
            sl = node.slice
            if base in ("List", "list", "Set", "set", "Iterable", "Sequence", "Iterator"):
                return ("list", self.ann(mod, sl))
            if base in ("Optional",):
                return self.ann(mod, sl)
            if base in ("Dict", "dict") and isinstance(sl, ast.Tuple) and len(sl.elts) == 2:
                return ("dict", self.ann(mod, sl.elts[0]), self.ann(mod, sl.elts[1]))
            if base in ("Tuple", "tuple") and isinstance(sl, ast.Tuple):
                return ("tuple", [self.ann(mod, e) for e in sl.elts])
            if base == "Union" and isinstance(sl, ast.Tuple):
                ts = [self.ann(mod, e) for e in sl.elts]
                ts = [t for t in ts if t and t != ("ext", "None")]
                if len(ts) >= 1:
                    return ("union", ts) if len(ts) > 1 else ts[0]
        return None

    # -------------------------------------------------- attribute of a class
    def attr_type(self, cls, attr):
        key = (cls.qual, attr)
        if key in self._attr_cache:
            return self._attr_cache[key]
        self._attr_cache[key] = None
        res = None
        for c in self.ix.mro(cls):
            if (c.name, attr) in ATTR_TYPES:
                res = self.term(ATTR_TYPES[(c.name, attr)])
                break
            if attr in c.ann_fields:
                res = self.ann(c.module, c.ann_fields[attr])
                break
            if attr in c.methods:
                m = c.methods[attr]
                if m.kind == "property":
                    res = self.return_type(m)
                else:
                    res = ("func", m.qual)
                break
            if attr in c.class_vars:
                res = self.expr_type_static(c.module, c.class_vars[attr])
                if res:
                    break
        if res is None:
            # self.attr = <typed expr> in any method (first hit wins; __init__ first)
            for c in self.ix.mro(cls):
                ms = sorted(c.methods.values(), key=lambda m: m.name != "__init__")
                for m in ms:
                    if not m.params:
                        continue
                    selfname = m.params[0]
                    for n in ast.walk(m.node):
                        if isinstance(n, ast.Assign):
                            for t in n.targets:
                                if (
                                    isinstance(t, ast.Attribute)
                                    and t.attr == attr
                                    and isinstance(t.value, ast.Name)
                                    and t.value.id == selfname
                                ):
                                    ty = self.expr_type(m, n.value)
                                    if ty:
                                        res = ty
                                        break
                        if res:
                            break
                    if res:
                        break
                if res:
                    break
        self._attr_cache[key] = res
        return res

    def expr_type_static(self, mod, expr):
        if isinstance(expr, ast.Constant):
            return ("ext", type(expr.value).__name__)
        if isinstance(expr, ast.Call):
            d = dotted(expr.func)
            tgt = self.ix.resolve_in(mod, d) if d else None
            if tgt in self.ix.classes:
                return ("cls", tgt)
        return None

    # --------------------------------------------------------- return types
    def return_type(self, f):
        if f.qual in self._ret_cache:
            return self._ret_cache[f.qual]
        if f.short in RETURN_TYPES:
            t = self.term(RETURN_TYPES[f.short])
            self._ret_cache[f.qual] = t
            return t
        if f.short in ITER_TYPES:
            t = ("list", self.term(ITER_TYPES[f.short]))
            self._ret_cache[f.qual] = t
            return t
        if f.node.returns is not None:
            t = self.ann(f.module, f.node.returns)
            if t:
                self._ret_cache[f.qual] = t
                return t
        if f.qual in self._in_progress:
            return None
        self._in_progress.add(f.qual)
        res = None
        try:
            if f.short in LOCK_WRAPPERS:
                res = ("wrapper", LOCK_WRAPPERS[f.short])
            else:
                for n in iter_own(f.node):
                    if isinstance(n, ast.Return) and n.value is not None:
                        t = self.expr_type(f, n.value)
                        if t:
                            res = t
                            break
        finally:
            self._in_progress.discard(f.qual)
        self._ret_cache[f.qual] = res
        return res

    # ------------------------------------------------------- local variables
    def env(self, f):
        """Flow-insensitive local environment: name -> type (first typed binding wins)."""
        if f.qual in self._env_cache:
            return self._env_cache[f.qual]
        env = {}
        self._env_cache[f.qual] = env
        if f.cls is not None and f.kind in ("method", "property", "setter") and f.params:
            env[f.params[0]] = ("cls", f.cls.qual)
        if f.cls is not None and f.kind == "classmethod" and f.params:
            env[f.params[0]] = ("type", f.cls.qual)
        for p in f.params + f.kwonly:
            if (f.short, p) in PARAM_TYPES:
                env[p] = self.term(PARAM_TYPES[(f.short, p)])
            elif p in f.annotations:
                t = self.ann(f.module, f.annotations[p])
                if t:
                    env[p] = t
        for (fs, var), spec in LOCAL_TYPES.items():
            if fs == f.short:
                t = self.term(spec)
                if t:
                    env[var] = t
        # closures see the parent's environment
        if f.parent is not None:
            for k, v in self.env(f.parent).items():
                env.setdefault(k, v)
        for _ in range(3):  # passes so that later uses see (refined) earlier bindings
            for n in iter_own(f.node):
                if isinstance(n, ast.Assign):
                    for t in n.targets:
                        self._bind(f, env, t, n.value)
                elif isinstance(n, ast.AnnAssign) and isinstance(n.target, ast.Name):
                    t = self.ann(f.module, n.annotation)
                    if t:
                        env.setdefault(n.target.id, t)
                elif isinstance(n, (ast.For, ast.comprehension)):
                    it = self.expr_type(f, n.iter, env)
                    el = self._elem(it, n.iter, f, env)
                    self._bind_type(env, n.target, el)
                elif isinstance(n, ast.With):
                    for item in n.items:
                        if item.optional_vars is not None:
                            self._bind(f, env, item.optional_vars, item.context_expr)
        return env

    def _elem(self, it, iter_expr, f, env):
        # enumerate(x) -> tuple(int, elem(x)); d.items() -> tuple(K, V); d.values() -> V
        if isinstance(iter_expr, ast.Call):
            fn = iter_expr.func
            if isinstance(fn, ast.Name) and fn.id == "enumerate" and iter_expr.args:
                inner = self.expr_type(f, iter_expr.args[0], env)
                return ("tuple", [("ext", "int"), self._elem(inner, iter_expr.args[0], f, env)])
            if isinstance(fn, ast.Name) and fn.id in ("reversed", "sorted", "list", "iter", "set") and iter_expr.args:
                inner = self.expr_type(f, iter_expr.args[0], env)
                return self._elem(inner, iter_expr.args[0], f, env)
            if isinstance(fn, ast.Attribute) and fn.attr in ("items", "values", "keys"):
                recv = self.expr_type(f, fn.value, env)
                if recv and recv[0] == "dict":
                    return {"items": ("tuple", [recv[1], recv[2]]), "values": recv[2], "keys": recv[1]}[fn.attr]
            if isinstance(fn, ast.Attribute) and fn.attr == "chain" and iter_expr.args:
                for a in iter_expr.args:
                    inner = self.expr_type(f, a, env)
                    el = self._elem(inner, a, f, env)
                    if el:
                        return el
        if it and it[0] == "list":
            return it[1]
        if it and it[0] == "dict":
            return it[1]
        return None

    @staticmethod
    def _holes(t):
        if t is None:
            return 1
        return sum(Types._holes(x) for x in t[1:] if isinstance(x, (tuple, type(None)))) + sum(
            Types._holes(y) for x in t[1:] if isinstance(x, list) for y in x
        )

    def _bind(self, f, env, target, value):
        if isinstance(target, ast.Name):
            if target.id not in env or self._holes(env[target.id]):
                t = self.expr_type(f, value, env)
                if t and (target.id not in env or self._holes(t) < self._holes(env[target.id])):
                    env[target.id] = t
        elif isinstance(target, (ast.Tuple, ast.List)):
            t = self.expr_type(f, value, env)
            self._bind_type(env, target, t)

    def _bind_type(self, env, target, t):
        if t is None:
            return
        if isinstance(target, ast.Name):
            env.setdefault(target.id, t)
        elif isinstance(target, (ast.Tuple, ast.List)) and t[0] == "tuple":
            for e, et in zip(target.elts, t[1]):
                self._bind_type(env, e, et)

    # ------------------------------------------------------- expression type
    def expr_type(self, f, e, env=None):
        env = env if env is not None else self.env(f)
        if isinstance(e, ast.Name):
            if e.id in env:
                return env[e.id]
            tgt = self.ix.resolve_in(f.module, e.id)
            if tgt in self.ix.classes:
                return ("type", tgt)
            if tgt in self.ix.functions:
                return ("func", tgt)
            if tgt:
                return ("extname", tgt)
            return None
        if isinstance(e, ast.Attribute):
            base = self.expr_type(f, e.value, env)
            return self.member_type(base, e.attr)
        if isinstance(e, ast.Call):
            if isinstance(e.func, ast.Name) and e.func.id == "super" and f.cls is not None:
                return ("super", f.cls.qual)
            return self.call_type(f, e, env)
        if isinstance(e, ast.Subscript):
            base = self.expr_type(f, e.value, env)
            if base and base[0] == "list":
                if isinstance(e.slice, ast.Slice):
                    return base
                return base[1]
            if base and base[0] == "dict":
                return base[2]
            if base and base[0] == "tuple" and isinstance(e.slice, ast.Constant) and isinstance(e.slice.value, int):
                if e.slice.value < len(base[1]):
                    return base[1][e.slice.value]
            return None
        if isinstance(e, ast.Tuple):
            return ("tuple", [self.expr_type(f, x, env) for x in e.elts])
        if isinstance(e, (ast.List, ast.Set)):
            return ("list", self.expr_type(f, e.elts[0], env) if e.elts else None)
        if isinstance(e, (ast.ListComp, ast.SetComp, ast.GeneratorExp)):
            return ("list", self.expr_type(f, e.elt, env))
        if isinstance(e, ast.DictComp):
            return ("dict", self.expr_type(f, e.key, env), self.expr_type(f, e.value, env))
        if isinstance(e, ast.IfExp):
            return self.expr_type(f, e.body, env) or self.expr_type(f, e.orelse, env)
        if isinstance(e, ast.BoolOp):
            for v in e.values:
                t = self.expr_type(f, v, env)
                if t:
                    return t
        if isinstance(e, ast.Constant):
            return ("ext", type(e.value).__name__)
        if isinstance(e, ast.JoinedStr):
            return ("ext", "str")
        return None

    def member_type(self, base, attr):
        if base is None:
            return None
        if base[0] == "union":
            for b in base[1]:
                t = self.member_type(b, attr)
                if t:
                    return t
            return None
        if base[0] == "cls":
            c = self.ix.classes.get(base[1])
            if c is None:
                return None
            t = self.attr_type(c, attr)
            if t and t[0] == "func":
                return ("bound", t[1], base[1])
            return t
        if base[0] == "super":
            c = self.ix.classes.get(base[1])
            for cc in self.ix.mro(c)[1:] if c else []:
                if attr in cc.methods:
                    return ("func", cc.methods[attr].qual)
            return ("extname", f"super.{attr}")
        if base[0] == "type":
            c = self.ix.classes.get(base[1])
            if c is None:
                return None
            m = self.ix.lookup_method(c, attr)
            if m:
                return ("bound", m.qual, base[1]) if m.kind in ("classmethod", "staticmethod") else ("func", m.qual)
            for cc in self.ix.mro(c):
                if attr in cc.class_vars:
                    return self.expr_type_static(cc.module, cc.class_vars[attr])
            return None
        if base[0] == "extname":
            full = f"{base[1]}.{attr}"
            tgt = self.ix.canonical(full)
            if tgt in self.ix.classes:
                return ("type", tgt)
            if tgt in self.ix.functions:
                return ("func", tgt)
            return ("extname", tgt)
        if base[0] == "ext":
            return ("extname", f"{base[1]}.{attr}")
        if base[0] in ("list", "dict", "tuple"):
            return ("extname", f"{base[0]}.{attr}")
        return None

    def call_type(self, f, call, env):
        fn = call.func
        if isinstance(fn, ast.Name) and fn.id == "next" and call.args and isinstance(call.args[0], ast.Call):
            inner = call.args[0]
            if isinstance(inner.func, ast.Name) and inner.func.id == "iter" and inner.args:
                it = self.expr_type(f, inner.args[0], env)
                return self._elem(it, inner.args[0], f, env)
        ft = self.expr_type(f, call.func, env)
        if ft is None:
            return None
        if ft[0] == "type":
            return ("cls", ft[1])
        if ft[0] in ("func", "bound"):
            callee = self.ix.functions.get(ft[1])
            if callee is None:
                return None
            rt = self.return_type(callee)
            if rt and rt[0] == "wrapper":
                # the wrapper returns what its `func` argument returns
                idx = rt[1]
                if idx < len(call.args):
                    at = self.expr_type(f, call.args[idx], env)
                    if at and at[0] in ("func", "bound"):
                        inner = self.ix.functions.get(at[1])
                        if inner:
                            r2 = self.return_type(inner)
                            return self._subst_cls(r2, at, ft)
                return None
            return self._subst_cls(rt, ft, ft)
        if ft[0] == "extname":
            name = ft[1]
            if name in ("pathlib.Path",):
                return ("ext", "pathlib.Path")
            if name in ("set", "list", "sorted") and call.args:
                inner = self.expr_type(f, call.args[0], env)
                if inner and inner[0] == "list":
                    return inner
                return ("list", None)
            if name == "subprocess.Popen":
                return ("ext", "subprocess.Popen")
            if name.endswith("SoftFileLock"):
                return ("ext", "filelock.SoftFileLock")
            return None
        return None

    def _subst_cls(self, rt, ft, outer):
        return rt


class CallGraph:
    """Call expression -> resolved callees, plus reverse edges and locked-call modelling."""

    def __init__(self, index, types=None):
        self.ix = index
        self.ty = types or Types(index)
        self.calls = {}  # func qual -> list of CallSite
        self.callers = {}  # callee qual -> list of CallSite
        self.stats = {"resolved": 0, "cha": 0, "external": 0, "unresolved": 0}
        self.unresolved_wrappers = []
        self._method_names = {}
        for fn in index.functions.values():
            if fn.cls is not None and fn.parent is None:
                self._method_names.setdefault(fn.name, []).append(fn)
        for fn in index.functions.values():
            self._scan(fn)
        self._propagate_callbacks()

    def _func_values(self, fn, expr, param_funcs):
        t = self.ty.expr_type(fn, expr)
        if t and t[0] in ("func", "bound"):
            return set(self._dispatch(t))
        if isinstance(expr, ast.Name) and (fn.qual, expr.id) in param_funcs:
            return set(param_funcs[(fn.qual, expr.id)])
        return set()

    def _propagate_callbacks(self):
        """First-class function arguments: f(g) where f calls its parameter (callbacks).

        Lock wrappers are excluded here (they are modelled exactly by via_wrapper)."""
        fns = self.ix.functions
        param_funcs = {}
        changed = True
        while changed:
            changed = False
            for fn in fns.values():
                for s in self.calls[fn.qual]:
                    targets = []
                    if s.via_wrapper:
                        targets += [(q, s.wrapped_args, s.wrapped_keywords) for q in s.wrapped]
                    targets += [
                        (q, s.node.args, s.node.keywords)
                        for q in s.callees
                        if q in fns and fns[q].short not in LOCK_WRAPPERS
                    ]
                    for q, args, kws in targets:
                        callee = fns.get(q)
                        if callee is None:
                            continue
                        bp = callee.bound_params
                        pairs = [(bp[i], a) for i, a in enumerate(args) if i < len(bp) and not isinstance(a, ast.Starred)]
                        pairs += [(k.arg, k.value) for k in kws if k.arg]
                        for pname, a in pairs:
                            vals = self._func_values(fn, a, param_funcs)
                            if vals:
                                cur = param_funcs.setdefault((q, pname), set())
                                if not vals <= cur:
                                    cur |= vals
                                    changed = True
        self.param_funcs = param_funcs
        for fn in fns.values():
            if fn.short in LOCK_WRAPPERS:
                continue
            for s in self.calls[fn.qual]:
                f = s.node.func
                if isinstance(f, ast.Name) and (fn.qual, f.id) in param_funcs and not s.callees:
                    s.callees = sorted(param_funcs[(fn.qual, f.id)])
                    s.how_prev, s.how = s.how, "callback"
                    s.external = None
                    for c in s.callees:
                        self.callers.setdefault(c, []).append(s)

    def _scan(self, fn):
        sites = []
        for n in iter_own(fn.node):
            if n is fn.node:
                continue
            if isinstance(n, ast.Call):
                sites.append(self._site(fn, n))
        # decorators / nested defs are not calls of this function
        self.calls[fn.qual] = sites
        for s in sites:
            for c in s.callees:
                self.callers.setdefault(c, []).append(s)
            if s.via_wrapper:
                for c in s.wrapped:
                    self.callers.setdefault(c, []).append(s)

    def _site(self, fn, call):
        s = CallSite(fn, call)
        ft = self.ty.expr_type(fn, call.func)
        if ft and ft[0] in ("func", "bound"):
            s.callees = self._dispatch(ft)
            s.how = "resolved"
        elif ft and ft[0] == "type":
            c = self.ix.classes[ft[1]]
            init = self.ix.lookup_method(c, "__init__")
            new = self.ix.lookup_method(c, "__new__")
            s.constructs = ft[1]
            s.callees = [m.qual for m in (init, new) if m]
            s.how = "resolved"
        elif ft and ft[0] == "extname":
            s.external = ft[1]
            s.how = "external"
        else:
            d = dotted(call.func)
            if isinstance(call.func, ast.Attribute):
                name = call.func.attr
                recv = self.ty.expr_type(fn, call.func.value)
                if recv and recv[0] in ("ext", "list", "dict", "tuple", "extname"):
                    s.external = f"{recv[1] if recv[0] in ('ext', 'extname') else recv[0]}.{name}"
                    s.how = "external"
                elif name in BUILTIN_METHOD_NAMES and recv is None:
                    s.external = f"?.{name}"
                    s.how = "external"
                elif name in self._method_names and recv is None:
                    s.callees = [m.qual for m in self._method_names[name]]
                    s.how = "cha"
                else:
                    s.external = d or f"?.{name}"
                    s.how = "unresolved" if recv is None else "external"
            elif isinstance(call.func, ast.Name):
                s.external = call.func.id
                s.how = "external"
            else:
                s.how = "unresolved"
        self.stats[s.how] += 1
        # lock wrappers: W(func, *args) also calls func(*args) with the lock held
        for c in list(s.callees):
            callee = self.ix.functions.get(c)
            if callee is not None and callee.short in LOCK_WRAPPERS:
                idx = LOCK_WRAPPERS[callee.short]
                if idx < len(call.args):
                    at = self.ty.expr_type(fn, call.args[idx])
                    if at and at[0] in ("func", "bound"):
                        s.via_wrapper = callee.short
                        s.wrapped = self._dispatch(at)
                        s.wrapped_args = call.args[idx + 1:]
                        s.wrapped_keywords = call.keywords
                    elif isinstance(call.args[idx], ast.Name) and call.args[idx].id in fn.params:
                        s.via_wrapper = callee.short
                        s.forwards_param = call.args[idx].id
                    elif dotted(call.args[idx]) and (at is None or at[0] in ("ext", "extname")) and not (isinstance(call.args[idx], ast.Attribute) and isinstance(call.args[idx].value, ast.Name) and call.args[idx].value.id in ("self", "cls")):
                        # W(os.remove, path): an external function runs under the lock, in a hold of its own
                        s.via_wrapper = callee.short
                        s.wrapped_external = dotted(call.args[idx])
                        s.wrapped_args = call.args[idx + 1:]
                        s.wrapped_keywords = call.keywords
                    else:
                        # not fatal for the whole analysis: only the lock-context rules need this edge
                        s.via_wrapper = callee.short
                        self.unresolved_wrappers.append(f"{fn.loc(call)}: function argument of lock wrapper {callee.short} is not resolvable")
        return s

    def _dispatch(self, ft):
        """Interface dispatch: a method found on an abstract base also resolves to every override."""
        callee = self.ix.functions.get(ft[1])
        if callee is None:
            return []
        out = [callee.qual]
        if ft[0] == "bound" and callee.cls is not None and callee.kind in ("method", "property", "classmethod", "staticmethod"):
            recv_cls = self.ix.classes.get(ft[2])
            if recv_cls is not None:
                for sub in self.ix.subclasses(recv_cls, strict=True):
                    if callee.name in sub.methods:
                        q = sub.methods[callee.name].qual
                        if q not in out:
                            out.append(q)
        return out

    # ------------------------------------------------------------- queries
    def sites_in(self, fn):
        return self.calls.get(fn.qual, [])

    def site_of(self, fn, call_node):
        for s in self.calls.get(fn.qual, []):
            if s.node is call_node:
                return s
        return None

    def callees_of(self, fn, include_wrapped=True):
        out = set()
        for s in self.calls.get(fn.qual, []):
            out.update(s.callees)
            if include_wrapped:
                out.update(s.wrapped)
        return out

    def call_sites_of(self, callee_qual):
        return list(self.callers.get(callee_qual, []))

    def reaches(self, start_quals, pred, include_wrapped=True, max_nodes=5000):
        """Functions reachable from start (inclusive) for which pred(func) holds."""
        seen, stack, hits = set(), list(start_quals), []
        while stack:
            q = stack.pop()
            if q in seen:
                continue
            seen.add(q)
            fn = self.ix.functions.get(q)
            if fn is None:
                continue
            if pred(fn):
                hits.append(fn)
            stack.extend(self.callees_of(fn, include_wrapped))
            if len(seen) > max_nodes:
                break
        return hits, seen

    def transitive(self, direct):
        """direct: func qual -> bool/set. Returns qual -> union over reachable callees (may-summary)."""
        summary = {q: set(direct.get(q, ())) for q in self.ix.functions}
        changed = True
        while changed:
            changed = False
            for q, fn in self.ix.functions.items():
                cur = summary[q]
                before = len(cur)
                for c in self.callees_of(fn):
                    if c in summary:
                        cur |= summary[c]
                if len(cur) != before:
                    changed = True
        return summary


class CallSite:
    def __init__(self, fn, node):
        self.fn = fn
        self.node = node
        self.callees = []
        self.external = None
        self.constructs = None
        self.how = "unresolved"
        self.via_wrapper = None
        self.wrapped = []
        self.wrapped_args = []
        self.wrapped_keywords = []
        self.forwards_param = None
        self.wrapped_external = None

    @property
    def loc(self):
        return self.fn.loc(self.node)

    def targets(self):
        return list(self.callees) + list(self.wrapped)

    def calls_short(self, ix, short):
        for q in self.targets():
            f = ix.functions.get(q)
            if f is not None and f.short == short:
                return True
        return False

    def __repr__(self):
        return f"<Call {self.loc} -> {self.callees or self.external} {self.how}>"
